"""C08 - normal forms and contraction-order optimisation preserve value."""
from harness import check, replay
from checks.c02 import judge_events

SEMIRINGS = ["addmul", "logaddexp", "maxadd", "minadd", "maxmul", "minmul", "orand"]
LIMIT = {"quick": 1200, "thorough": 15000}


def run(tier):
    out = check.Outcome("C08", tier)
    specs = [dict(module="semiring_" + s, cfg="semiring_" + s if tier == "quick" else "semiring_%s_deep" % s,
                  limit=LIMIT[tier]) for s in SEMIRINGS]
    specs.append(dict(module="mixed_contraction", limit=4500 if tier == "quick" else None))
    specs.append(dict(module="negred"))
    specs.append(dict(module="neginf_contraction"))
    # directly nested reductions with the two ops of one semiring (sum_x prod_p f, logaddexp over add, max over add)
    for c in ("addmul", "logadd", "maxadd"):
        specs.append(dict(module="nestred", cfg="nestred_" + c, limit=1500 if tier == "quick" else 4000))
    rp = replay.run_many("harness.modes:c08", specs, parallel=4)
    out.add_replay(rp, "termmachine")
    # implementation-shaped model of the optimizer's path loop: every path, forced onto the code
    ro = replay.Replay("harness.modes:c08path")
    for cfg in (["OptPath"] if tier == "quick" else ["OptPath", "OptPath_log", "OptPath4"]):
        ro.run_lens("OptPath", cfg=cfg)
    out.add_replay(ro, "optpath")
    # float range: the shift law TLC proved on each homogeneous program (c = log 2), replayed with
    # every leaf shifted by -400 / +400
    rs = replay.Replay("harness.modes:c08shift")
    rs.run_lens("hom_logaddexp", cfg="hom_logaddexp" if tier == "quick" else "hom_logaddexp_deep", timeout=2400)
    out.add_replay(rs, "homogeneity")
    events = rp.events
    jr, n_ok, n_bad, n_undef = judge_events(out, events, "C08", lambda e: "%s|%s" % (e["what"], replay.term_sig(e["lhs"], 2)), timeout=300 if tier == "quick" else 2400)
    cov = check.replay_coverage(
        rp, "every sum-product expression of the semiring lenses (all subsets of reduced variables, operands with and "
            "without each variable): normalize / unfold / optimize results as terms judged by TLC against the naive "
            "denotation, their eager values and einsum() compared with the table TLC emitted; normalize idempotent")
    cov["states"] += jr.states
    cov["transitions"] += jr.transitions
    cov["terms_judged_by_tlc"] = len(events)
    cov["terms_ok"] = n_ok
    cov["terms_bad"] = n_bad
    cov["states"] += ro.states
    cov["transitions"] += ro.transitions
    cov["traces_validated_against_impl"] += ro.records
    cov["optimizer_path_model"] = {"tlc_states": ro.states, "problem_path_pairs_replayed": ro.records,
                                   "verdicts": dict(ro.counts)}
    cov["states"] += rs.states
    cov["transitions"] += rs.transitions
    cov["traces_validated_against_impl"] += rs.records
    cov["shift_law_replay"] = {"tlc_states": rs.states, "programs": rs.records, "verdicts": dict(rs.counts)}
    cov["exhaustive"] = False
    out.coverage = cov
    return out.finish()


def replay_file(path):
    from harness import replayfile
    return replayfile.replay_term(path, "harness.modes:c08", "C08")
