"""C08 - normal forms and contraction-order optimisation preserve value."""
from harness import check, replay
from checks.c02 import judge_events

SEMIRINGS = ["addmul", "logaddexp", "maxadd", "minadd", "maxmul", "minmul", "orand"]
LIMIT = {"quick": 2500, "thorough": 40000}


def run(tier):
    out = check.Outcome("C08", tier)
    rp = replay.Replay("harness.modes:c08")
    for s in SEMIRINGS:
        rp.run_lens("semiring_" + s, cfg="semiring_" + s if tier == "quick" else "semiring_%s_deep" % s, limit=LIMIT[tier])
    rp.run_lens("mixed_contraction")
    out.add_replay(rp, "termmachine")
    events = rp.events
    jr, n_ok, n_bad, n_undef = judge_events(
        out, events, "C08", lambda e: "%s|%s" % (e["what"], replay.term_sig(e["lhs"], 2)))
    cov = check.replay_coverage(
        rp, "every sum-product expression of the semiring lenses (all subsets of reduced variables, operands with and "
            "without each variable): normalize / unfold / optimize results as terms judged by TLC against the naive "
            "denotation, their eager values and einsum() compared with the table TLC emitted; normalize idempotent")
    cov["states"] += jr.states
    cov["transitions"] += jr.transitions
    cov["terms_judged_by_tlc"] = len(events)
    cov["terms_ok"] = n_ok
    cov["terms_bad"] = n_bad
    cov["exhaustive"] = False
    out.coverage = cov
    return out.finish()


def replay_file(path):
    from harness import replayfile
    return replayfile.replay_term(path, "harness.modes:c08", "C08")
