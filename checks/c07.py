"""C07 - hash-consing: structural equality is object identity, held weakly.

Engine: spec/ConsCache.tla (heap, handles, per-class weak tables keyed with array
ADDRESSES, address reuse, alpha-mangling, pickling, reinterpretation under reflect;
interned domains / parametrised ops / parametrised term types as a second lens; lazy terms
built through parametrised ops over fresh array domains - x[:, j], x.sum(1, True),
x.reshape(..) - with the op instance, domain and parametrised-type caches observed as a
third lens: anything that keeps such an op or domain alive after the term is gone shows up
as table growth / a live weakref after Drop + Collect).

  M    TLC checks Unique / WeakLive / WeakEmpty / NoStale / NoDangling / AddrInjective on
       every reachable state up to the depth bound (one representative per class of
       histories that differ by the order of adjacent constructions).  In `thorough`
       the variant without the edge "a term keeps its arrays alive" must produce a
       NoStale counterexample (vacuity guard).
  S->C every history TLC prints (exhaustive to the emit depth, random beyond) is executed
       in CPython by harness/consdriver.py; after EVERY action the `is`-matrix over the
       handles, weakref liveness of what was dropped, and the growth of the intern
       tables are compared with TLC's expectation; at the end everything is dropped and
       the tables must be back at their baseline.
  C->S the same runs, and random runs with real deletion (CPython decides what has been
       reclaimed, TLC infers it), are logged as ndjson and validated by
       spec/Trace_ConsCache.tla.
"""
import json
import multiprocessing as mp
import os
import tempfile
import threading
import time
from collections import Counter
from concurrent.futures import ThreadPoolExecutor

from harness import check, consdriver, tlc

RECYCLE_KINDS = ("Construct", "Drop", "Collect", "Free", "Alloc")

TIERS = {
    # sim = (depth, traces per TLC worker): TLC prints every successor of the last state of a random
    # trace, about 70 histories per trace
    "quick": dict(deep=5, emit=4, emit_all=2, intern=3, opterm=4, sim=(12, 20), sim_intern=(8, 10),
                  sim_opterm=(8, 10), native_opterm=(80, 10),
                  native=(240, 12), native_intern=(80, 10), limbo_log=300, vacuity=False, timeout=900,
                  focus=[(("TA",), 9, RECYCLE_KINDS, 2)]),
    "thorough": dict(deep=6, emit=5, emit_all=3, intern=4, opterm=5, sim=(20, 150), sim_intern=(12, 40),
                     sim_opterm=(12, 40), native_opterm=(800, 14),
                     native=(3000, 16), native_intern=(800, 14), limbo_log=3000, vacuity=True, timeout=5400,
                     focus=[(("TA", "RED"), 6, (), 1), (("TA", "RED"), 7, RECYCLE_KINDS, 2),
                            (("TA",), 10, RECYCLE_KINDS, 2)]),
}

INVS = ["Unique", "WeakLive", "NoDangling", "WeakEmpty", "NoStale", "AddrInjective"]


def make_cfg(spec="Spec", lens="terms", keepalive=True, depth=4, emit=0, maxalloc=1, collect_always=False,
             interp="cycle", with_eval=False, naddrs=3, canon=False, invariants=INVS, view=None, focus=(), kinds=()):
    b = lambda x: "TRUE" if x else "FALSE"
    lines = ["SPECIFICATION %s" % spec, "CONSTANTS",
             '  LensName = "%s"' % lens, "  KeepAlive = %s" % b(keepalive), "  MaxDepth = %d" % depth,
             "  EmitDepth = %d" % emit, "  MaxAlloc = %d" % maxalloc, "  CollectAlways = %s" % b(collect_always),
             '  InterpMode = "%s"' % interp, "  Focus = {%s}" % ", ".join('"%s"' % f for f in focus),
             "  Kinds = {%s}" % ", ".join('"%s"' % f for f in kinds),
             "  WithEval = %s" % b(with_eval), "  NAddrs = %d" % naddrs,
             "  Canon = %s" % b(canon)]
    lines += ["INVARIANT %s" % i for i in invariants]
    if emit:
        lines.append("INVARIANT Emit")
    if view:
        lines.append("VIEW %s" % view)
    lines.append("CHECK_DEADLOCK FALSE")
    return "\n".join(lines) + "\n"


class Ctx:
    def __init__(self, out, tier):
        self.out = out
        self.tier = tier
        self.lock = threading.Lock()
        self.tlc_runs = []
        self.viol = []
        self.counts = Counter()
        self.skips = Counter()
        self.samples = []
        self.logs = {"terms": [], "interned": [], "opterms": []}
        self.funsor = set()

    def tlc_done(self, name, run, **extra):
        with self.lock:
            d = {"name": name, "ok": run.ok, "distinct": run.distinct, "generated": run.generated,
                 "wall_s": round(run.wall, 1)}
            d.update(extra)
            self.tlc_runs.append(d)

    def machinery(self, clause, detail):
        with self.lock:
            self.out.machinery.append({"clause": clause, "detail": detail})


def work_replay_raw(job):
    lens, lines, want_log = job
    recs = []
    broken = 0
    for x in lines:
        try:
            r = tlc.parse_line(x)
        except ValueError:
            broken += 1        # a line cut short because TLC was stopped at its timeout
            continue
        if r is not None and "acts" in r:
            recs.append(r)
    res = consdriver.work_replay((lens, recs, want_log))
    res["broken_lines"] = broken
    return res


def model_run(ctx, name, cfgtext, workers, timeout, expect_violation=None):
    """a TLC run that prints nothing: invariants only"""
    cfg = "ConsCache_gen_" + name
    run = tlc.TLCRun("ConsCache", cfg=cfg, workers=workers, timeout=timeout, extra_files={cfg + ".cfg": cfgtext})
    for _ in run:
        pass
    text = "\n".join(run.output_tail)
    if expect_violation:
        found = ("Invariant %s is violated" % expect_violation) in text
        ctx.tlc_done(name, run, counterexample_found=found)
        if not found:
            ctx.machinery("vacuity", "the model without the keep-alive edge produced no %s counterexample: %s"
                          % (expect_violation, run.error or text[-400:]))
        return
    ctx.tlc_done(name, run)
    if not run.ok:
        bad = [i for i in INVS if ("Invariant %s is violated" % i) in text]
        ctx.machinery("tlc:" + name, "model invariant violated: %s" % bad if bad else (run.error or text[-800:]))


def replay_run(ctx, name, lens, cfgtext, pool, workers, timeout, simulate=None, args=(), log_quota=0):
    """stream the histories TLC prints into the worker pool"""
    cfg = "ConsCache_gen_" + name
    run = tlc.TLCRun("ConsCache", cfg=cfg, workers=workers, timeout=timeout, simulate=simulate, args=list(args),
                     extra_files={cfg + ".cfg": cfgtext})
    pending = []
    batch = []
    logged = [0]
    seen = set()

    def submit():
        want = logged[0] < log_quota
        if want:
            logged[0] += len(batch)
        pending.append(pool.apply_async(work_replay_raw, ((lens, list(batch), want),)))
        del batch[:]

    def drain(limit):
        while len(pending) > limit:
            res = pending.pop(0).get()
            with ctx.lock:
                if res.get("error"):
                    ctx.out.machinery.append({"clause": "worker:" + name, "detail": res["error"]})
                ctx.counts["records"] += res["records"]
                ctx.counts["records:" + name] += res["records"]
                ctx.counts["steps"] += res["steps"]
                ctx.counts["nontrivial"] += res.get("nontrivial", 0)
                ctx.counts["violating_records"] += res.get("nviol", 0)
                for k, v in res["skips"].items():
                    ctx.skips[k] += v
                ctx.counts["addresses_recycled"] += res.get("recycled", 0)
                ctx.counts["broken_lines"] += res.get("broken_lines", 0)
                for v in res["violations"]:
                    v["engine"] = "replay:" + name
                    ctx.viol.append(v)
                ctx.logs[lens].extend(res["log"])
                if res.get("funsor"):
                    ctx.funsor.add(res["funsor"])
                if len(ctx.samples) < 6:
                    ctx.samples.extend(res["samples"][:1])

    for line in run.raw_lines():
        if simulate:
            if line in seen:
                continue
            seen.add(line)
        batch.append(line)
        if len(batch) >= 250:
            submit()
            drain(64)
    if batch:
        submit()
    drain(0)
    ctx.tlc_done(name, run, simulate=bool(simulate), histories=ctx.counts["records:" + name])
    if not run.ok:
        ctx.machinery("tlc:" + name, run.error or "\n".join(run.output_tail[-20:]))


def native_logs(ctx, lens, pool, runs, length, procs):
    per = max(1, runs // procs)
    jobs = [(lens, check.seed() * 1000 + k, per, length) for k in range(procs)]
    for res in pool.map(consdriver.work_native, jobs):
        if res.get("error"):
            ctx.machinery("worker:native", res["error"])
        with ctx.lock:
            ctx.logs[lens].extend(res["log"])
            ctx.counts["native_runs"] += res["runs"]


def behaviours(events):
    cur = []
    for e in events:
        if e["a"] == "Reset" and cur:
            yield cur
            cur = []
        cur.append(e)
    if cur:
        yield cur


def judge_chunk(lens, events, timeout):
    """one TLC run of Trace_ConsCache over a list of events; returns (run, ok ids, first fail record per id)"""
    for k, e in enumerate(events):
        e["id"] = k + 1
    os.makedirs(tlc.BUILD, exist_ok=True)
    fd, path = tempfile.mkstemp(prefix="c07trace-", suffix=".ndjson", dir=tlc.BUILD)
    try:
        with os.fdopen(fd, "w") as f:
            for e in events:
                f.write(json.dumps(e) + "\n")
        cfg = "Trace_ConsCache" if lens == "terms" else "Trace_ConsCache_" + lens
        run = tlc.TLCRun("Trace_ConsCache", cfg=cfg, workers=1, env={"TRACE_FILE": path}, timeout=timeout)
        ok, bad = set(), {}
        for rec in run:
            if rec is None or "id" not in rec:
                continue
            if rec.get("ok"):
                ok.add(rec["id"])
            else:
                bad.setdefault(rec["id"], rec)
        return run, ok, bad
    finally:
        os.unlink(path)


def rejected(events, ok, bad):
    """first line of each behaviour that no candidate state of the spec explains"""
    res = []
    n_beh = n_lines = 0
    for beh in behaviours(events):
        n_beh += 1
        for k, e in enumerate(beh):
            if e["id"] not in ok:
                res.append((beh[:k + 1], bad.get(e["id"])))
                break
            n_lines += 1
    return res, n_beh, n_lines


def trace_validation(ctx, lens, events, procs, timeout):
    behs = list(behaviours(events))
    if not behs:
        return
    per = max(1, len(behs) // procs + 1)
    chunks = [sum(behs[i:i + per], []) for i in range(0, len(behs), per)]

    def one(evs):
        return evs, judge_chunk(lens, evs, timeout)

    with ThreadPoolExecutor(procs) as ex:
        for evs, (run, ok, bad) in ex.map(one, chunks):
            ctx.tlc_done("trace:" + lens, run, lines=len(evs))
            if not run.ok:
                ctx.machinery("tlc:trace", run.error or "\n".join(run.output_tail[-20:]))
                continue
            rej, n_beh, n_lines = rejected(evs, ok, bad)
            with ctx.lock:
                ctx.counts["trace_behaviours"] += n_beh
                ctx.counts["trace_lines_accepted"] += n_lines
                for beh in behaviours(evs):
                    ctx.counts["trace_behaviours:" + beh[0]["mode"]] += 1
                for prefix, rec in rej:
                    e = prefix[-1]
                    acts = prefix[1:]
                    ctx.viol.append({
                        "clause": (rec or {}).get("clause", "rejected"), "action": consdriver.act_str(e),
                        "on": e.get("on", ""), "history": consdriver.hist_str(acts), "lens": lens,
                        "step": len(acts), "engine": "trace:" + prefix[0]["mode"],
                        "acts": [{k: x[k] for k in ("a", "r", "i", "h", "s", "ad")} for x in acts],
                        "detail": {"want": (rec or {}).get("want"),
                                   "got": {k: e.get(k) for k in ("ident", "held", "alive", "arrs", "sizes")}}})


def self_test(ctx, lens, events):
    """a corrupted event must be rejected, the untouched behaviour accepted"""
    good = None
    for beh in behaviours(events):
        if beh[0]["mode"] == "limbo" and len(beh) >= 4 and len(beh[-2]["alive"]) >= 1:
            good = [dict(e) for e in beh]
            break
    if good is None:
        ctx.machinery("selftest", "no recorded behaviour to corrupt")
        return
    c1 = [dict(e) for e in good]
    c1[-1]["sizes"] = list(c1[-1]["sizes"])
    c1[-1]["sizes"][0] += 1
    c2 = [dict(e) for e in good]
    c2[-2]["alive"] = list(c2[-2]["alive"])
    c2[-2]["alive"][0] = 1 - c2[-2]["alive"][0]
    evs = good + c1 + c2
    run, ok, bad = judge_chunk(lens, evs, 300)
    ctx.tlc_done("trace:selftest", run, lines=len(evs))
    if not run.ok:
        ctx.machinery("selftest", run.error or "\n".join(run.output_tail[-20:]))
        return
    rej, n_beh, _ = rejected(evs, ok, bad)
    n = len(good)
    if any(prefix[-1]["id"] <= n for prefix, _ in rej):
        # the untouched behaviour is itself rejected: the implementation violates the property and is
        # reported by the main validation; nothing to learn about the judge from this behaviour
        ctx.counts["selftest_base_rejected"] += 1
        return
    want = {2 * n: "table_size", 3 * n - 1: "alive"}
    got = {prefix[-1]["id"]: (rec or {}).get("clause") for prefix, rec in rej}
    ctx.counts["selftest_corrupted_events_rejected"] += sum(1 for k in want if got.get(k) == want[k])
    if got != want:
        ctx.machinery("selftest", "corrupted events: expected rejections %s, got %s" % (want, got))


def reduce_violations(viol):
    """one violation per (clause, kind of action, object kind): the shortest history stands for it"""
    groups = {}
    for v in viol:
        a = v.get("action", "")
        kind = a.split("(")[0]
        if kind == "Construct":
            kind = a
        k = (v["clause"], kind, v.get("on", ""), v.get("lens"), v["engine"].split(":")[0])
        g = groups.setdefault(k, {"best": v, "n": 0})
        g["n"] += 1
        if (len(v["history"]), v["history"]) < (len(g["best"]["history"]), g["best"]["history"]):
            g["best"] = v
    out = []
    for k, g in sorted(groups.items(), key=lambda kv: (kv[0][0] != "weak_final", len(kv[1]["best"]["history"]), str(kv[0]))):
        v = dict(g["best"])
        v["sig"] = "%s|%s%s" % (v.get("on", ""), v["history"], " [trace]" if v["engine"].startswith("trace") else "")
        v["detail"] = dict(v.get("detail") or {}, instances=g["n"], history=v["history"])
        out.append(v)
    return out


def run(tier):
    out = check.Outcome("C07", tier)
    P = TIERS[tier]
    ctx = Ctx(out, tier)
    T = P["timeout"]
    ncpu = os.cpu_count() or 4
    pool_t = mp.Pool(max(4, ncpu - 4))
    pool_i = mp.Pool(max(2, ncpu // 4 - 1))
    pool_o = mp.Pool(max(2, ncpu // 4 - 1))
    seed = check.seed()
    try:
        jobs = []
        with ThreadPoolExecutor(8) as ex:
            # M: the model's invariants on every reachable state up to the bound
            jobs.append(ex.submit(model_run, ctx, "deep", make_cfg(depth=P["deep"], canon=True, view="ViewNoHist"),
                                  8, T))
            jobs.append(ex.submit(model_run, ctx, "deep_interned",
                                  make_cfg(lens="interned", depth=P["intern"] + 1, canon=True, view="ViewNoHist",
                                           maxalloc=0, interp="all"), 4, T))
            jobs.append(ex.submit(model_run, ctx, "deep_opterms",
                                  make_cfg(lens="opterms", depth=P["opterm"] + 1, canon=True, view="ViewNoHist",
                                           maxalloc=0), 4, T))
            if P["vacuity"]:
                jobs.append(ex.submit(model_run, ctx, "nokeepalive",
                                      make_cfg(keepalive=False, depth=5, canon=True, view="ViewNoHist",
                                               invariants=["NoStale"]), 4, T, "NoStale"))
            # S->C exhaustive
            jobs.append(ex.submit(replay_run, ctx, "terms", "terms", make_cfg(depth=P["emit"], emit=P["emit"]),
                                  pool_t, 6 if tier == "quick" else 10, T, None, (), P["limbo_log"]))
            jobs.append(ex.submit(replay_run, ctx, "terms_all_interps", "terms",
                                  make_cfg(depth=P["emit_all"], emit=P["emit_all"], interp="all"), pool_t, 4, T))
            jobs.append(ex.submit(replay_run, ctx, "interned", "interned",
                                  make_cfg(lens="interned", depth=P["intern"], emit=P["intern"], maxalloc=0,
                                           interp="all"), pool_i, 4, T, None, (), P["limbo_log"] // 4))
            # terms built through parametrised ops over fresh domains: op / domain / type caches observed
            jobs.append(ex.submit(replay_run, ctx, "opterms", "opterms",
                                  make_cfg(lens="opterms", depth=P["opterm"], emit=P["opterm"], maxalloc=0),
                                  pool_o, 4, T, None, (), P["limbo_log"] // 4))
            d, n = P["sim_opterm"]
            jobs.append(ex.submit(replay_run, ctx, "opterms_sim", "opterms",
                                  make_cfg(lens="opterms", depth=d, emit=d, interp="all", collect_always=True,
                                           maxalloc=0), pool_o, 2, T, "num=%d" % n,
                                  ("-depth", str(d + 1), "-seed", str(seed + 3))))
            jobs.append(ex.submit(native_logs, ctx, "opterms", pool_o, P["native_opterm"][0], P["native_opterm"][1], 2))
            # S->C exhaustive and deeper over few recipes: reaches "build, drop, free the array, collect,
            # re-allocate on the recycled address, build again"
            for names, d, kinds, nalloc in P["focus"]:
                jobs.append(ex.submit(replay_run, ctx,
                                      "terms_%s_%s_%d" % ("recycle" if kinds else "focus", "_".join(names), d), "terms",
                                      make_cfg(depth=d, emit=d, focus=names, kinds=kinds, maxalloc=nalloc),
                                      pool_t, 4, T))
            # S->C random, deeper
            d, n = P["sim"]
            jobs.append(ex.submit(replay_run, ctx, "terms_sim", "terms",
                                  make_cfg(depth=d, emit=d, interp="all", collect_always=True, maxalloc=3, naddrs=4,
                                           invariants=INVS), pool_t, 4, T, "num=%d" % n,
                                  ("-depth", str(d + 1), "-seed", str(seed + 1))))
            d, n = P["sim_intern"]
            jobs.append(ex.submit(replay_run, ctx, "interned_sim", "interned",
                                  make_cfg(lens="interned", depth=d, emit=d, interp="all", collect_always=True,
                                           maxalloc=0), pool_i, 2, T, "num=%d" % n,
                                  ("-depth", str(d + 1), "-seed", str(seed + 2))))
            # recordings with real deletion for C->S
            jobs.append(ex.submit(native_logs, ctx, "terms", pool_t, P["native"][0], P["native"][1], 8))
            jobs.append(ex.submit(native_logs, ctx, "interned", pool_i, P["native_intern"][0], P["native_intern"][1], 2))
            for j in jobs:
                try:
                    j.result()
                except Exception as e:
                    ctx.machinery("job", "%r" % (e,))
        # C->S
        with ThreadPoolExecutor(4) as ex:
            jobs = [ex.submit(trace_validation, ctx, "terms", ctx.logs["terms"], 9, T),
                    ex.submit(trace_validation, ctx, "interned", ctx.logs["interned"], 3, T),
                    ex.submit(trace_validation, ctx, "opterms", ctx.logs["opterms"], 3, T),
                    ex.submit(self_test, ctx, "terms", ctx.logs["terms"])]
            for j in jobs:
                try:
                    j.result()
                except Exception as e:
                    ctx.machinery("job", "%r" % (e,))
    finally:
        pool_t.terminate()
        pool_i.terminate()
        pool_o.terminate()

    if len(ctx.funsor) != 1:
        out.machinery.append({"clause": "import", "detail": "workers imported funsor from %s" % sorted(ctx.funsor)})
    out.violations.extend(reduce_violations(ctx.viol))
    # WeakFinal (a theorem of ConsCache.tla for every behaviour) observed at the END of more public
    # constructor paths than the recipes of the lenses: harness/consweep.py, in a fresh process
    sweep = {}
    try:
        import json as _json
        import subprocess
        import sys as _sys
        pr = subprocess.run([_sys.executable, "-m", "harness.consweep"], capture_output=True, text=True, timeout=300)
        sweep = _json.loads(pr.stdout) if pr.returncode == 0 and pr.stdout.strip() else {}
        if not sweep:
            out.machinery.append({"clause": "consweep", "detail": (pr.stderr or "no output")[-300:]})
        for v in sweep.get("violations", []):
            v = dict(v)
            v["engine"] = "ConsCache/WeakFinal-sweep"
            out.violations.append(v)
    except Exception as e:  # noqa
        out.machinery.append({"clause": "consweep", "detail": repr(e)[:200]})
    exhaustive_runs = [r for r in ctx.tlc_runs if not r.get("simulate") and not r["name"].startswith("trace")]
    out.coverage = {
        "states": sum(r["distinct"] for r in ctx.tlc_runs),
        "transitions": sum(r["generated"] for r in ctx.tlc_runs),
        "traces_validated_against_impl": ctx.counts["records"] + ctx.counts["trace_behaviours"],
        "evaluations": ctx.counts["steps"] + ctx.counts["trace_lines_accepted"],
        "distinct_nontrivial": ctx.counts["nontrivial"],
        "rule": "a replayed history is non-trivial if TLC expects two handles to be the same object, or an "
                "object to have been reclaimed, or it contains a Pickle / Reflect / Alloc",
        "samples": ctx.samples[:5],
        "histories_replayed": {k.split(":", 1)[1]: v for k, v in ctx.counts.items() if k.startswith("records:")},
        "steps_compared": ctx.counts["steps"],
        "histories_with_mismatch": ctx.counts["violating_records"],
        "skipped": dict(ctx.skips),
        "allocations_on_a_recycled_address": ctx.counts["addresses_recycled"],
        "trace_behaviours": {k.split(":", 1)[1]: v for k, v in ctx.counts.items() if k.startswith("trace_behaviours:")},
        "trace_lines_accepted": ctx.counts["trace_lines_accepted"],
        "selftest_corrupted_events_rejected": ctx.counts["selftest_corrupted_events_rejected"],
        "model_depth": P["deep"], "replay_depth": P["emit"], "random_depth": P["sim"][0],
        "funsor": sorted(ctx.funsor),
        "weak_final_api_paths": {k: ("declined" if "declined" in v else "no growth" if not any(v["growth_per_round"][1:]) else "growth")
                                 for k, v in sweep.get("paths", {}).items()},
        "tlc_runs": sorted(ctx.tlc_runs, key=lambda r: r["name"])[:40],
        "exhaustive": all(r["ok"] or r.get("counterexample_found") for r in exhaustive_runs),
    }
    out.assumptions = [
        "CPython reference counting and gc; numpy backend; torch tensors not covered",
        "S->C drops references into a hidden list until the next Collect (deferred collection); real deletion is "
        "covered by the C->S runs where TLC infers what CPython reclaimed",
        "eager evaluation of ground terms (fresh result arrays) is covered by C->S only",
    ]
    return out.finish()


def replay(path):
    """re-execute the history of a VIOLATION file and compare with TLC's expectation again"""
    with open(path) as f:
        v = json.load(f)
    print("history:", v.get("history"))
    if not v.get("acts"):
        print("clause:", v.get("clause"), "detail:", json.dumps(v.get("detail"))[:600])
        return 1
    if str(v.get("engine", "")).startswith("trace"):
        log = []
        consdriver.native_replay(v["lens"], v["acts"], log)
        run, ok, bad = judge_chunk(v["lens"], log, 300)
        rej, _, _ = rejected(log, ok, bad)
        if not run.ok:
            print("MACHINERY-ERROR tlc: %s" % (run.error,))
            return 2
        if rej:
            prefix, rec = rej[0]
            print("VIOLATION property=C07 replay=%s" % path)
            print("  clause=%s step=%d want=%s" % ((rec or {}).get("clause"), len(prefix) - 1,
                                                 json.dumps((rec or {}).get("want"))[:400]))
            return 1
        print("C07 replay: recorded run accepted by Trace_ConsCache")
        return 0
    status, viol, steps = consdriver.replay_record(v["lens"], {"acts": v["acts"], "obs": v["exps"]})
    if viol:
        print("VIOLATION property=C07 replay=%s" % path)
        print("  clause=%s step=%s detail=%s" % (viol["clause"], viol["step"], json.dumps(viol["detail"])[:400]))
        return 1
    print("C07 replay: history conforms (%s)" % status)
    return 0
