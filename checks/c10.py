"""C10 - Markov products equal the explicit left fold over time."""
from harness import check, replay
from checks.c02 import judge_events

CFGS = {
    "quick": ["Markov_addmul_q", "Markov_logaddexp_q", "Markov_maxadd_q"],
    "thorough": ["Markov_addmul", "Markov_logaddexp", "Markov_maxadd", "Markov_minadd", "Markov_maxmul"],
}
LAGS = {"quick": ["MarkovLag_quick"], "thorough": ["MarkovLag_addmul", "MarkovLag_logaddexp"]}


def run(tier):
    out = check.Outcome("C10", tier)
    rp = replay.Replay("harness.modes:c10")
    for cfg in CFGS[tier]:
        rp.run_lens("Markov", cfg=cfg)
    out.add_replay(rp, "markov")
    rl = replay.Replay("harness.modes:c10lag")
    for cfg in LAGS[tier]:
        rl.run_lens("MarkovLag", cfg=cfg)
    out.add_replay(rl, "markovlag")
    rw = replay.Replay("harness.modes:c10words", procs=4, chunk=4)
    rw.run_lens("ScanWords", workers=4)
    out.add_replay(rw, "scanwords")
    events = rp.events + rl.events
    jr, n_ok, n_bad, n_undef = judge_events(out, events, "C10", lambda e: "%s|%s" % (e["what"], e["sig"]), timeout=300 if tier == "quick" else 2400)
    cov = check.replay_coverage(
        rp, "every problem of the cfgs (durations 1..12, 1-2 state pairs, sizes 2-3, batch / time dependence) x "
            "{sequential, naive, mixed with every num_segments, MarkovProduct eager and lazy} against the left fold; "
            "lazily emitted scan terms judged by TLC; lag problems (lag sets over {1,2,3}, durations, periods): "
            "sarkka_bilmes_product vs the TLC evaluation of the naive algorithm's term")
    cov["states"] += rl.states + jr.states
    cov["transitions"] += rl.transitions + jr.transitions
    cov["traces_validated_against_impl"] += rl.records
    cov["states"] += rw.states
    cov["transitions"] += rw.transitions
    cov["scan_word_model"] = {"states": rw.states, "schedules_compared": rw.records, "verdicts": dict(rw.counts)}
    cov["lag_problems"] = rl.records
    cov["lag_verdicts"] = dict(rl.counts)
    cov["terms_judged_by_tlc"] = len(events)
    cov["terms_ok"] = n_ok
    cov["terms_bad"] = n_bad
    cov["terms_with_undefined_points"] = n_undef
    out.coverage = cov
    return out.finish()
