"""C14 - point masses and samples: Delta semantics and mass-preserving sampling."""
from harness import check, replay
from checks.c02 import judge_events


def run(tier):
    out = check.Outcome("C14", tier)
    rp = replay.Replay("harness.modes:c14")
    rp.run_lens("SampleGen")
    out.add_replay(rp, "samplegen")
    rd = replay.Replay("harness.modes:c14delta")
    rd.run_lens("delta_ops")
    rd.run_lens("delta_indep")
    rd.run_lens("delta_multi")
    out.add_replay(rd, "termmachine")
    ri = replay.Replay("harness.modes:c14integ")
    ri.run_lens("delta_integ")
    out.add_replay(ri, "termmachine")
    rg = replay.Replay("harness.modes:c14gauss", procs=8, chunk=2)
    rg.run_lens("GaussCat")
    out.add_replay(rg, "gaussops")
    events = rp.events
    jr, n_ok, n_bad, n_undef = judge_events(out, events, "C14", lambda e: "%s|%s" % (e["what"], e["sig"]), timeout=300 if tier == "quick" else 2400)
    cov = check.replay_coverage(
        rp, "every log-density tensor of the generator (1-3 inputs, minus-infinity patterns) x every non-empty subset "
            "of sampled variables x 0-2 sample inputs x 3 seeds, each drawn twice; the returned term is validated by "
            "TLC against the relational sampling specification (inputs, output, support, mass per batch element and particle)")
    cov["states"] += jr.states
    cov["transitions"] += jr.transitions
    cov["samples_judged_by_tlc"] = len(events)
    cov["samples_ok"] = n_ok
    cov["samples_bad"] = n_bad
    cov["states"] += rd.states
    cov["transitions"] += rd.transitions
    cov["traces_validated_against_impl"] += rd.records
    cov["delta_programs"] = rd.records
    cov["delta_verdicts"] = dict(rd.counts)
    cov["states"] += rg.states
    cov["transitions"] += rg.transitions
    cov["traces_validated_against_impl"] += rg.records
    cov["gaussian_sampling_problems"] = rg.records
    cov["gaussian_sampling_verdicts"] = dict(rg.counts)
    cov["states"] += ri.states
    cov["transitions"] += ri.transitions
    cov["traces_validated_against_impl"] += sum(ri.counts.values())
    cov["integrate_against_delta_verdicts"] = dict(ri.counts)
    cov["delta_declines"] = {"%s/%s" % k: n for k, n in rd.sigs.most_common(8)}
    out.coverage = cov
    return out.finish()


def replay_file(path):
    from harness import replayfile
    return replayfile.replay_term(path, "harness.modes:c14delta", "C14")
