"""C03 - exact interpretations are interchangeable: deferred equals immediate.

Every lens program is built under lazy / reflect / normalize and reinterpreted eagerly,
evaluated under sequential / moment_matching, and built twice under memoize; each result
is compared with the denotation TLC computed.  The whole replay is repeated in the four
configurations FUNSOR_USE_TCO x FUNSOR_TYPECHECK (recursive vs stack-free reinterpreter)."""
import os
import shutil
import tempfile

from harness import check, replay, tlc

LENSES = {
    "quick": [("core_reduce", 5000), ("core_index", None), ("core_stackcat", 4000), ("binder_names", 5000),
              ("subs_tensor", 2500), ("subs_chain", None), ("binder_indep", None)],
    "thorough": [("core_pointwise", 30000), ("core_reduce", None), ("core_index", None), ("core_stackcat", None),
                 ("binder_names", 40000), ("subs_tensor", None), ("subs_chain", None), ("binder_indep", None)],
}
CONFIGS = [{"FUNSOR_USE_TCO": "0", "FUNSOR_TYPECHECK": "0"},
           {"FUNSOR_USE_TCO": "1", "FUNSOR_TYPECHECK": "0"},
           {"FUNSOR_USE_TCO": "0", "FUNSOR_TYPECHECK": "1"},
           {"FUNSOR_USE_TCO": "1", "FUNSOR_TYPECHECK": "1"}]


def run(tier):
    out = check.Outcome("C03", tier)
    os.makedirs(tlc.BUILD, exist_ok=True)
    cache_dir = tempfile.mkdtemp(prefix="c03-", dir=tlc.BUILD)
    cov = None
    try:
        per_cfg = {}
        for cfg in CONFIGS:
            rp = replay.Replay("harness.modes:c03", env=cfg)
            for lens, limit in LENSES[tier]:
                rp.run_lens(lens, limit=limit, cache=os.path.join(cache_dir, lens + ".lines"))
            for m in rp.minimal_mismatches():
                v = dict(m)
                v["engine"] = "termmachine"
                v["clause"] = "%s[TCO=%s,TYPECHECK=%s]" % (m["clause"], cfg["FUNSOR_USE_TCO"], cfg["FUNSOR_TYPECHECK"])
                v["clause_base"] = m["clause"]
                out.violations.append(v)
            out.machinery.extend(rp.machinery)
            c = check.replay_coverage(rp, "")
            per_cfg["TCO=%s,TYPECHECK=%s" % (cfg["FUNSOR_USE_TCO"], cfg["FUNSOR_TYPECHECK"])] = c["verdicts"]
            if cov is None:
                cov = c
            else:
                for k in ("traces_validated_against_impl", "evaluations"):
                    cov[k] += c[k]
        cov["rule"] = ("every program of the lenses (first N emitted where limited) x {lazy, reflect, normalize then "
                       "reinterpret; sequential; moment_matching; memoize twice} x 4 environment configurations")
        cov["verdicts_by_config"] = per_cfg
        cov["exhaustive"] = False
        out.coverage = cov
    finally:
        shutil.rmtree(cache_dir, ignore_errors=True)
    return out.finish()


def replay_file(path):
    from harness import replayfile
    return replayfile.replay_term(path, "harness.modes:c03", "C03")
