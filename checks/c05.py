"""C05 - bound variables are invisible: no capture, no leakage, renaming-invariant."""
from harness import check, replay

LENSES = {
    "quick": ["binder_names", "binder_integ", "binder_indep", "delta_indep"],
    "thorough": ["binder_names", "binder_integ", "binder_indep", "delta_indep"],
}


def run(tier):
    out = check.Outcome("C05", tier)
    rp = replay.Replay("harness.modes:c05")
    for lens in LENSES[tier]:
        rp.run_lens(lens, limit=15000 if (tier == "quick" and lens == "binder_integ") else None)
    out.add_replay(rp, "termmachine")
    # the MarkovProduct binder (time and step variables): capture probes on the problems of Markov.tla
    rm = replay.Replay("harness.modes:c05markov")
    rm.run_lens("Markov", cfg="Markov_addmul_q")
    out.add_replay(rm, "markov")
    out.coverage = check.replay_coverage(
        rp, "every nesting of binder constructors of the lens with all name coincidences over {a,b,c}, "
            "built under reflect/lazy/normalize/eager and reinterpreted: no bound name among inputs, values equal Den")
    return out.finish()


def replay_file(path):
    from harness import replayfile
    return replayfile.replay_term(path, "harness.modes:c05", "C05")
