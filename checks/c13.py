"""C13 - Gaussian marginals, normalisers and integrals are exact."""
from harness import check, replay


def run(tier):
    out = check.Outcome("C13", tier)
    rp = replay.Replay("harness.modes:c13", procs=8, chunk=2)
    rp.run_lens("GaussCat")
    out.add_replay(rp, "gaussops")
    out.coverage = check.replay_coverage(
        rp, "every (Gaussian leaf of the catalogue, non-empty subset of its real inputs with block dimension <= 3): "
            "g.reduce(logaddexp, subset) in one and two stages at every sample point / batch index, log_normalizer, "
            "Integrate against a variable and against a Gaussian, vs the closed forms of spec/GaussOps.tla; singular "
            "blocks must raise or be non-finite")
    return out.finish()
