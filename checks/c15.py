"""C15 - op tables are truthful; ops agree across scalar / 0-d / array operands; exact
limits at -inf; safe ops never NaN.

Three TLC runs per tier, all on explicit TLA+ modules:
  OpsAlgebra   M     the tables recorded from the imported funsor are decided entry by
                     entry by TLC on the carrier grid (a false entry is a VIOLATION
                     "table_law" with sig TABLE[op])
  OpsGrid      S->C  TLC enumerates operand arrays over the grid with exact expectations;
                     harness/opsdriver.py replays them on Python scalars, 0-d arrays,
                     numpy scalars and arrays (plus the hand-stated float-range limits)
  OpsEinsum    S->C  exact log-semiring / max-plus einsum for numpy_log / numpy_map
"""
import json
import multiprocessing
import os
import shutil
import tempfile

from harness import check, opsdriver, tlc

TIERS = {
    # grid cfg, einsum cfg, stride for 2-operand equations, for 3-operand equations, letterings
    "quick": ("OpsGrid", "OpsEinsum", 1, 40, 1),
    "thorough": ("OpsGridThorough", "OpsEinsumThorough", 1, 1, 2),
}
CHUNK = 400
WORKERS = max(2, min(14, (os.cpu_count() or 4) - 2))


def _replay_chunk(arg):
    lines, letterings = arg
    rp = opsdriver.Replayer()
    rp.letterings = opsdriver.LETTERINGS[:letterings]
    for line in lines:
        rec = tlc.parse_line(line)
        if rec is not None:
            rp.run(rec)
    return rp.n, rp.by_kind, rp.viol, rp.samples, sorted(rp.ops_seen)


class Merge:
    def __init__(self):
        self.n = {}
        self.by_kind = {}
        self.viol = {}
        self.samples = []
        self.ops_seen = set()

    def add(self, res):
        n, by_kind, viol, samples, ops_seen = res
        for k, v in n.items():
            self.n[k] = self.n.get(k, 0) + v
        for k, v in by_kind.items():
            self.by_kind[k] = self.by_kind.get(k, 0) + v
        for key, v in viol.items():
            if key in self.viol:
                self.viol[key]["count"] += v["count"]
            else:
                self.viol[key] = v
        if len(self.samples) < 6:
            self.samples.extend(samples[:2])
        self.ops_seen.update(ops_seen)


def _stream(run, pool, merge, letterings):
    """Feed TLC's records to the worker pool while TLC is still running."""
    pending = []
    buf = []
    for line in run.raw_lines():
        buf.append(line)
        if len(buf) >= CHUNK:
            pending.append(pool.apply_async(_replay_chunk, ((buf, letterings),)))
            buf = []
    if buf:
        pending.append(pool.apply_async(_replay_chunk, ((buf, letterings),)))
    for p in pending:
        merge.add(p.get(timeout=3600))


def check_tables(out, work, cov):
    path = os.path.join(work, "tables.json")
    entries = opsdriver.write_tables(path)
    run = tlc.TLCRun("OpsAlgebra", env={"OPS_TABLES": path}, timeout=900)
    recs = [r for r in run if r is not None]
    summaries = {r["k"]: r for r in recs if r.get("kind") == "entry"}
    witnesses = {}
    for r in recs:
        if r.get("kind") == "witness":
            w = witnesses.setdefault(r["k"], r)
            if (not r["on_core"], r["carrier"], r["n"]) < (not w["on_core"], w["carrier"], w["n"]):
                witnesses[r["k"]] = r
    cov["tlc_runs"].append({"module": "OpsAlgebra", "ok": run.ok, "states": run.distinct,
                            "generated": run.generated, "wall_s": round(run.wall, 1)})
    if not run.ok:
        out.machinery.append({"clause": "tlc", "detail": "OpsAlgebra: %s" % run.error})
        return
    instances = sum(s["instances"] for s in summaries.values())
    if len(summaries) != len(entries) or run.distinct != instances + len(entries):
        out.machinery.append({"clause": "tlc", "detail": "OpsAlgebra: %d entries recorded, %d verdicts, %d states, "
                              "%d instances" % (len(entries), len(summaries), run.distinct, instances)})
        return
    bad = []
    for k in sorted(summaries):
        s, e = summaries[k], entries[k - 1]
        if not s["ok"]:
            w = witnesses.get(k)
            detail = {"table": s["table"], "entry": e, "instances": s["instances"], "ok": s["n_ok"],
                      "bad": s["n_bad"], "skipped_undefined": s["n_skip"], "ops_known_to_spec": s["known_ops"]}
            if w:
                detail["witness"] = {f: (opsdriver.show(w[f]) if isinstance(w[f], list) else w[f])
                                     for f in ("a", "b", "c", "n", "side", "lhs", "rhs", "on_core")}
            elif s["n_ok"] == 0:
                detail["witness"] = "no instance of the law is defined (vacuous entry)"
            out.violations.append({"clause": "table_law", "sig": s["sig"], "detail": detail,
                                   "case": {"entry": e}, "engine": "opsalgebra"})
            bad.append(s["sig"])
    cov["table_entries"] = len(entries)
    cov["table_entries_by_table"] = {t: sum(1 for e in entries if e["table"] == t) for t in opsdriver.TABLES}
    cov["law_instances"] = instances
    cov["law_instances_ok"] = sum(s["n_ok"] for s in summaries.values())
    cov["law_instances_skipped_undefined"] = sum(s["n_skip"] for s in summaries.values())
    cov["table_entries_rejected"] = bad
    cov["tables_recorded"] = [{"sig": summaries[k]["sig"], "b": e["b"], "v": e["py"]}
                              for k, e in enumerate(entries, 1)]


def check_replay(out, tier, cov):
    grid_cfg, einsum_cfg, stride2, stride3, letterings = TIERS[tier]
    seed = check.seed()
    merge = Merge()
    ctx = multiprocessing.get_context("fork")
    with ctx.Pool(WORKERS) as pool:
        for module, cfg, env, extra in (
                ("OpsGrid", grid_cfg, {"C15_SEED": str(abs(seed) % 1000)}, 0),
                ("OpsEinsum", einsum_cfg, {"EINSUM_STRIDE2": str(stride2), "EINSUM_PHASE2": str(seed % stride2),
                                           "EINSUM_STRIDE3": str(stride3), "EINSUM_PHASE3": str(seed % stride3)},
                 1 + 16 * 17)):
            before = merge.n.get("records", 0)
            run = tlc.TLCRun(module, cfg=cfg, env=env, workers=max(2, 16 - WORKERS // 2), timeout=3000)
            _stream(run, pool, merge, letterings)
            got = merge.n.get("records", 0) - before
            cov["tlc_runs"].append({"module": module, "cfg": cfg, "ok": run.ok, "states": run.distinct,
                                    "generated": run.generated, "records": got, "wall_s": round(run.wall, 1)})
            if not run.ok:
                out.machinery.append({"clause": "tlc", "detail": "%s/%s: %s" % (module, cfg, run.error)})
            elif got != run.distinct - extra or got == 0:
                out.machinery.append({"clause": "tlc", "detail": "%s/%s: %d records replayed, %d states"
                                      % (module, cfg, got, run.distinct)})
    for v in merge.viol.values():
        v = dict(v)
        v["detail"] = dict(v["detail"], instances=v.pop("count"))
        out.violations.append(v)
    out.violations.sort(key=lambda v: (v["clause"] != "table_law", v["clause"], v["sig"]))
    cov.update(merge.n)
    cov["records_by_kind"] = merge.by_kind
    cov["ops_replayed"] = sorted(merge.ops_seen)
    cov["samples"] = merge.samples[:5]
    cov["einsum_sampling"] = {"stride_2_operands": stride2, "stride_3_operands": stride3, "letterings": letterings}


def run(tier):
    out = check.Outcome("C15", tier)
    os.makedirs(tlc.BUILD, exist_ok=True)
    work = tempfile.mkdtemp(prefix="c15-", dir=tlc.BUILD)
    cov = {"tlc_runs": []}
    try:
        check_tables(out, work, cov)
        check_replay(out, tier, cov)
    finally:
        shutil.rmtree(work, ignore_errors=True)
    runs = cov["tlc_runs"]
    out.coverage = dict(
        cov,
        states=sum(r["states"] for r in runs),
        transitions=sum(r["generated"] for r in runs),
        traces_validated_against_impl=cov.get("records", 0),
        distinct_nontrivial=cov.get("elements_exact", 0),
        exhaustive=all(r["ok"] for r in runs) and tier == "thorough",
        rule="M: every recorded table entry decided by TLC on the carrier grid {0,+-1,+-2,1/2,+-inf} and its "
             "log image / booleans; S->C: every (op, shape pair, offset pair) state of OpsGrid and every einsum "
             "equation of OpsEinsum (<=3 operands, <=3 symbols; 3-operand equations sampled 1/%d in quick) "
             "replayed on py / int / 0-d / numpy-scalar / array operands" % TIERS["quick"][3])
    out.assumptions = [
        "float64 numpy backend; comparison tolerance rtol 1e-6 / atol 1e-8, infinities exact",
        "float-range boundary: hand-stated limit cases only (spec/OpsGrid.tla Limits), not computed by TLC",
        "+inf is outside the carrier of logaddexp/sample/logsumexp/log-einsum; inf/inf and inf-inf are not "
        "protected singularities of the safe ops",
    ]
    return out.finish()


def replay(path):
    """Re-run one recorded violation (build/replay/C15-*.json)."""
    with open(path) as f:
        v = json.load(f)
    if v.get("clause") == "table_law":
        out = check.Outcome("C15", "replay")
        work = tempfile.mkdtemp(prefix="c15-", dir=tlc.BUILD)
        cov = {"tlc_runs": []}
        try:
            check_tables(out, work, cov)
        finally:
            shutil.rmtree(work, ignore_errors=True)
        hit = [x for x in out.violations if x["sig"] == v.get("sig")]
        print("replay %s: %s" % (v.get("sig"), "reproduced: %s" % json.dumps(hit[0]["detail"], default=str)
                                 if hit else "not reproduced"))
        return 1 if hit else (2 if out.machinery else 0)
    rp = opsdriver.Replayer()
    rp.letterings = opsdriver.LETTERINGS
    rp.run(v["case"])
    hit = [x for x in rp.violations() if x["sig"] == v.get("sig") and x["clause"] == v.get("clause")]
    for x in rp.violations():
        print("replay: %s %s %s" % (x["clause"], x["sig"], json.dumps(x["detail"], default=str)))
    print("replay %s %s: %s" % (v.get("clause"), v.get("sig"), "reproduced" if hit else "not reproduced"))
    return 1 if hit else 0
