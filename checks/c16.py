"""C16 - pattern dispatch picks a most specific rule, deterministically; the parametric
subtype relation is a consistent preorder.

spec/Dispatch.tla is the judge and the generator:
  C->S  (DispatchTrace.cfg) the type pool, the three-valued truth tables of deep_issubclass
        and of issubclass on typing_wrap'ed types, instance facts and dispatch events are
        recorded from the live code (harness/dispatchdriver.py); TLC checks reflexivity,
        transitivity, agreement of the two tables, the named structural laws against the
        model's SubT, membership against the model's InstOf, and for every dispatch event
        that the chosen signature matches and is below every other matching signature.
  S->C  (Dispatch.cfg) TLC enumerates every behaviour of the DispatchCache machine
        (dispatch / clear cache / cold restart, all first-use orders), resolving with the
        MODEL's relation; every behaviour is executed against the real dispatcher.
  registration order: fresh PartialDispatchers, seeded permutations that keep the
        relative order of the signature pairs TLC found comparable.
"""
import os
import tempfile
import threading
from collections import Counter

from harness import check, tlc


def _violations_of(rec, D, v):
    """translate one failed verdict of the judge into violation records"""
    T = rec.T
    show = T.show
    cl = v.get("clause")
    out = []
    if cl in ("refl_deep", "refl_disp"):
        for x in v["bad"]:
            out.append({"clause": cl, "sig": show(x), "detail": {"type": T.nodes[x - 1]["n"], "relation": cl[5:]}})
    elif cl in ("trans_deep", "trans_disp"):
        for a, b, c in v["bad"]:
            out.append({"clause": cl, "sig": "%s<=%s<=%s" % (show(a), show(b), show(c)),
                        "detail": {"a<=b": True, "b<=c": True, "a<=c": False, "n_bad": v["n_bad"]}})
    elif cl == "wrap_agree":
        for p in v["bad"]:
            out.append({"clause": cl, "sig": "%s<=%s|deep=%s,disp=%s" % (show(p["a"]), show(p["b"]), p["deep"], not p["deep"]),
                        "detail": {"deep_issubclass": p["deep"], "issubclass_of_typing_wrap": not p["deep"]}})
    elif cl in ("laws_deep", "laws_disp"):
        for p in v["bad"]:
            out.append({"clause": cl, "sig": "%s|%s<=%s|recorded=%s" % (p["law"], show(p["a"]), show(p["b"]), p["recorded"]),
                        "detail": {"law": p["law"], "recorded": p["recorded"], "model": not p["recorded"],
                                   "n_bad": v["n_bad"]}})
    elif cl == "member_recorded":
        for p in v["bad"]:
            out.append({"clause": cl, "sig": "deep_isinstance|%s<=%s" % (show(p["t"]), show(p["b"])), "detail": p})
        for t in v["not_own_type"]:
            out.append({"clause": cl, "sig": "not_instance_of_own_type|%s" % show(t), "detail": {}})
    elif cl == "member_model":
        for p in v["bad"]:
            out.append({"clause": cl, "sig": "%s|%s<=%s" % (p["why"], show(p["t"]), show(p["b"])),
                        "detail": {"object": rec.header["objs"][p["o"] - 1], "deep_type": show(p["t"]), "type": show(p["b"])}})
        for t in v["not_own_type"]:
            out.append({"clause": cl, "sig": "not_instance_of_own_type|%s" % show(t), "detail": {}})
    else:
        e = rec.event_by_id.get(v["id"])
        if e is None:
            out.append({"clause": cl or "judge", "sig": str(v.get("id")), "detail": v})
            return out
        ri = e["reg"]
        name = rec.regs[ri].name
        args = "(" + ", ".join(show(i) for i in e["args"]) + ")"
        det = {"registry": name, "argument_types": args, "how": e["how"], "chosen_function": D.fn_text(e["_fn"]),
               "matching": [D.sig_text(rec, ri, s) for s in v.get("matching", [])]}
        if cl == "ambiguous":
            for i, j in v["incomparable"]:
                out.append({"clause": cl, "sig": "%s|%s<>%s" % (name, D.sig_text(rec, ri, i), D.sig_text(rec, ri, j)),
                            "detail": det})
        elif cl == "not_most_specific":
            out.append({"clause": cl, "sig": "%s|chosen=%s|most_specific=%s" % (
                name, "/".join(D.sig_text(rec, ri, s) for s in v["chosen"]),
                "/".join(D.sig_text(rec, ri, s) for s in v["most_specific"])), "detail": det})
        else:
            out.append({"clause": cl, "sig": "%s|%s" % (name, args), "detail": det})
    for o in out:
        o["engine"] = "Dispatch/judge"
    return out


def replay(path):
    """bin/check C16 --replay <file>: run the quick pipeline again and say whether the
    violation stored in the replay file (same clause and signature) is still there"""
    import json
    with open(path) as f:
        want = json.load(f)
    found = []
    run("quick", collect=found)
    hits = [v for v in found if v.get("clause") == want.get("clause") and v.get("sig") == want.get("sig")]
    for v in hits[:1]:
        print("VIOLATION property=C16 replay=%s" % path)
        print("  clause=%s sig=%s detail=%s" % (v["clause"], v["sig"], json.dumps(v.get("detail"), default=str)[:300]))
    if not hits:
        print("C16 replay: clause=%s sig=%s not reproduced" % (want.get("clause"), want.get("sig")))
    return 1 if hits else 0


def run(tier, collect=None):
    from harness import dispatchdriver as D
    out = check.Outcome("C16", tier)
    if collect is not None:
        out.finish = lambda *a, **k: collect.extend(out.violations) or 0
    seed = check.seed()
    os.makedirs(tlc.BUILD, exist_ok=True)
    fd, path = tempfile.mkstemp(prefix="c16-", suffix=".ndjson", dir=tlc.BUILD)
    os.close(fd)
    # hard budget: a library whose dispatcher is broken can loop forever inside C code paths
    # that swallow exceptions; the check must still terminate (machinery failure, exit 2)
    budget = 600 if tier == "quick" else 3600

    def _give_up():
        print("MACHINERY-ERROR C16 exceeded its hard budget of %d s (the library under test does not terminate?)" % budget,
              flush=True)
        try:
            os.unlink(path)
        except OSError:
            pass
        os._exit(2)

    watchdog = threading.Timer(budget, _give_up)
    watchdog.daemon = True
    watchdog.start()
    try:
        return _run(out, D, tier, seed, path)
    finally:
        watchdog.cancel()
        try:
            os.unlink(path)
        except OSError:
            pass


def _run(out, D, tier, seed, path):
    rec = D.record(tier, seed, path)
    T = rec.T
    rec.event_by_id = {e["id"]: e for e in rec.events}

    # ---- C->S: the judge
    jrun = tlc.TLCRun("Dispatch", cfg="DispatchTrace", workers=1, env={"TRACE_FILE": path},
                      timeout=300 if tier == "quick" else 2400)
    verdicts = {}
    for r in jrun:
        if r is not None and "id" in r:
            verdicts[r["id"]] = r
    if not jrun.ok:
        out.machinery.append({"clause": "tlc-judge", "detail": jrun.error or "\n".join(jrun.output_tail[-30:])})
    elif jrun.distinct != len(rec.lines) + 1 or len(verdicts) != len(rec.lines):
        out.machinery.append({"clause": "tlc-judge", "detail": "judge consumed %d of %d lines, %d verdicts" % (
            jrun.distinct - 1, len(rec.lines), len(verdicts))})
    by_clause = {v.get("clause"): v for v in verdicts.values() if v.get("clause")}
    ok_events = {}
    n_ev_bad = Counter()
    for v in verdicts.values():
        if v["id"] in rec.event_by_id:
            if v["ok"]:
                ok_events[v["id"]] = v.get("matching", 0) if isinstance(v.get("matching", 0), int) else 0
            else:
                n_ev_bad[v["clause"]] += 1
        if not v["ok"]:
            out.violations.extend(_violations_of(rec, D, v))

    # ---- S->C: the DispatchCache machine
    mach = D.choose_machine(rec, tier, ok_events)
    mrun = tlc.TLCRun("Dispatch", cfg="Dispatch", workers=8, env={"TRACE_FILE": path},
                      timeout=300 if tier == "quick" else 1800)
    records = [r for r in mrun]
    rp = D.replay_machine(rec, records)
    if not mrun.ok:
        if "Deterministic" in (mrun.error or "") + " ".join(mrun.messages):
            for nu in rp["not_unique"] or [{"reg": 0, "args": [], "resolved": []}]:
                ri = nu["reg"]
                out.violations.append({
                    "clause": "model_resolution_not_unique",
                    "sig": "%s|%s" % (rec.regs[ri].name, "<>".join(D.sig_text(rec, ri, s) for s in nu["resolved"] if s)),
                    "detail": {"argument_types": [T.show(i) for i in nu["args"]], "tlc": mrun.error},
                    "engine": "Dispatch/machine"})
        else:
            out.machinery.append({"clause": "tlc-machine", "detail": mrun.error or "\n".join(mrun.output_tail[-30:])})
    elif mach and not rp["behaviours"]:
        out.machinery.append({"clause": "tlc-machine", "detail": "no behaviour printed"})
    for m in rp["mismatches"]:
        ri = m["reg"]
        e = rec.events[rec.machine[[k for k, mm in enumerate(rec.machine) if mm["reg"] - 1 == ri][0]]["_events"][m["t"] - 1]]
        out.violations.append({
            "clause": "replay_choice",
            "sig": "%s|(%s)|model=%s|got=%s" % (rec.regs[ri].name, ", ".join(T.show(i) for i in e["args"]),
                                                D.sig_text(rec, ri, m["model_sig"]) if m["model_sig"] else "none", m["got"]),
            "detail": {"want": m["want"], "got": m["got"], "behaviour": m["log"]}, "engine": "Dispatch/machine"})

    # ---- registration order
    cmpv = by_clause.get("comparable")
    rr = {"registries": 0, "permutations": 0, "dispatches": 0, "moved": 0, "mismatches": [], "skipped": 0}
    if cmpv is not None:
        comparable = [[tuple(p) for p in row] for row in cmpv["comparable"]]
        rr = D.reregister(rec, comparable, 3 if tier == "quick" else 12, seed)
        for m in rr["mismatches"]:
            ri = m["reg"]
            a, b = sorted([m["was"], m["now"]])
            out.violations.append({
                "clause": "registration_order_dependent",
                "sig": "%s|%s<>%s" % (rec.regs[ri].name, D.sig_text(rec, ri, a) if a else "none",
                                      D.sig_text(rec, ri, b) if b else "none"),
                "detail": {"argument_types": [T.show(i) for i in m["args"]], "was": m["was_fn"], "now": m["now_fn"],
                           "registration_order": m["order"]},
                "engine": "Dispatch/reregister"})
    else:
        out.machinery.append({"clause": "tlc-judge", "detail": "no comparable record"})

    sizes = by_clause.get("sizes", {})
    td, tp = by_clause.get("trans_deep", {}), by_clause.get("trans_disp", {})
    ld, lp = by_clause.get("laws_deep", {}), by_clause.get("laws_disp", {})
    eq = cmpv["equivalent"] if cmpv else []
    how = Counter(e["how"] for e in rec.events)
    n_sigs = sum(len(r.sigs) for r in rec.regs)
    drift = [{"law": p["law"], "a": T.show(p["a"]), "b": T.show(p["b"]), "recorded": p["recorded"]}
             for p in (ld.get("drift", []) + lp.get("drift", []))[:10]]
    out.coverage = {
        "states": jrun.distinct + mrun.distinct,
        "transitions": jrun.generated + mrun.generated,
        "traces_validated_against_impl": len(ok_events) + sum(n_ev_bad.values()) + rp["behaviours"],
        "evaluations": sizes.get("deep_defined", 0) + sizes.get("disp_defined", 0) + len(rec.events) + rp["steps"] + rr["dispatches"],
        "distinct_nontrivial": sum(1 for v in ok_events.values() if v >= 2),
        "rule": "a dispatch event is non-trivial when at least two registered signatures (the catch-all default "
                "included) match its argument types, so that a choice is made",
        "samples": [{"registry": rec.regs[e["reg"]].name, "argument_types": [T.show(i) for i in e["args"]],
                     "chosen": D.fn_text(e["_fn"]), "how": e["how"]} for e in rec.events[:2]] + rp["samples"][:2],
        "exhaustive": bool(mrun.ok),
        "pool": sizes.get("pool"), "types_in_table": sizes.get("types"), "pairs": sizes.get("pairs"),
        "pairs_defined_deep": sizes.get("deep_defined"), "pairs_true_deep": sizes.get("deep_true"),
        "pairs_undefined_deep": (sizes.get("pairs", 0) - sizes.get("deep_defined", 0)),
        "pairs_defined_disp": sizes.get("disp_defined"), "pairs_true_disp": sizes.get("disp_true"),
        "triples_defined_deep": td.get("triples"), "triples_defined_disp": tp.get("triples"),
        "chains_deep": td.get("chains"), "chains_disp": tp.get("chains"),
        "model_drift_pairs_outside_grammar": (ld.get("n_drift", 0) + lp.get("n_drift", 0)), "model_drift_samples": drift,
        "law_mismatches_in_grammar": (ld.get("n_bad", 0) + lp.get("n_bad", 0)),
        "sample_objects": sizes.get("members"), "object_nodes": sizes.get("objects"),
        "membership_pairs_checked": by_clause.get("member_model", {}).get("checked"),
        "registries": len(rec.regs), "registered_signatures": n_sigs,
        "signatures_with_synthesised_arguments": rec.synth_ok, "signatures_not_synthesised": rec.unsynth,
        "dispatch_events": len(rec.events), "events_by_source": dict(how),
        "events_judged_ok": len(ok_events), "events_judged_bad": dict(n_ev_bad),
        "expressions_evaluated": rec.expr_done, "expression_errors": rec.expr_errors,
        "dispatch_calls_observed": rec.dispatch_calls_observed,
        "dispatch_raised_typeerror": len(rec.raised),
        "equivalent_signature_pairs": sum(len(x) for x in eq),
        "machine": {"registries": [rec.regs[m["reg"] - 1].name for m in mach],
                    "argument_tuples": [[[T.show(i) for i in t] for t in m["tuples"]] for m in mach],
                    "max_len": rec.header["maxlen"], "states": mrun.distinct, "behaviours_replayed": rp["behaviours"],
                    "steps": rp["steps"], "dispatch_steps": rp["dispatch_steps"], "tlc_wall_s": round(mrun.wall, 1)},
        "reregistration": {k: rr[k] for k in ("registries", "permutations", "dispatches", "moved", "skipped")},
        "judge": {"lines": len(rec.lines), "states": jrun.distinct, "tlc_wall_s": round(jrun.wall, 1)},
    }
    out.assumptions = [
        "the nominal order of plain classes is recorded from __mro__ (plus abc-registered virtual parents), not modelled",
        "pairs on which deep_issubclass raises TypeError are undefined: excluded from the axioms and counted",
        "differences between the recorded tables and the model on pairs containing a typing construct outside the "
        "grammar are model drift (evidence only)",
    ]
    return out.finish()
