"""C06 - declared types match actual values."""
from harness import check, replay

LENSES = {
    "quick": ["core_pointwise", "core_reduce", "core_index", "core_stackcat", "core_intops", "core_moreops", "binder_indep"],
    "thorough": ["core_pointwise", "core_reduce", "core_index", "core_stackcat", "core_intops", "core_moreops", "binder_indep"],
}


def run(tier):
    out = check.Outcome("C06", tier)
    rp = replay.Replay("harness.modes:c06")
    for lens in LENSES[tier]:
        rp.run_lens(lens)
    out.add_replay(rp, "termmachine")
    ro = replay.Replay("harness.modes:c06ops")
    ro.run_lens("OpTyping", cfg="OpTyping" if tier == "quick" else "OpTyping_thorough")
    out.add_replay(ro, "optyping")
    out.coverage = check.replay_coverage(
        rp, "every program of the lenses built under lazy: declared inputs/output vs the "
            "typing rules of Sem.tla; then reinterpreted eagerly: output domain, inputs subset, data shape, bint range")
    out.coverage["states"] += ro.states
    out.coverage["transitions"] += ro.transitions
    out.coverage["traces_validated_against_impl"] += ro.records
    out.coverage["op_catalogue_cases"] = ro.records
    out.coverage["op_catalogue_verdicts"] = dict(ro.counts)
    out.coverage["op_catalogue_declines"] = {"%s/%s" % k: n for k, n in ro.sigs.most_common(8)}
    return out.finish()


def replay_file(path):
    from harness import replayfile
    return replayfile.replay_term(path, "harness.modes:c06", "C06")
