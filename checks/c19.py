"""C19 - conversions array<->funsor by dim/name maps, re-alignment and materialisation never
move data to the wrong name.

spec/Convert.tla: TLC enumerates every case (array shape x event rank x named dims; funsor x
name_to_dim; tensor x every (partial) permutation; align_tensor(s); lazy term / Contraction /
Delta / Gaussian x permutations; materialize), proves on each that the implementation-shaped
models of tensor_to_funsor / tensor_to_data / Tensor.align / align_tensor / ... refine the
denotational definitions and that pack/unpack are mutually inverse up to size-1 batch dims, and
emits the case with its expected observable projection.  harness/convdriver.py replays every
emitted case into the real code (S->C)."""
import json

from harness import check, convdriver

# quick: ranks 0-4, sizes 1-3; thorough: ranks 0-5 sizes 1-3 (all families) and ranks 0-5 sizes 1-4
# (conversions and tensor alignment)
CFG = {"quick": ["Convert_quick"], "thorough": ["Convert_thorough", "Convert_thorough4"]}


def run(tier):
    out = check.Outcome("C19", tier)
    rp = convdriver.ConvReplay(procs=16)
    for cfg in CFG[tier]:
        rp.run("Convert", cfg, timeout=400 if tier == "quick" else 2400)
    out.machinery.extend(rp.machinery)
    for v in rp.grouped_violations():
        v["engine"] = "convert"
        out.violations.append(v)
    st = rp.stats
    evals = sum(n for k, n in st.items() if k.startswith("eval:"))
    run0 = {"distinct": sum(r["distinct"] for r in rp.tlc_runs), "generated": sum(r["generated"] for r in rp.tlc_runs),
            "ok": bool(rp.tlc_runs) and all(r["ok"] for r in rp.tlc_runs)}
    out.coverage = {
        "states": run0.get("distinct", 0),
        "transitions": run0.get("generated", 0),
        "traces_validated_against_impl": rp.records,
        "evaluations": evals,
        "distinct_nontrivial": rp.nontrivial,
        "rule": "one record per TLC state (a conversion / alignment case); non-trivial = more than one element and "
                "a request that is not the identity; evaluations = API results compared with TLC's expectation",
        "samples": rp.samples[:4],
        "records_by_family": {k[8:]: n for k, n in sorted(st.items()) if k.startswith("records:")},
        "evaluations_by_clause": {k[5:]: n for k, n in sorted(st.items()) if k.startswith("eval:")},
        "declined": {k[9:]: n for k, n in sorted(st.items()) if k.startswith("declined:")},
        "notes": {k[5:]: n for k, n in sorted(st.items()) if k.startswith("note:")},
        "invariants": ["Inv_Pack", "Inv_Unpack", "Inv_Align", "Inv_ATensor", "Inv_ATensors", "Inv_Terms", "Inv_Gauss"],
        "tlc_runs": rp.tlc_runs,
        "exhaustive": bool(run0.get("ok")),
    }
    out.assumptions = [
        "array contents are position codes k+1 (float64 and int64); sizes 1-3",
        "Gaussian / Delta values are compared at the sample points 0, 1/2, 2 of each real input",
    ]
    return out.finish()


def replay(path):
    """re-execute the case stored in a replay file"""
    with open(path) as f:
        v = json.load(f)
    rec = v["record"]
    if "exp" not in rec:
        print("replay file holds only the case (record too large); rerun the tier")
        return 2
    viols, stats = convdriver.replay_record(rec)
    for o in viols:
        print("VIOLATION property=C19 replay=%s" % path)
        print("  clause=%s sub=%s detail=%s" % (o["clause"], o["sub"], json.dumps(o["detail"], default=str)[:400]))
    if not viols:
        print("C19 replay: ok (%s)" % dict(stats))
    return 1 if viols else 0
