"""C12 - Gaussian pointwise algebra agrees with the dense quadratic form."""
from harness import check, replay


def run(tier):
    out = check.Outcome("C12", tier)
    rp = replay.Replay("harness.modes:c12")
    rp.run_lens("gauss_pointwise")
    rp.run_lens("gauss_subs")          # two batch inputs / three real inputs; pairs also in reverse order
    rp.run_lens("gauss_cat")           # Cat of parts with different ranks / mixtures next to plain Gaussians
    if tier == "thorough":
        rp.run_lens("gauss_pointwise", cfg="gauss_pointwise_deep", limit=40000, timeout=2400)
    out.add_replay(rp, "termmachine")
    out.coverage = check.replay_coverage(
        rp, "Gaussian leaves (full rank, rank deficient, over-complete/compressed, batched, interleaved input orders) "
            "x sums, substitutions (numbers, variables, affine expressions, batched tensors, batch indices), align, Cat; "
            "each result evaluated at every sample point of the remaining real inputs and every batch assignment")
    return out.finish()


def replay_file(path):
    from harness import replayfile
    return replayfile.replay_term(path, "harness.modes:c12", "C12")
