"""C01 - eager evaluation returns the mathematical value (TermMachine S->C)."""
from harness import check, replay

LENSES = {
    "quick": ["core_pointwise", "core_reduce", "core_index", "core_stackcat", "core_intops", "core_moreops", "binder_indep", "neginf_contraction"],
    "thorough": ["core_pointwise", "core_reduce", "core_index", "core_stackcat", "core_intops", "core_moreops",
                 "subs_tensor", "subs_chain", "binder_indep", "neginf_contraction"],
}


def run(tier):
    out = check.Outcome("C01", tier)
    rp = replay.Replay("harness.modes:c01")
    for lens in LENSES[tier]:
        rp.run_lens(lens)
    out.add_replay(rp, "termmachine")
    out.coverage = check.replay_coverage(
        rp, "every program TLC enumerates in the lenses (exhaustive below the lens bound); "
            "distinct = distinct term ASTs, non-trivial = not a bare leaf")
    return out.finish()


def replay_file(path):
    from harness import replayfile
    return replayfile.replay_term(path, "harness.modes:c01", "C01")
