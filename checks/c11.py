"""C11 - adjoints are semiring derivatives of the forward value."""
from harness import check, replay

LIMIT = {"quick": 4000, "thorough": 30000}


def run(tier):
    out = check.Outcome("C11", tier)
    rp = replay.Replay("harness.modes:c11")
    for sr in ("addmul", "logaddexp"):
        tmo = 900 if tier == "quick" else 3000
        # (the adjoint lenses evaluate DTerm for every leaf in TLC: 15 workers, i.e. the prefix taken
        # by `limit` is not the same in every run; known findings are matched by feature, and the
        # thorough tier takes a prefix 7x as long)
        rp.run_lens("semiring_" + sr, cfg="adjoint_" + sr, limit=LIMIT[tier], timeout=tmo, workers=15)
        rp.run_lens("adjsubs_" + sr, limit=LIMIT[tier], timeout=tmo, workers=15)
    # non-injective substitutions of a leaf (diagonals), whole lens
    rp.run_lens("adjdiag", timeout=1500)
    # adjoints through a Cat of three leaves of different sizes
    rp.run_lens("adjcat", timeout=1500)
    # proper slices of a leaf directly under the final reduction (Number-valued incoming adjoint)
    rp.run_lens("adjslice", timeout=1500)
    out.add_replay(rp, "adjoint")
    out.coverage = check.replay_coverage(
        rp, "every sum-product expression of the (add,mul) and (logaddexp,add) semiring lenses whose tensor leaves are "
            "pairwise distinct: forward_backward on the lazily built expression and on its optimizer-restructured form; "
            "forward vs Den, each leaf's adjoint vs the structural derivative DTerm evaluated by TLC")
    out.coverage["exhaustive"] = False
    return out.finish()
