"""C04 - substitution is simultaneous, capture-avoiding application."""
from harness import check, replay

LENSES = {
    "quick": ["subs_tensor", "gauss_subs", "subs_lazy", "subs_chain", "binder_indep", "core_stackcat", "delta_multi"],
    "thorough": ["subs_tensor", "gauss_subs", "subs_lazy", "subs_chain", "binder_indep", "core_stackcat", "delta_multi"],
}


def run(tier):
    out = check.Outcome("C04", tier)
    rp = replay.Replay("harness.modes:c04")
    for lens in LENSES[tier]:
        rp.run_lens(lens, limit={"subs_lazy": 25000, "core_stackcat": 8000}.get(lens) if tier == "quick" else None)
    out.add_replay(rp, "termmachine")
    out.coverage = check.replay_coverage(
        rp, "every (f, substitution map) pair of the lenses: eager value + inputs subset, lazy exact inputs + values; "
            "renamings both as Variable values and as strings")
    return out.finish()


def replay_file(path):
    from harness import replayfile
    return replayfile.replay_term(path, "harness.modes:c04", "C04")
