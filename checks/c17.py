"""C17 - interpretation contexts nest and unwind like a stack.

M:    spec/InterpStack.tla (frames in spec/InterpFrames.tla) is explored exhaustively by
      TLC for each lens (spec/InterpStack_<lens>.cfg); TLC checks Restore, RestoreInv,
      BaseNeverPopped, Innermost, FramesOK, Neutral in the model.
S->C: every state TLC reaches is printed with its history, the expected stack and the
      expected answer of every probe; harness/stackdriver.py executes every maximal
      history with real with-statements / decorated calls / injected exceptions and
      compares after every step.  Sharded by the first operation of the history (one TLC
      + one replaying process per shard).
C->S: a seeded sample of the same behaviours is re-run with funsor.interpreter._STACK
      replaced by a logging list; the push/pop/probe trace is validated by TLC with
      spec/Trace_InterpStack.tla.  A self-test feeds the judge a corrupted trace
      (dropped pop, doubled push) and requires rejection.
"""
import json
import multiprocessing
import os
import time

from harness import check

# (lens, shards, behaviours per shard whose trace is recorded and validated); big ones first
LENSES = {
    "quick": [("sib3", 4, 25), ("chain4", 9, 20), ("over7", 3, 8), ("deco3", 6, 18)],
    "thorough": [("chain5", 9, 150), ("sib4", 8, 150), ("deco4", 18, 60), ("over8", 3, 30),
                 ("deco3", 6, 40)],
}
POOL = {"quick": 8, "thorough": 16}
JUDGES = {"quick": 4, "thorough": 12}
ENGINE_S2C = "InterpStack/stackdriver"
ENGINE_C2S = "Trace_InterpStack"


def _task(t):
    from harness import stackdriver
    if t[0] == "__selftest__":
        try:
            ok, detail = stackdriver.selftest_trace(t[3])
        except Exception as e:          # noqa: BLE001
            ok, detail = False, {"stage": "self-test crashed", "error": repr(e)}
        return {"selftest": ok, "detail": detail}
    return stackdriver.run_task(t)


def _sig(h):
    return " ".join(h) if h else "<initial state>"


def run(tier):
    from harness import stackdriver
    out = check.Outcome("C17", tier)
    seed = check.seed()
    procs = min(POOL[tier], os.cpu_count() or 4)
    tasks = []
    for lens, shards, n_trace in LENSES[tier]:
        firsts = stackdriver.lens_ops(lens)
        for i in range(shards):
            group = tuple(firsts[i::shards])
            if group:
                tasks.append((lens, group, n_trace, seed, 1, 3000 if tier == "thorough" else 900))
    tasks.insert(0, ("__selftest__", (), 0, seed, 1, 600))
    ctx = multiprocessing.get_context("fork")
    t0 = time.time()
    with ctx.Pool(procs, maxtasksperchild=1) as pool:
        results = list(pool.imap_unordered(_task, tasks, chunksize=1))

    cov = {"states": 0, "transitions": 0, "behaviours_replayed": 0, "step_comparisons": 0,
           "probe_comparisons": 0, "states_compared": 0, "trace_runs": 0, "trace_events": 0,
           "trace_states": 0, "aborted_behaviours": 0}
    by_lens = {}
    merged = {}          # clause -> [count, minimal example]
    rejected = {}        # trace clause -> [count, minimal example]
    frames = set()
    samples = []
    trace_runs = []
    tlc_runs = []
    selftest = None
    for r in results:
        if "selftest" in r:
            selftest = r
            continue
        out.machinery.extend(r["machinery"])
        tlc_runs.append(r["tlc"])
        if "states" not in r:
            continue
        L = by_lens.setdefault(r["lens"], {"states": 0, "behaviours": 0, "shards": 0, "tlc_wall_max": 0.0})
        L["states"] += r["states"]
        L["behaviours"] += r["leaves"]
        L["shards"] += 1
        L["tlc_wall_max"] = max(L["tlc_wall_max"], r["tlc"]["wall"])
        cov["states"] += r["tlc"]["distinct"]
        cov["transitions"] += r["tlc"]["generated"]
        cov["behaviours_replayed"] += r["leaves"]
        cov["step_comparisons"] += r["steps"]
        cov["probe_comparisons"] += r["probes"]
        cov["states_compared"] += r["states_checked"]
        cov["aborted_behaviours"] += r["aborted"]
        frames.update(r["frames"])
        cov["stacks_fully_probed"] = cov.get("stacks_fully_probed", 0) + r["stacks_fully_probed"]
        trace_runs.extend(r["trace_runs"])
        if len(samples) < 6:
            samples.extend(_sig(h) for h in r["sample"][:1])
        for clause, (n, ex) in r["by_clause"].items():
            ent = merged.setdefault(clause, [0, None, set()])
            ent[0] += n
            ent[2].add(r["lens"])
            if ent[1] is None or (len(ex["h"]), ex["h"]) < (len(ent[1]["h"]), ent[1]["h"]):
                ent[1] = ex

    # C->S: the recorded runs go to TLC (Trace_InterpStack.tla), split over a few judges
    t1 = time.time()
    if trace_runs:
        from concurrent.futures import ThreadPoolExecutor
        nj = max(1, min(JUDGES[tier], len(trace_runs)))
        total = sum(len(tr) for _, tr in trace_runs)
        parts, cur, size = [], [], 0
        for run_ in trace_runs:
            cur.append(run_)
            size += len(run_[1])
            if size >= total / nj:
                parts.append(cur)
                cur, size = [], 0
        if cur:
            parts.append(cur)
        with ThreadPoolExecutor(len(parts)) as ex:
            for tr in ex.map(stackdriver.validate_runs, parts):
                cov["trace_runs"] += tr["runs"]
                cov["trace_events"] += tr["events"]
                cov["trace_states"] += tr["states"]
                if tr["error"]:
                    out.machinery.append({"clause": "trace-judge", "detail": str(tr["error"])[:1500]})
                elif tr.get("verdicts") != tr["events"]:
                    out.machinery.append({"clause": "trace-judge", "detail": "%d verdicts for %d events"
                                          % (tr.get("verdicts"), tr["events"])})
                for rej in tr["rejected"]:
                    ent = rejected.setdefault(rej["clause"], [0, None])
                    ent[0] += 1
                    h = rej["h"] or []
                    if ent[1] is None or (len(h), h) < (len(ent[1]["h"] or []), ent[1]["h"] or []):
                        ent[1] = rej
    t_judge = round(time.time() - t1, 1)

    for clause, (n, ex, lenses) in sorted(merged.items()):
        out.violations.append({
            "clause": clause, "sig": _sig(ex["h"]), "engine": ENGINE_S2C,
            "detail": {"want": ex["want"], "got": ex["got"], "instances": n, "lenses": sorted(lenses)},
            "h": ex["h"], "expect": ex["expect"]})
    for clause, (n, rej) in sorted(rejected.items()):
        out.violations.append({
            "clause": "trace:" + str(clause), "sig": _sig(rej["h"]), "engine": ENGINE_C2S,
            "detail": {"event": rej["event"], "want": rej.get("want"), "instances": n}, "h": rej["h"]})

    if selftest is None:
        out.machinery.append({"clause": "selftest", "detail": "trace self-test did not run"})
    elif selftest["selftest"] is None:
        for rej in selftest["detail"]["rejected"]:
            out.violations.append({
                "clause": "trace:" + str(rej["clause"]), "sig": _sig(rej["h"]), "engine": ENGINE_C2S,
                "detail": {"event": rej["event"], "want": rej.get("want"), "instances": 1, "selftest": True},
                "h": rej["h"]})
    elif not selftest["selftest"]:
        out.machinery.append({"clause": "selftest", "detail": json.dumps(selftest["detail"], default=str)[:1200]})

    expected_shards = len(tasks) - 1
    if len(tlc_runs) != expected_shards:
        out.machinery.append({"clause": "shards", "detail": "%d of %d shards reported" % (len(tlc_runs), expected_shards)})
    if not merged and cov["states_compared"] != cov["states"]:
        out.machinery.append({"clause": "coverage", "detail": "%d states emitted, %d compared"
                              % (cov["states"], cov["states_compared"])})

    out.coverage = {
        "states": cov["states"],
        "transitions": cov["transitions"],
        "traces_validated_against_impl": cov["behaviours_replayed"] + cov["trace_runs"],
        "evaluations": cov["step_comparisons"] + cov["probe_comparisons"],
        "distinct_nontrivial": len(frames),
        "rule": "every reachable state of InterpStack.tla under each lens: after every step of every maximal "
                "history, [repr(f) for f in funsor.interpreter._STACK] == TLC's expected stack; in every state the class "
                "of the probe terms add/sub (and once per distinct stack and shard also red/subs) and the set of "
                "adjoint tapes that recorded them == TLC's expected answers; a probe leaves the stack unchanged; sampled runs: push/pop/probe trace accepted by Trace_InterpStack.tla",
        "samples": samples[:6],
        "exhaustive": bool(tlc_runs) and all(t["ok"] for t in tlc_runs),
        "model_properties": ["BaseNeverPopped", "RestoreInv", "Restore", "Neutral", "FramesOK", "Innermost", "ExcOK"],
        "lenses": by_lens,
        "behaviours_replayed": cov["behaviours_replayed"],
        "states_compared": cov["states_compared"],
        "step_comparisons": cov["step_comparisons"],
        "probe_comparisons": cov["probe_comparisons"],
        "distinct_top_frames": len(frames),
        "stacks_asked_all_probes": cov.get("stacks_fully_probed", 0),
        "trace_runs_validated": cov["trace_runs"],
        "trace_events_validated": cov["trace_events"],
        "trace_selftest": selftest["detail"] if selftest else None,
        "aborted_behaviours": cov["aborted_behaviours"],
        "shards": len(tlc_runs),
        "pool_wall_s": round(t1 - t0, 1),
        "trace_judge_wall_s": t_judge,
    }
    out.assumptions = [
        "probe terms are fresh at every evaluation, so an enclosing Memoize never answers from its cache (C03)",
        "each entry of an adjoint tape uses a new AdjointTape() instance (re-entering one instance is outside the model)",
        "which rule table answers which probe (InterpFrames!Handles) is part of the specification",
    ]
    return out.finish()


def replay(path):
    """bin/check C17 --replay <file>: re-execute the history of a replay file against
    the expectations TLC printed for it."""
    from harness import stackdriver
    with open(path) as f:
        v = json.load(f)
    h, expect = v.get("h"), v.get("expect")
    if h is None or not expect:
        print("MACHINERY-ERROR replay file has no history/expectations (trace-direction finding?): %s" % path)
        return 2
    stats = stackdriver.replay_history(h, expect)
    if stats.by_clause:
        for clause, (n, ex) in stats.by_clause.items():
            print("VIOLATION property=C17 replay=%s" % path)
            print("  clause=%s sig=%s want=%s got=%s" % (clause, _sig(ex["h"]), json.dumps(ex["want"]), json.dumps(ex["got"], default=str)))
        return 1
    print("C17 replay: history %s now conforms" % _sig(h))
    return 0
