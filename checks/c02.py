"""C02 - every rewrite step of an exact interpretation preserves value.

C->S: every rule firing (eager / normalize / lazy / sequential / unfold / optimize)
recorded while the lens programs are executed is handed to TLC (spec/Judge.tla), which
evaluates lhs (the reflected term of the rule's arguments) and rhs (what the rule
returned) with the L1 denotation over the whole finite input space."""
import hashlib
import json
from collections import Counter

from harness import check, judge, replay

LENSES = {
    "quick": [("core_pointwise", 6000), ("core_reduce", 6000), ("core_index", None), ("core_stackcat", 5000),
              ("subs_tensor", 3000), ("subs_chain", None), ("binder_indep", None), ("binder_names", 6000), ("mixed_contraction", 6000), ("semiring_logaddexp", 2500),
              ("semiring_orand", 2000), ("gauss_pointwise", 2000), ("delta_ops", 3000), ("delta_indep", None)],
    "thorough": [("core_pointwise", None), ("core_reduce", None), ("core_index", None), ("core_stackcat", None),
                 ("subs_tensor", None), ("subs_chain", None), ("binder_indep", None), ("binder_names", 40000), ("mixed_contraction", None), ("semiring_addmul", 30000),
                 ("semiring_logaddexp", 30000), ("semiring_maxadd", 20000), ("semiring_orand", 20000),
                 ("gauss_pointwise", None), ("delta_ops", 40000), ("negred", None), ("core_moreops", None),
                 ("core_intops", None), ("delta_integ", 20000), ("delta_indep", None), ("delta_multi", None)],
}


from harness.modes_carrier import reduces_absent_var  # noqa: E402


def in_carrier(e):
    """C02 is stated within the carrier of the semiring a rule relies on: non-negative data
    where max or min is paired with mul.  Events outside it are not judged (and counted)."""
    from harness.modes_carrier import in_carrier as ic
    return ic(e["lhs"], e.get("rhs"))


def judge_events(out, events, prop, sig_of, timeout=300):
    """A judge that does not finish within `timeout` (an edit of /repo can make the emitted
    terms arbitrarily expensive to evaluate) is a machinery error for the unjudged events;
    verdicts already printed are kept, so violations found so far are still reported."""
    for i, e in enumerate(events):
        e["id"] = i + 1
    jr = judge.judge_parallel(events, procs=16, chunk=max(25, len(events) // 16 + 1), timeout=timeout)
    if jr.error:
        out.machinery.append({"clause": "judge", "detail": jr.error})
    n_ok = n_bad = n_undef = 0
    from harness import compare
    for e in events:
        v = jr.verdicts.get(e["id"])
        if v is None:
            continue
        if e["kind"] == "project":
            st, cl, det = compare.compare_ground(e["_rhs"], v["exp"])
            if st == "agree":
                n_ok += 1
            elif st == "skipped_undefined":
                n_undef += 1
            elif st == "mismatch":
                n_bad += 1
                out.violations.append({"prop": prop, "clause": cl, "sig": sig_of(e), "detail": det,
                                       "event": e, "engine": "judge"})
            continue
        if v["ok"]:
            n_ok += 1
            n_undef += 1 if v.get("undefined") else 0
        else:
            n_bad += 1
            out.violations.append({"prop": prop, "clause": v["clause"], "sig": sig_of(e),
                                   "detail": {k: v[k] for k in v if k not in ("id", "ok", "clause")},
                                   "event": e, "engine": "judge"})
    return jr, n_ok, n_bad, n_undef


def run(tier):
    out = check.Outcome("C02", tier)
    rp = replay.Replay("harness.modes:c02")
    for lens, limit in LENSES[tier]:
        rp.run_lens(lens, limit=limit)
    out.machinery.extend(rp.machinery)
    events = rp.events
    # dedupe across workers
    seen = set()
    uniq = []
    for e in events:
        k = hashlib.blake2b(json.dumps([e["rule"], e["lhs"]], sort_keys=True).encode(), digest_size=12).digest()
        if k not in seen:
            seen.add(k)
            uniq.append(e)
    n_all = len(uniq)
    uniq = [e for e in uniq if in_carrier(e)]
    out_of_carrier = n_all - len(uniq)
    def nonunit_delta(t):
        if isinstance(t, dict):
            if t.get("c") == "Delta" and any(ld != {"c": "Num", "v": ["R", 0, 1], "dt": 0} for _, _, ld in t["terms"]):
                return True
            return any(nonunit_delta(x) for x in t.values())
        if isinstance(t, list):
            return any(nonunit_delta(x) for x in t)
        return False

    def selfref_delta(t):
        """a directly constructed multi-name Delta in which the point of one name depends on another
        name of the SAME Delta (KF-delta-self-referential)"""
        def names(x, acc):
            if isinstance(x, dict):
                if x.get("c") == "Ten":
                    acc.update(n for n, _ in x["ins"])
                if x.get("c") == "Var":
                    acc.add(x.get("name", x.get("n")))
                for y in x.values():
                    names(y, acc)
            elif isinstance(x, list):
                for y in x:
                    names(y, acc)
            return acc
        if isinstance(t, dict):
            if t.get("c") == "Delta":
                own = {n for n, _, _ in t["terms"]}
                if any(names(pt, set()) & own for _, pt, _ in t["terms"]):
                    return True
            return any(selfref_delta(x) for x in t.values())
        if isinstance(t, list):
            return any(selfref_delta(x) for x in t)
        return False

    def bool_add(t):
        """an addition (Binary add / Contraction with bin_op add) of two or more operands that are
        boolean-typed tensors or numbers: numpy's bool + bool is OR (KF-bool-add)"""
        if t.get("c") == "Bin" and t["op"]["n"] == "add":
            kids = [t["l"], t["r"]]
        elif t.get("c") == "Con" and t.get("bin") == "add":
            kids = t["terms"]
        else:
            return False
        return sum(1 for x in kids if x.get("c") in ("Ten", "Num") and x.get("dt") == 2) >= 2

    jr, n_ok, n_bad, n_undef = judge_events(
        out, uniq, "C02", lambda e: "%s|%s%s" % (e["rule"], replay.term_sig(e["lhs"], 1),
                                                 "|nonunit_delta" if nonunit_delta(e["lhs"]) else "")
                          + ("|reduces_absent_var" if reduces_absent_var(e["lhs"]) else "")
                          + ("|bool_add" if bool_add(e["lhs"]) else "")
                          + ("|selfref_delta" if selfref_delta(e["lhs"]) else ""),
        timeout=300 if tier == "quick" else 2400)
    rules = Counter(e["rule"] for e in uniq)
    out.coverage = {
        "states": rp.states + jr.states,
        "transitions": rp.transitions + jr.transitions,
        "traces_validated_against_impl": len(uniq),
        "evaluations": len(uniq),
        "distinct_nontrivial": len(uniq),
        "rule": "one event per distinct (rule function, argument term) firing whose result is not the reflected term; "
                "every event is non-trivial by construction (the rule rewrote something)",
        "samples": [{"rule": e["rule"], "lhs": e["lhs"], "rhs": e.get("rhs", e.get("_rhs"))} for e in uniq[:3]],
        "out_of_carrier_not_judged": out_of_carrier,
        "judged_ok": n_ok, "judged_bad": n_bad, "judged_with_undefined_points": n_undef,
        "rule_functions_fired": len(rp.fired), "rule_functions_judged": len(rules),
        "rules": dict(rules.most_common()),
        "firings_total": sum(rp.fired.values()),
        "skipped": dict(rp.skipped),
        "programs_replayed": rp.records,
        "tlc_runs": rp.tlc_runs,
        "exhaustive": False,
    }
    return out.finish()


def replay_file(path):
    from harness import replayfile
    return replayfile.replay_term(path, "harness.modes:c02", "C02")
