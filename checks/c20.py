"""C20 - terms and the arrays behind them are never mutated (trace validation, Heap.tla)."""
import copy

from harness import check, judge, replay

LENSES = {
    "quick": [("core_reduce", 1500), ("core_stackcat", 1500), ("core_index", None), ("semiring_addmul", 1500),
              ("subs_tensor", 2500), ("gauss_pointwise", 1000), ("binder_names", 1000), ("neginf_contraction", None), ("SampleGen", 400)],
    "thorough": [("core_pointwise", 8000), ("core_reduce", 8000), ("core_stackcat", 8000), ("core_index", None),
                 ("semiring_addmul", 8000), ("semiring_logaddexp", 4000), ("subs_tensor", 5000),
                 ("gauss_pointwise", 5000), ("binder_names", 5000), ("delta_ops", 5000), ("neginf_contraction", None), ("SampleGen", None)],
}


def validate(out, events):
    for i, e in enumerate(events):
        e["id"] = i + 1
    # keep the events of one program contiguous and in order inside one chunk
    progs = {}
    for e in events:
        progs.setdefault(e["prog"], []).append(e)
    chunks, cur = [], []
    for p in progs.values():
        cur.extend(sorted(p, key=lambda e: e["step"]))
        if len(cur) > 6000:
            chunks.append(cur)
            cur = []
    if cur:
        chunks.append(cur)
    from concurrent.futures import ThreadPoolExecutor

    def one(evs):
        jr = judge.JudgeRun("Heap")
        jr.judge([{k: v for k, v in e.items() if k in ("id", "step", "fps")} for e in evs])
        return jr
    with ThreadPoolExecutor(16) as ex:
        runs = list(ex.map(one, chunks))
    verdicts, states, trans = {}, 0, 0
    for r in runs:
        verdicts.update(r.verdicts)
        states += r.states
        trans += r.transitions
        if r.error:
            out.machinery.append({"clause": "heap_judge", "detail": r.error})
    bad = [e for e in events if e["id"] in verdicts and not verdicts[e["id"]]["ok"]]
    return verdicts, states, trans, bad


def run(tier):
    out = check.Outcome("C20", tier)
    rp = replay.Replay("harness.modes:c20", chunk=16)
    for lens, limit in LENSES[tier]:
        rp.run_lens(lens, limit=limit)
    out.machinery.extend(rp.machinery)
    events = rp.events
    verdicts, states, trans, bad = validate(out, events)
    for e in bad:
        out.violations.append({"prop": "C20", "clause": "mutated", "sig": "after:%s" % e["what"],
                               "detail": {"objects": verdicts[e["id"]].get("objects"), "prog": e["prog"]},
                               "engine": "heap"})
    selftest = None
    if events:
        # self-test of the binding: corrupt one fingerprint of a later step and require rejection
        victim = next((e for e in events if e["step"] >= 1 and e["fps"]), None)
        if victim is not None:
            prog = [copy.deepcopy(e) for e in events if e["prog"] == victim["prog"]]
            for e in prog:
                if e["step"] == victim["step"]:
                    k = sorted(e["fps"])[0]
                    e["fps"][k] = [e["fps"][k][0] ^ 1, e["fps"][k][1]]
            v2, _, _, bad2 = validate(check.Outcome("C20", tier), prog)
            selftest = bool(bad2)
            if not bad2:
                out.machinery.append({"clause": "selftest", "detail": "a corrupted fingerprint was not rejected by Heap.tla"})
    n_progs = len({e["prog"] for e in events})
    out.coverage = {
        "states": rp.states + states, "transitions": rp.transitions + trans,
        "traces_validated_against_impl": n_progs,
        "evaluations": len(events), "distinct_nontrivial": n_progs,
        "rule": "one trace per lens program: fingerprints (inputs, output, data) of every leaf array and every operand / "
                "intermediate / result funsor after each of: eager build, lazy build, reinterpret, normalize, optimizer, "
                "substitution, reduction, align, to_data, sample, adjoint, compile; validated by TLC against Heap.tla",
        "samples": [{"prog": e["prog"], "step": e["step"], "after": e["what"], "objects": len(e["fps"])} for e in events[:6]],
        "steps_by_operation": {},
        "selftest_corruption_rejected": selftest,
        "tlc_runs": rp.tlc_runs, "exhaustive": False,
    }
    for e in events:
        out.coverage["steps_by_operation"][e["what"]] = out.coverage["steps_by_operation"].get(e["what"], 0) + 1
    return out.finish()
