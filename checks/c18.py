"""C18 - compiled and traced programs compute what interpretation computes.

M   spec/OpProgram.tla + OpProgram.cfg: TLC checks, over every expression of the model lens,
    that the lowering MODEL is well-formed and correct (Run(Lower(e), data) = EvalX(e, data)),
    numbers shared subterms once, and that the step machine Load/Bind/Reject/Exec/Return
    computes Run and rejects exactly the inexact bindings.
C->S spec/Trace_OpProgram.tla: every program the REAL library produces (compile_funsor, its
    pickle round trip, the re-parsed as_code() text, trace_function of a generated function)
    for every expression TLC enumerates from the lenses spec/lens/prog_* is executed BY TLC
    on every binding of the inputs and compared with the denotation of the expression.
S->C the real programs (and the exec'd as_code text) are run on every binding and compared
    with the table TLC computed; missing / unexpected inputs must raise.
"""
import hashlib
import multiprocessing as mp
import os
import time
from collections import Counter
from concurrent.futures import ThreadPoolExecutor

from harness import check, judge, tlc

# (lens module, cfg, max emitted lines read (None: all), sample size above one operation (None: all))
LENSES = {
    "quick": [
        ("prog_arith", "prog_arith", None, 150),
        ("prog_cmp", "prog_cmp", None, 120),
        ("prog_pos", "prog_pos", None, 120),
        ("prog_int", "prog_int", None, 120),
        ("prog_con", "prog_con", None, 150),
        ("prog_tuple", "prog_tuple", None, 70),
        ("prog_deep", "prog_deep", None, 110),
        ("prog_nested", "prog_nested", None, 30),
        ("prog_tenin", "prog_tenin", None, 30),
    ],
    "thorough": [
        ("prog_arith", "prog_arith_t", None, 2000),
        ("prog_cmp", "prog_cmp_t", None, 1500),
        ("prog_pos", "prog_pos_t", None, 1500),
        ("prog_int", "prog_int_t", None, 1500),
        ("prog_con", "prog_con_t", None, 2000),
        ("prog_tuple", "prog_tuple_t", None, 800),
        ("prog_deep", "prog_deep_t", None, 2000),
        ("prog_nested", "prog_nested_t", None, 300),
        ("prog_tenin", "prog_tenin_t", None, 300),
    ],
}
MODEL_CFG = {"quick": "OpProgram", "thorough": "OpProgram_t"}
PROCS = 14          # python worker processes
# many TLC processes run side by side: keep each JVM's GC pool and young generation small
JVM_OPTS = "-XX:ParallelGCThreads=2 -Xmn384m"
JUDGE_PROCS = 10    # single-worker TLC processes judging side by side
JUDGE_CHUNK = 2000  # events per TLC process (bounds its memory)
BATCH = 4000        # expressions validated per round (bounds the driver's memory)


def _pd():
    from harness import progdriver
    return progdriver


def run_lens(spec):
    module, cfg, limit, _ = spec
    run = tlc.TLCRun(module, cfg=cfg, workers=4, timeout=1500)
    recs = {}
    n = 0
    it = run.raw_lines()
    for line in it:
        rec = tlc.parse_line(line)
        if rec is None:
            continue
        n += 1
        k = hashlib.blake2b(line.encode(), digest_size=12).digest()
        recs.setdefault(k, rec)
        if limit and n >= limit:
            it.close()
            run.ok = True
            break
    info = {"lens": module, "cfg": cfg, "ok": run.ok, "error": run.error, "distinct": run.distinct,
            "generated": run.generated, "emitted": n, "wall": round(run.wall, 1),
            "complete": not (limit and n >= limit)}
    return list(recs.values()), info


def n_ops(t):
    pd = _pd()
    return sum(1 for s in pd.subterms(t).values() if s["c"] in ("Un", "Bin", "Con", "Tup"))


def select(recs, sample, seed):
    """all expressions with at most one operation, and a seeded sample of the others"""
    pd = _pd()
    uniq = {}
    for r in recs:
        uniq.setdefault(pd.key_of(r["t"]), r)
    small = [r for k, r in uniq.items() if n_ops(r["t"]) <= 1]
    rest = sorted((k, r) for k, r in uniq.items() if n_ops(r["t"]) > 1)
    if sample is not None and len(rest) > sample:
        rest.sort(key=lambda kr: hashlib.blake2b(("%d:%s" % (seed, kr[0])).encode(), digest_size=8).digest())
        picked = rest[:sample]
        complete = False
    else:
        picked = rest
        complete = True
    return small + [r for _, r in picked], len(uniq), complete


def _init_worker():
    import funsor
    funsor.set_backend("numpy")


def _phase_a(rec):
    try:
        return _pd().phase_a(rec)
    except Exception:
        import traceback
        return {"events": [], "notes": Counter(), "violations": [], "machinery": traceback.format_exc()[-1500:]}


def _phase_c(args):
    rec, tables = args
    try:
        return _pd().phase_c(rec, tables)
    except Exception:
        import traceback
        return {"notes": Counter(), "violations": [], "runs": 0, "points": 0, "rejections": 0,
                "machinery": traceback.format_exc()[-1500:]}


def judge_all(events, out):
    """TLC verdict for every event; an event TLC cannot evaluate at all is reported as not
    accepted (clause spec_stuck) and the rest of its chunk is judged again."""
    verdicts = {}
    states = transitions = 0
    todo = list(events)
    wall = 0.0
    for attempt in range(6):
        if not todo:
            break
        chunk = min(JUDGE_CHUNK, max(50, (len(todo) + JUDGE_PROCS - 1) // JUDGE_PROCS))
        parts = list(judge.chunks(todo, chunk))

        def one(evs):
            jr = judge.JudgeRun("Trace_OpProgram")
            jr.judge(evs, timeout=1500)
            return jr, evs

        with ThreadPoolExecutor(JUDGE_PROCS) as ex:
            runs = list(ex.map(one, parts))
        todo = []
        for jr, evs in runs:
            verdicts.update(jr.verdicts)
            states += jr.states
            transitions += jr.transitions
            wall = max(wall, jr.wall)
            missing = [e for e in evs if e["id"] not in jr.verdicts]
            if missing:
                culprit = missing[0]
                verdicts[culprit["id"]] = {"id": culprit["id"], "ok": False, "clause": "spec_stuck",
                                           "tlc": (jr.error or "")[:600]}
                todo.extend(missing[1:])
    if todo:
        out.machinery.append({"clause": "judge", "detail": "%d events never judged" % len(todo)})
    return verdicts, states, transitions, wall


def validate(out, recs, t0=None):
    """phases A (real programs -> events), C->S (TLC runs every program) and S->C (the real
    programs run on TLC's tables) for the expression records recs"""
    pd = _pd()
    t0 = t0 or time.time()
    # phase A: real programs -> events
    ctx = mp.get_context("fork")
    with ctx.Pool(PROCS, initializer=_init_worker) as pool:
        res_a = pool.map(_phase_a, recs, chunksize=16)
    notes = Counter()
    events = []
    owner = {}
    for i, (rec, r) in enumerate(zip(recs, res_a)):
        if r.get("machinery"):
            out.machinery.append({"clause": "driver", "detail": r["machinery"]})
        notes.update(r["notes"])
        out.violations.extend(r["violations"])
        for e in r["events"]:
            e["id"] = len(events) + 1
            owner[e["id"]] = i
            events.append(e)
    t_a = time.time() - t0

    # C->S: TLC runs every program
    verdicts, j_states, j_trans, j_wall = judge_all(events, out)
    tables = {}
    via_ok = Counter()
    via_bad = Counter()
    undefined_points = 0
    points = 0
    for e in events:
        v = verdicts.get(e["id"])
        if v is None:
            continue
        variant, via = e["_key"]
        rec = recs[owner[e["id"]]]
        if e["kind"] == "table":
            if v.get("ok"):
                tables.setdefault(owner[e["id"]], {})[variant] = {"ins": v["ins"], "envs": v["envs"], "tab": v["tab"]}
            continue
        if v["ok"]:
            via_ok[via] += 1
            points += v.get("points", 0)
            undefined_points += v.get("undefined", 0)
        else:
            via_bad[via] += 1
            detail = {k: v[k] for k in v if k not in ("id", "ok", "clause")}
            detail["prog"] = e["prog"]
            out.violations.append(pd.violation(rec, variant, via, e["expr"], v["clause"], detail,
                                               engine="Trace_OpProgram"))
    t_j = time.time() - t0

    # S->C: run the real programs on the bindings of TLC's tables
    with ctx.Pool(PROCS, initializer=_init_worker) as pool:
        res_c = pool.map(_phase_c, [(rec, tables.get(i, {})) for i, rec in enumerate(recs)], chunksize=16)
    runs = pts_run = rejections = 0
    for r in res_c:
        if r.get("machinery"):
            out.machinery.append({"clause": "driver", "detail": r["machinery"]})
        notes.update(r["notes"])
        out.violations.extend(r["violations"])
        runs += r["runs"]
        pts_run += r["points"]
        rejections += r["rejections"]
    t_c = time.time() - t0

    return {"events": events, "notes": notes, "via_ok": via_ok, "via_bad": via_bad, "points": points,
            "undefined_points": undefined_points, "runs": runs, "pts_run": pts_run, "rejections": rejections,
            "j_states": j_states, "j_trans": j_trans, "t_a": t_a, "t_j": t_j, "t_c": t_c}


def run(tier):
    os.environ.setdefault("JAVA_TOOL_OPTIONS", JVM_OPTS)
    out = check.Outcome("C18", tier)
    pd = _pd()
    seed = check.seed()
    t0 = time.time()

    # M: the model-level theorems, concurrently with everything else
    model = tlc.TLCRun("OpProgram", cfg=MODEL_CFG[tier], workers=6 if tier == "quick" else 8, timeout=2400)
    model_thread = ThreadPoolExecutor(1)
    model_future = model_thread.submit(lambda: [r for r in model])

    # expressions from the lenses
    with ThreadPoolExecutor(9 if tier == "quick" else 5) as ex:
        gen = list(ex.map(run_lens, LENSES[tier]))
    recs = []
    lens_info = []
    for (lens_recs, info), spec in zip(gen, LENSES[tier]):
        if not info["ok"]:
            out.machinery.append({"clause": "tlc", "detail": "%s: %s" % (info["lens"], info["error"])})
        chosen, n_distinct, complete = select(lens_recs, spec[3], seed)
        info.update({"expressions": n_distinct, "used": len(chosen), "all_used": complete})
        lens_info.append(info)
        recs.extend(chosen)
    t_gen = time.time() - t0

    notes, via_ok, via_bad = Counter(), Counter(), Counter()
    points = undefined_points = runs = pts_run = rejections = j_states = j_trans = 0
    n_prog_events = nontrivial = 0
    t_a = t_j = t_c = 0.0
    samples = []
    for batch in judge.chunks(recs, BATCH):
        st = validate(out, batch)
        notes.update(st["notes"])
        via_ok.update(st["via_ok"])
        via_bad.update(st["via_bad"])
        points += st["points"]
        undefined_points += st["undefined_points"]
        runs += st["runs"]
        pts_run += st["pts_run"]
        rejections += st["rejections"]
        j_states += st["j_states"]
        j_trans += st["j_trans"]
        t_a += st["t_a"]
        t_j += st["t_j"] - st["t_a"]
        t_c += st["t_c"] - st["t_j"]
        pe = [e for e in st["events"] if e["kind"] == "prog"]
        n_prog_events += len(pe)
        nontrivial += sum(1 for e in pe if e["prog"]["ops"])
        if len(samples) < 4:
            for e in pe[:: max(1, len(pe) // 4)][:4]:
                samples.append({"via": e["via"], "expr": e["expr"], "prog": e["prog"]})
        del st, pe

    # the model check
    model_future.result()
    model_thread.shutdown()
    if not model.ok:
        if any("Invariant" in m for m in model.messages):
            out.violations.append({"clause": "model_theorem", "via": "model", "variant": "-", "traits": "-",
                                   "sig": "OpProgram.tla:" + ";".join(model.messages[:2])[:160],
                                   "detail": model.messages[:4], "engine": "OpProgram.tla"})
        else:
            out.machinery.append({"clause": "tlc", "detail": "OpProgram model: %s" % model.error})

    rank = {"model": 0, "compile": 1, "pickle": 2, "as_code": 3, "trace_function": 4}
    out.violations.sort(key=lambda v: (v.get("nodes", 0), rank.get(v.get("via"), 9), v.get("sig", "")))
    groups = Counter("%s|%s|%s|%s" % (v.get("clause"), v.get("via"), v.get("variant"), v.get("traits"))
                     for v in out.violations)
    if os.environ.get("VERIF_C18_DUMP"):
        import json
        with open(os.environ["VERIF_C18_DUMP"], "w") as f:
            json.dump(out.violations, f, default=str)
    out.coverage = {
        "states": model.distinct + sum(i["distinct"] for i in lens_info) + j_states,
        "transitions": model.generated + sum(i["generated"] for i in lens_info) + j_trans,
        "model": {"cfg": MODEL_CFG[tier], "distinct_states": model.distinct, "generated": model.generated,
                  "ok": model.ok, "wall_s": round(model.wall, 1),
                  "invariants": ["Inv_WellFormed", "Inv_LowerCorrect", "Inv_SharedOnce", "Inv_RunEq", "Inv_Result",
                                 "Inv_Reject", "Inv_EnvShape", "Inv_Fragment"]},
        "lenses": lens_info,
        "expressions": len(recs),
        "traces_validated_against_impl": n_prog_events,
        "programs_by_via": {k: via_ok[k] + via_bad[k] for k in sorted(set(via_ok) | set(via_bad))},
        "programs_rejected_by_tlc": dict(via_bad),
        "bindings_run_by_tlc": points,
        "bindings_outside_exact_algebra": undefined_points,
        "evaluations": pts_run,
        "real_program_runs": runs,
        "missing_or_unexpected_input_calls": rejections,
        "distinct_nontrivial": nontrivial,
        "rule": "one event per (expression variant, via) program; non-trivial = the program has at least one "
                "operation; every program is run by TLC on every binding of the sampled input space",
        "samples": samples[:4],
        "notes": dict(notes.most_common(40)),
        "violation_groups_before_known_findings": dict(groups.most_common(40)),
        "exhaustive": all(i["all_used"] and i["complete"] for i in lens_info),
        "phase_wall_s": {"generate": round(t_gen, 1), "programs": round(t_a, 1), "tlc_judge": round(t_j, 1),
                         "run_programs": round(t_c, 1), "total": round(time.time() - t0, 1)},
    }
    out.assumptions = [
        "real inputs are bound to 4 exact sample points per lens (rotations for Reals[2]); integer inputs to their whole range",
        "floats are compared with tolerance 1e-6 (harness/vals.py); constants must be small rationals to be serialised",
    ]
    return out.finish()


def replay(path):
    """bin/check C18 --replay build/replay/C18-....json: validate the one expression again"""
    import json
    os.environ.setdefault("JAVA_TOOL_OPTIONS", JVM_OPTS)
    with open(path) as f:
        v = json.load(f)
    check.EVIDENCE = os.path.join(tlc.BUILD, "replay-evidence")    # keep evidence/C18.json of the last full run
    out = check.Outcome("C18", "replay")
    rec = {"t": v["source"] if "source" in v else v["expr"], "pts": v["pts"], "tag": v.get("tag")}
    st = validate(out, [rec])
    out.coverage = {"traces_validated_against_impl": len([e for e in st["events"] if e["kind"] == "prog"]),
                    "evaluations": st["pts_run"], "states": st["j_states"], "transitions": st["j_trans"],
                    "notes": dict(st["notes"])}
    for x in out.violations:
        print("replayed: clause=%s via=%s variant=%s" % (x["clause"], x["via"], x["variant"]))
    return out.finish()
