"""C09 - plated sum-product equals brute-force unrolling."""
from harness import check, replay

CFGS = {
    "quick": ["SumProduct_scaled", "SumProduct_logaddexp", "SumProduct_maxadd", "SumProduct_logaddexp_param", "SumProduct_crossed2"],
    "thorough": ["SumProduct_scaled", "SumProduct_logaddexp_scaled", "SumProduct_addmul3", "SumProduct_logaddexp3", "SumProduct_maxadd", "SumProduct_minadd",
                 "SumProduct_maxmul", "SumProduct_orand", "SumProduct_addmul_param", "SumProduct_logaddexp_param", "SumProduct_crossed2", "SumProduct_crossed3", "SumProduct_scaled123"],
}


def run(tier):
    out = check.Outcome("C09", tier)
    rp = replay.Replay("harness.modes:c09")
    for cfg in CFGS[tier]:
        rp.run_lens("SumProduct", cfg=cfg)
    out.add_replay(rp, "sumproduct")
    # the implementation-shaped model of the elimination loop (TLC: refines the oracle for every
    # tie-break), bound to the code through the recorded _partition calls
    rm = replay.Replay("harness.modes:c09calls")
    for cfg in (["PspModel"] if tier == "quick" else ["PspModel", "PspModel_logaddexp"]):
        rm.run_lens("PspModel", cfg=cfg)
    out.machinery.extend(rm.machinery)
    by_problem = {}
    for e in rm.events:
        by_problem.setdefault(e["problem"], []).append(e)
    unmatched = {k: v for k, v in by_problem.items() if not any(e["match"] for e in v)}
    for k, v in sorted(unmatched.items()):
        out.violations.append({"prop": "C09", "clause": "loop_not_a_model_behaviour", "sig": k, "engine": "pspmodel",
                               "detail": {"outcome": v[0]["outcome"], "calls": v[0]["calls"],
                                          "model_outcomes": sorted({e["model_outcome"] for e in v}),
                                          "model_calls_one": v[0]["model_calls"]}})
    out.coverage = check.replay_coverage(
        rp, "every plated factor graph within the cfg bounds (factors over subsets of the variables and plates, in "
            "canonical order) x every eliminate set: sum_product, partial_sum_product in one call and in every valid "
            "split into two calls, modified_/dynamic_partial_sum_product with empty steps, plated einsum; oracle = the "
            "unrolled L1 term evaluated by TLC")
    out.coverage["states"] += rm.states
    out.coverage["transitions"] += rm.transitions
    out.coverage["loop_model"] = {"tlc_states": rm.states, "problems": len(by_problem),
                                  "terminal_model_behaviours": len(rm.events), "problems_unmatched": len(unmatched)}
    return out.finish()
