"""C09 - plated sum-product equals brute-force unrolling."""
from harness import check, replay

CFGS = {
    "quick": ["SumProduct_scaled", "SumProduct_logaddexp", "SumProduct_maxadd"],
    "thorough": ["SumProduct_scaled", "SumProduct_logaddexp_scaled", "SumProduct_addmul3", "SumProduct_logaddexp3", "SumProduct_maxadd", "SumProduct_minadd",
                 "SumProduct_maxmul", "SumProduct_orand"],
}


def run(tier):
    out = check.Outcome("C09", tier)
    rp = replay.Replay("harness.modes:c09")
    for cfg in CFGS[tier]:
        rp.run_lens("SumProduct", cfg=cfg)
    out.add_replay(rp, "sumproduct")
    out.coverage = check.replay_coverage(
        rp, "every plated factor graph within the cfg bounds (factors over subsets of the variables and plates, in "
            "canonical order) x every eliminate set: sum_product, partial_sum_product in one call and in every valid "
            "split into two calls, modified_/dynamic_partial_sum_product with empty steps, plated einsum; oracle = the "
            "unrolled L1 term evaluated by TLC")
    return out.finish()
