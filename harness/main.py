import argparse
import importlib
import os
import sys
import traceback


def main():
    ap = argparse.ArgumentParser()
    ap.add_argument("prop")
    ap.add_argument("--tier", default=os.environ.get("VERIF_TIER", "quick"), choices=["quick", "thorough"])
    ap.add_argument("--replay", default=None)
    a = ap.parse_args()
    mod = importlib.import_module("checks." + a.prop.lower())
    try:
        if a.replay:
            rc = (getattr(mod, "replay_file", None) or mod.replay)(a.replay)
        else:
            rc = mod.run(a.tier)
    except Exception:
        traceback.print_exc()
        print("MACHINERY-ERROR uncaught exception in check %s" % a.prop)
        rc = 2
    sys.exit(rc)


main()
