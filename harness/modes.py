"""Replay modes: how a TermMachine record is executed and which property's
clauses are evaluated on it (attribution: one property per verdict)."""
import json

import numpy as np

import funsor
from funsor.interpretations import eager, lazy, normalize, reflect
from funsor.tensor import Tensor
from funsor.terms import Funsor, Number

from . import compare, fbuild, vals


def _has_getslice(t):
    if isinstance(t, dict):
        return (t.get("c") == "Un" and t["op"]["n"] == "getslice") or any(_has_getslice(v) for v in t.values())
    if isinstance(t, list):
        return any(_has_getslice(v) for v in t)
    return False


def _build(rec, interp=None, rename_as_str=False, watch=None, index_style="plain", delta_point_as_tensor=False,
           subs_pair_order="call"):
    b = fbuild.Builder(watch=watch)
    b.subs_pair_order = subs_pair_order
    if subs_pair_order == "reversed":
        b.real_num_as_tensor = True     # a python float in a partial Gaussian substitution raises (decline)
    b.rename_as_str = rename_as_str
    b.delta_point_as_tensor = delta_point_as_tensor
    b.index_style = index_style
    if interp is None:
        return b.build(rec["t"])
    with interp:
        return b.build(rec["t"])


def c01(rec):
    """C01: default (eager) evaluation returns the specified value; may decline,
    except on the ground core fragment where it must complete."""
    exp = rec["exp"]
    if not in_carrier(rec["t"]):
        # max/min paired with mul on data that may be negative: outside the carrier on which
        # funsor declares that semiring (see C02/C08); not judged
        return [{"prop": "C01", "status": "skipped_out_of_carrier", "clause": None}]
    try:
        r = _build(rec)
    except Exception as e:  # noqa
        if exp["core"]:
            return [{"prop": "C01", "status": "mismatch", "clause": "core_incomplete",
                     "detail": "%s: %s" % (type(e).__name__, str(e)[:200])}]
        return [{"prop": "C01", "status": "declined_error", "clause": type(e).__name__}]
    if _has_getslice(rec["t"]):
        try:
            r2 = _build(rec, index_style="ellipsis")
            st2, cl2, det2 = compare.compare_values(r2, exp)
            if st2 == "mismatch":
                return [{"prop": "C01", "status": "mismatch", "clause": "ellipsis_" + str(cl2), "detail": det2}]
        except Exception:  # noqa
            pass
    st, cl, det = compare.compare_values(r, exp)
    if st in ("declined_lazy", "declined_error") and exp["core"]:
        return [{"prop": "C01", "status": "mismatch", "clause": "core_incomplete",
                 "detail": "result is %s (%s)" % (type(r).__name__, cl)}]
    if st == "agree" and exp["core"] and not isinstance(r, (Tensor, Number)):
        return [{"prop": "C01", "status": "mismatch", "clause": "core_incomplete",
                 "detail": "result is lazy %s" % type(r).__name__}]
    return [{"prop": "C01", "status": st, "clause": cl, "detail": det}]


# ---------------------------------------------------------------------------
# shared helpers

from .modes_carrier import (in_carrier, nested_same_binder_feature, identity_subs_feature,  # noqa: E402
                            rename_onto_input_feature)


def _verdict(prop, st, cl=None, det=None, **kw):
    d = {"prop": prop, "status": st, "clause": cl, "detail": det}
    d.update(kw)
    return d


def _contains_sub(t):
    if isinstance(t, dict):
        return t.get("c") == "Sub" or any(_contains_sub(v) for v in t.values())
    if isinstance(t, list):
        return any(_contains_sub(v) for v in t)
    return False


def _decl_check(r, exp, prop, what, performed_subs=False):
    """declared inputs / output of a lazily built term equal the typing rules (as maps).
    performed_subs: the program contains a substitution that funsor may PERFORM even under lazy
    (Stack / Cat / Tensor / Slice pick a part or index data): the declared inputs may then omit
    inputs the value no longer depends on (DESIGN.md 0.4)."""
    bad = compare.check_inputs_subset(r, exp) if performed_subs else compare.check_inputs_exact(r, exp)
    if bad:
        return _verdict(prop, "mismatch", what + "_" + bad,
                        {"got": [[k, str(v)] for k, v in r.inputs.items()], "want": exp["ins"]})
    if not compare.output_matches(r, exp):
        return _verdict(prop, "mismatch", what + "_output", {"got": str(r.output), "want": exp["out"]})
    return None


def _eval_check(r, exp, prop, what, need_output=True):
    """an evaluated result: same output domain, inputs subset, same values"""
    if isinstance(r, Funsor) and need_output and not compare.output_matches(r, exp):
        if isinstance(r, (Tensor, Number)) or True:
            return _verdict(prop, "mismatch", what + "_output", {"got": str(r.output), "want": exp["out"]})
    st, cl, det = compare.compare_values(r, exp)
    if st == "mismatch":
        return _verdict(prop, "mismatch", what + "_" + str(cl), det)
    return _verdict(prop, st, cl, det)


def _tensor_wellformed(r, prop, what):
    """a tensor's array has exactly the declared batch and event shape; bounded ints in range"""
    if isinstance(r, Tensor):
        want = tuple(d.size for d in r.inputs.values()) + tuple(r.output.shape)
        if tuple(r.data.shape) != want:
            return _verdict(prop, "mismatch", what + "_data_shape", {"got": list(r.data.shape), "want": list(want)})
        if isinstance(r.dtype, int) and r.data.dtype != bool and r.data.size:
            lo, hi = r.data.min(), r.data.max()
            if lo < 0 or hi >= r.dtype:
                return _verdict(prop, "mismatch", what + "_bint_range", {"min": float(lo), "max": float(hi), "size": r.dtype})
    return None


INTERPS = {"lazy": lazy, "reflect": reflect, "normalize": normalize, "eager": eager}


def c06(rec):
    """C06: the lazily built term declares exactly Inputs/Output of the typing rules;
    its evaluation has the same output domain, a subset of the inputs, well-formed data."""
    exp = rec["exp"]
    out = []
    if _has_getslice(rec["t"]):
        try:
            r2 = _build(rec, lazy, index_style="ellipsis")
            bad = _decl_check(r2, exp, "C06", "lazy_ellipsis", performed_subs=_contains_sub(rec["t"]))
            if bad:
                return [bad]
            e2 = funsor.reinterpret(r2)
            if isinstance(e2, Funsor) and not compare.output_matches(e2, exp):
                return [_verdict("C06", "mismatch", "eager_ellipsis_output", {"got": str(e2.output), "want": exp["out"]})]
        except Exception as e:  # noqa
            out.append(_verdict("C06", "declined_error", "ellipsis:" + type(e).__name__))
    try:
        r = _build(rec, lazy)
    except Exception as e:  # noqa
        return [_verdict("C06", "declined_error", type(e).__name__)]
    from funsor.terms import Subs as _Subs2
    performed = _contains_sub(rec["t"]) and not (rec["t"]["c"] == "Sub" and isinstance(r, _Subs2))
    bad = _decl_check(r, exp, "C06", "lazy", performed_subs=performed)
    if bad:
        return [bad]
    out.append(_verdict("C06", "agree"))
    try:
        e = funsor.reinterpret(r)
    except Exception as ex:  # noqa
        out.append(_verdict("C06", "declined_error", "reinterpret:" + type(ex).__name__))
        return out
    if isinstance(e, Funsor):
        if not compare.output_matches(e, exp):
            return [_verdict("C06", "mismatch", "eager_output", {"got": str(e.output), "want": exp["out"]})]
        bad = compare.check_inputs_subset(e, exp) if isinstance(e, (Tensor, Number)) else None
        if bad:
            return [_verdict("C06", "mismatch", "eager_" + bad)]
        bad = _tensor_wellformed(e, "C06", "eager")
        if bad:
            return [bad]
        out.append(_verdict("C06", "agree"))
    return out


def c04(rec):
    """C04: f(**subs) denotes f at the substituted values; lazily built substitution has
    exactly the predicted inputs; evaluated one a subset (omitting only independent inputs)."""
    exp = rec["exp"]
    if rec["t"]["c"] != "Sub":
        return []
    out = []
    for rename_as_str in (False, True):
        if rename_as_str and not any(v["c"] == "Var" for _, v in rec["t"]["subs"]):
            continue
        # eager
        try:
            r = _build(rec, None, rename_as_str)
            v = _eval_check(r, exp, "C04", "eager", need_output=False)
        except Exception as e:  # noqa
            v = _verdict("C04", "declined_error", type(e).__name__)
        out.append(v)
        # lazy: exact inputs, then values by probing
        try:
            r = _build(rec, lazy, rename_as_str)
        except Exception as e:  # noqa
            out.append(_verdict("C04", "declined_error", "lazy:" + type(e).__name__))
            continue
        # "exactly these inputs" is stated for a lazily BUILT substitution (a Subs node).  Some
        # terms perform the substitution even under `lazy` (Stack / Tensor / Number pick a part or
        # index data in their eager_subs): that is an evaluated substitution, whose inputs may omit
        # what the value no longer depends on (_eval_check enforces subset + dependence).
        from funsor.terms import Subs as _Subs
        if isinstance(r, _Subs):
            bad = _decl_check(r, exp, "C04", "lazy")
            if bad:
                out.append(bad)
                continue
        out.append(_eval_check(r, exp, "C04", "lazy"))
    # the same pairs handed to Subs in reverse input order (a substitution is a map)
    if len(rec["t"]["subs"]) > 1:
        try:
            r = _build(rec, None, subs_pair_order="reversed")
            out.append(_eval_check(r, exp, "C04", "reversed_pairs", need_output=False))
        except Exception as e:  # noqa
            out.append(_verdict("C04", "declined_error", "reversed_pairs:" + type(e).__name__))
    # built under normalize (its own substitution rules), then evaluated
    try:
        with normalize:
            y = fbuild.Builder().build(rec["t"])
        r = funsor.reinterpret(y) if isinstance(y, Funsor) else y
        out.append(_eval_check(r, exp, "C04", "normalize_then_eager", need_output=False))
    except Exception as e:  # noqa
        out.append(_verdict("C04", "declined_error", "normalize:" + type(e).__name__))
    return out


def c05(rec):
    """C05: bound names never appear among inputs and never capture, under every exact
    interpretation (reflect, lazy, normalize, eager)."""
    exp = rec["exp"]
    out = []
    want_names = {n for n, _ in exp["ins"]}
    for iname, interp in INTERPS.items():
        try:
            r = _build(rec, interp)
        except Exception as e:  # noqa
            out.append(_verdict("C05", "declined_error", iname + ":" + type(e).__name__))
            continue
        if not isinstance(r, Funsor):
            continue
        leaked = [n for n in r.inputs if n not in want_names]
        if leaked:
            out.append(_verdict("C05", "mismatch", iname + "_leaked_input", {"leaked": leaked, "want": sorted(want_names)}))
            continue
        if iname in ("reflect", "lazy"):
            missing = [n for n in want_names if n not in r.inputs]
            if missing:
                out.append(_verdict("C05", "mismatch", iname + "_missing_input", {"missing": missing}))
                continue
        if any("__BOUND" in n for n in r.inputs):
            out.append(_verdict("C05", "mismatch", iname + "_bound_marker_in_inputs", list(r.inputs)))
            continue
        v = _eval_check(r, exp, "C05", iname, need_output=False)
        out.append(v)
        if iname in ("reflect", "lazy", "normalize") and v["status"] == "agree":
            try:
                e = funsor.reinterpret(r)
                out.append(_eval_check(e, exp, "C05", iname + "_reinterpreted", need_output=False))
            except Exception as ex:  # noqa
                out.append(_verdict("C05", "declined_error", iname + "_reinterpret:" + type(ex).__name__))
    return out


def c03(rec):
    """C03: building under lazy / reflect / normalize / memoize and reinterpreting eagerly, or
    evaluating under sequential / moment_matching, equals immediate eager evaluation:
    same output domain, same values, inputs among the expression's."""
    from funsor.interpretations import memoize, moment_matching, sequential
    exp = rec["exp"]
    out = []
    if not in_carrier(rec["t"]):
        # normal forms are exact only on the carrier of the semiring (C02/C08: non-negative
        # data where max or min is paired with mul); programs outside it are not judged
        return [_verdict("C03", "skipped_out_of_carrier")]
    for iname in ("lazy", "reflect", "normalize"):
        try:
            r = _build(rec, INTERPS[iname])
            e = funsor.reinterpret(r)
        except Exception as ex:  # noqa
            out.append(_verdict("C03", "declined_error", iname + ":" + type(ex).__name__))
            continue
        out.append(_eval_check(e, exp, "C03", iname + "_then_eager"))
    for iname, interp in (("sequential", sequential), ("moment_matching", moment_matching)):
        try:
            r = _build(rec, interp)
        except Exception as ex:  # noqa
            out.append(_verdict("C03", "declined_error", iname + ":" + type(ex).__name__))
            continue
        out.append(_eval_check(r, exp, "C03", iname))
    # memoize: same value, and the identical object for the repeated identical expression
    # (identical = same constructor arguments, leaf arrays by identity: leaves are shared)
    try:
        cache = {}
        with memoize():
            b1 = fbuild.Builder()
            b1.leaf_cache = cache
            a = b1.build(rec["t"])
            b2 = fbuild.Builder()
            b2.leaf_cache = cache
            b = b2.build(rec["t"])
        if a is not b:
            out.append(_verdict("C03", "mismatch", "memoize_not_identical", None))
        else:
            out.append(_eval_check(a, exp, "C03", "memoize"))
    except Exception as ex:  # noqa
        out.append(_verdict("C03", "declined_error", "memoize:" + type(ex).__name__))
    return out


_RR = None


def c02(rec):
    """C02 (recording half): run the program under the exact interpretations with the rule
    recorder on; the firings are judged by TLC (Judge.tla) in the parent.  One recorder per
    worker process, so the per-rule cap bounds the volume of the whole run."""
    from funsor.interpretations import sequential
    from funsor.optimizer import apply_optimizer
    from . import recorder
    global _RR
    if _RR is None:
        _RR = recorder.RuleRecorder(per_rule_cap=120)
    rr = _RR
    n0 = len(rr.events)
    fired0 = dict(rr.fired)
    with rr:
        for interp in (None, normalize, lazy, sequential):
            try:
                r = _build(rec, interp)
                if interp in (normalize, lazy):
                    funsor.reinterpret(r)
                if interp is lazy and isinstance(r, Funsor):
                    apply_optimizer(r)
            except Exception:  # noqa
                pass
    out = [{"status": "_event", "event": e} for e in rr.events[n0:]]
    del rr.events[n0:]
    out.append({"status": "_stats", "fired": {k: n - fired0.get(k, 0) for k, n in rr.fired.items() if n != fired0.get(k, 0)},
                "skipped": {}})
    return out


def c08shift(rec):
    """C08 (float range): TLC proved on this program that adding c to every tensor leaf adds
    hdeg * c to the value (Inv_Homogeneous, c = log 2).  Replay with c = -400 and +400, where
    exp() of a single leaf under/overflows: naive eager evaluation, the normalised term, the
    optimizer's re-bracketing and einsum() must all return table + hdeg * c."""
    from funsor.optimizer import apply_optimizer
    exp = rec["exp"]
    d = exp.get("hdeg", -1)
    if d in (-1, 99) or d == 0:
        return []
    out = []
    for c in (-400.0, 400.0):
        tag = "shift%+d" % int(c)
        shifted = dict(exp)
        shifted["tab"] = [_shift_cell(cell, d * c) for cell in exp["tab"]]

        def build(interp):
            b = fbuild.Builder()
            b.leaf_shift = c
            if interp is None:
                return b.build(rec["t"])
            with interp:
                return b.build(rec["t"])

        def judge(what, fn):
            try:
                r = fn()
            except Exception as e:  # noqa
                out.append(_verdict("C08", "declined_error", "%s_%s:%s" % (tag, what, type(e).__name__)))
                return
            v = _eval_check(r, shifted, "C08", "%s_%s" % (tag, what), need_output=False)
            out.append(v)
        judge("eager", lambda: build(None))
        try:
            x = build(lazy)
        except Exception as e:  # noqa
            out.append(_verdict("C08", "declined_error", tag + "_build:" + type(e).__name__))
            continue
        if not isinstance(x, Funsor):
            continue

        def norm():
            with normalize:
                y = funsor.reinterpret(x)
            return funsor.reinterpret(y)
        judge("normalize", norm)
        judge("optimize", lambda: apply_optimizer(x))
        form = _einsum_form(rec["t"])
        if form is not None and (form[0], form[1]) in EINSUM_BACKENDS:
            from funsor.einsum import einsum
            plus, times, eq, leaves, outs = form
            b = fbuild.Builder()
            b.leaf_shift = c
            operands = [b.build(lf) for lf in leaves]
            names = []
            for lf in leaves:
                for n, _ in lf["ins"]:
                    if n not in names:
                        names.append(n)
            sym = {n: chr(ord("a") + k) for k, n in enumerate(names)}
            back = {v: k for k, v in sym.items()}
            ren = [op(**{n: sym[n] for n in op.inputs}) for op in operands]

            def run_einsum():
                r = einsum(eq, *ren, backend=EINSUM_BACKENDS[(plus, times)])
                return r(**{s_: back[s_] for s_ in r.inputs})
            judge("einsum", run_einsum)
    return out


def _shift_cell(cell, by):
    """a table cell (array of exact scalars) shifted by a float: cells become floats"""
    from . import vals
    return {"sh": cell["sh"], "f": [vals.scalar_to_float(x) + by for x in cell["v"]]}


def _einsum_form(t):
    """If t is Red(plus, product-tree of tensor leaves) (or just a product tree) over scalar
    leaves, return (plus, times, equation, leaf ASTs, output names); else None."""
    if t["c"] == "Red":
        plus, body, rvars = t["op"], t["arg"], [n for n, _ in t["vars"]]
    else:
        return None
    leaves = []
    times = []

    def walk(b):
        if b["c"] == "Ten" and not b["sh"]:
            leaves.append(b)
            return True
        if b["c"] == "Bin" and not b["op"]["p"]:
            times.append(b["op"]["n"])
            return walk(b["l"]) and walk(b["r"])
        return False
    if not walk(body) or len(set(times)) > 1:
        return None
    names = []
    for lf in leaves:
        for n, _ in lf["ins"]:
            if n not in names:
                names.append(n)
    if any(n not in names for n in rvars):
        return None     # einsum cannot express a reduced variable no operand has
    sym = {n: chr(ord("a") + k) for k, n in enumerate(names)}
    outs = [n for n in names if n not in rvars]
    eq = ",".join("".join(sym[n] for n, _ in lf["ins"]) for lf in leaves) + "->" + "".join(sym[n] for n in outs)
    return plus, (times[0] if times else None), eq, leaves, outs


EINSUM_BACKENDS = {("add", "mul"): "numpy", ("logaddexp", "add"): "funsor.einsum.numpy_log",
                   ("max", "add"): "funsor.einsum.numpy_map"}


def c08(rec):
    """C08: the normalised term, the unfolded term, the optimizer's re-bracketing and einsum()
    all denote the naive value.  Terms are returned as events for TLC (C->S); eager values are
    compared here with the table TLC emitted (S->C)."""
    from collections import OrderedDict
    from funsor.optimizer import apply_optimizer, unfold
    from . import fast
    exp = rec["exp"]
    t = rec["t"]
    out = []
    events = []
    try:
        x = _build(rec, lazy)
    except Exception as e:  # noqa
        return [_verdict("C08", "declined_error", "build:" + type(e).__name__)]
    if not isinstance(x, Funsor):
        return []

    def emit(what, y):
        try:
            events.append({"kind": "deneq", "what": what, "lhs": t, "rhs": fast.to_ast(y)})
        except fast.Unrepresentable as ex:
            out.append(_verdict("C08", "skipped_unrepresentable", what + ":" + str(ex)[:40]))

    def value(what, y):
        try:
            e = funsor.reinterpret(y)
        except Exception as ex:  # noqa
            out.append(_verdict("C08", "declined_error", what + ":" + type(ex).__name__))
            return
        out.append(_eval_check(e, exp, "C08", what, need_output=False))

    # 1. normalize
    try:
        with normalize:
            y = funsor.reinterpret(x)
            y2 = funsor.reinterpret(y)
        if y2 is not y:
            out.append(_verdict("C08", "mismatch", "normalize_not_idempotent",
                                {"once": str(y)[:200], "twice": str(y2)[:200]}))
        emit("normalize", y)
        value("normalize", y)
    except Exception as ex:  # noqa
        out.append(_verdict("C08", "declined_error", "normalize:" + type(ex).__name__))
    # 2. unfold
    try:
        with unfold:
            u = funsor.reinterpret(x)
        emit("unfold", u)
        value("unfold", u)
    except Exception as ex:  # noqa
        out.append(_verdict("C08", "declined_error", "unfold:" + type(ex).__name__))
    # 3. optimizer: the re-bracketed term (lazy base) and its eager value
    try:
        with lazy:
            o = apply_optimizer(x)
        emit("optimize", o)
        value("optimize", o)
        e = apply_optimizer(x)
        out.append(_eval_check(e, exp, "C08", "optimize_eager", need_output=False))
    except Exception as ex:  # noqa
        out.append(_verdict("C08", "declined_error", "optimize:" + type(ex).__name__))
    # 4. einsum front end
    form = _einsum_form(t)
    if form is not None and (form[0], form[1]) in EINSUM_BACKENDS:
        from funsor.einsum import einsum
        plus, times, eq, leaves, outs = form
        try:
            b = fbuild.Builder()
            operands = []
            for lf in leaves:
                ten = b.build(lf)
                # einsum operands are funsors whose inputs are named by the equation's symbols
                operands.append(ten)
            names = []
            for lf in leaves:
                for n, _ in lf["ins"]:
                    if n not in names:
                        names.append(n)
            sym = {n: chr(ord("a") + k) for k, n in enumerate(names)}
            ren = [op(**{n: sym[n] for n in op.inputs}) for op in operands]
            r = einsum(eq, *ren, backend=EINSUM_BACKENDS[(plus, times)])
            back = {v: k for k, v in sym.items()}
            r = r(**{s: back[s] for s in r.inputs})
            out.append(_eval_check(r, exp, "C08", "einsum", need_output=False))
        except Exception as ex:  # noqa
            out.append(_verdict("C08", "declined_error", "einsum:" + type(ex).__name__))
    out.extend({"status": "_event", "event": e} for e in events)
    return out


# ---------------------------------------------------------------------------
# C09: plated sum-product

def _sp_sig(rec):
    fs = ";".join(",".join(n for n, _ in (f if f["c"] == "Ten" else f["l"])["ins"]) for f in rec["factors"])
    if rec.get("param"):
        fs += ";param"
    return "%s/%s[%s]elim{%s}" % (rec["plus"], rec["times"], fs, ",".join(sorted(rec["elim"])))


def c09(rec):
    """C09: sum_product, partial_sum_product (one call and every valid two-call split), the
    modified / dynamic variants with empty Markov steps and plated einsum equal the unrolled
    oracle TLC computed; ValueError only where ordinals are incomparable."""
    from functools import reduce as freduce
    from funsor.sum_product import (dynamic_partial_sum_product, modified_partial_sum_product,
                                    partial_sum_product, sum_product)
    exp = rec["exp"]
    sig = _sp_sig(rec)
    plus, times = fbuild.ASSOC[rec["plus"]], fbuild.ASSOC[rec["times"]]
    b = fbuild.Builder()
    factors = [b.build(f) for f in rec["factors"]]
    elim = frozenset(rec["elim"])
    plates = frozenset(rec["plates"])
    out = []

    def prod(fs):
        # the product of the returned factors, with the unit for an empty list (as sum_product)
        from funsor.ops import UNITS
        return freduce(times, fs, Number(UNITS[times]))

    def judge(what, fn):
        try:
            r = fn()
        except ValueError as e:
            if rec["comparable"]:
                out.append(_verdict("C09", "mismatch", what + "_valueerror_on_tractable", str(e)[:120], sig=sig))
            else:
                out.append(_verdict("C09", "declined_error", what + ":ValueError", sig=sig))
            return
        except Exception as e:  # noqa
            out.append(_verdict("C09", "declined_error", what + ":" + type(e).__name__, sig=sig))
            return
        v = _eval_check(r, exp, "C09", what, need_output=False)
        v["sig"] = sig
        out.append(v)

    scales = {p: int(s) for p, s in rec.get("scales", {}).items() if int(s) != 1}
    kw = {"plate_to_scale": scales} if scales else {}
    judge("sum_product", lambda: sum_product(plus, times, factors, elim, plates, **kw))
    judge("partial", lambda: prod(partial_sum_product(plus, times, factors, elim, plates, **kw)))
    for e1 in rec["splits"]:
        e1 = frozenset(e1)
        judge("split", lambda: prod(partial_sum_product(
            plus, times, partial_sum_product(plus, times, factors, e1, plates, **kw), elim - e1, plates, **kw)))
    # the same call with EVERY eliminated plate listed in plate_to_scale, scale 1 included: a scale of
    # one is an exponent of one (found by a seeded fault that added the scales of two nested plates)
    full = {p: int(rec.get("scales", {}).get(p, 1)) for p in sorted(plates & elim)}
    if full and full != scales:
        judge("sum_product_all_plates_scaled", lambda: sum_product(plus, times, factors, elim, plates, plate_to_scale=full))
        judge("partial_all_plates_scaled",
              lambda: prod(partial_sum_product(plus, times, factors, elim, plates, plate_to_scale=full)))
    if scales:
        return out     # the modified / dynamic variants and einsum take no plate scales
    p2s = {p: frozenset() for p in plates & elim}
    judge("modified", lambda: prod(modified_partial_sum_product(plus, times, factors, elim, p2s)))
    judge("dynamic", lambda: prod(dynamic_partial_sum_product(plus, times, factors, elim, p2s)))
    # "Plates are passed with an empty step" (docstring): ALL plates, eliminated or not - a plate
    # that is not eliminated must stay a batch input (the first version of this harness listed
    # only the eliminated plates and thereby hid a defect, see DESIGN.md 0.3)
    p2all = {p: frozenset() for p in plates}
    if p2all != p2s:
        judge("modified_all_plates", lambda: prod(modified_partial_sum_product(plus, times, factors, elim, p2all)))
        judge("dynamic_all_plates", lambda: prod(dynamic_partial_sum_product(plus, times, factors, elim, p2all)))
    backend = EINSUM_BACKENDS.get((rec["plus"], rec["times"]))
    if backend and not rec.get("param"):       # einsum operands are tensors
        from funsor.einsum import einsum, naive_plated_einsum
        names = []
        for f in rec["factors"]:
            for n, _ in f["ins"]:
                if n not in names:
                    names.append(n)
        sym = {n: n for n in names}      # names are single letters already
        outs = [n for n in names if n not in elim]
        eq = ",".join("".join(n for n, _ in f["ins"]) for f in rec["factors"]) + "->" + "".join(outs)
        pl = "".join(sorted(plates & set(names)))
        # plated einsum product-reduces plates absent from the output and sum-reduces the other
        # absent names: expressible only if elim = all names not in the output
        if set(names) - set(outs) == set(elim) and all(
                set(outs) & plates <= {n for n, _ in f["ins"]} for f in rec["factors"]):
            judge("einsum", lambda: einsum(eq, *factors, plates=pl, backend=backend))
            judge("naive_plated_einsum", lambda: naive_plated_einsum(eq, *factors, plates=pl, backend=backend))
    return out


# ---------------------------------------------------------------------------
# C10: Markov products

def _exp_as_ten(exp):
    """the oracle's table as a tensor-leaf AST (lhs of a C->S event)"""
    return {"c": "Ten", "ins": [[n, d["dt"]] for n, d in exp["ins"]], "dt": exp["out"]["dt"], "sh": [],
            "data": [row["v"][0] for row in exp["tab"]]}


def c10(rec):
    """C10: sequential / mixed (every num_segments) / naive sequential sum-product and
    MarkovProduct (eager, and lazy then reinterpreted) equal the explicit left fold TLC
    computed; the lazily emitted scan terms are returned as events for TLC."""
    from funsor.sum_product import (MarkovProduct, mixed_sequential_sum_product,
                                    naive_sequential_sum_product, sequential_sum_product)
    from funsor.terms import Variable
    from funsor.domains import Bint
    from . import fast
    exp = rec["exp"]
    sig = json_sig(rec["sig"], rec["plus"], rec["times"])
    plus, times = fbuild.ASSOC[rec["plus"]], fbuild.ASSOC[rec["times"]]
    trans = fbuild.Builder().build(rec["trans"])
    T = rec["T"]
    time = Variable("time", Bint[T])
    step = {p: c for p, c in rec["step"]}
    out = []
    events = []

    def judge(what, fn):
        try:
            r = fn()
        except Exception as e:  # noqa
            out.append(_verdict("C10", "declined_error", what + ":" + type(e).__name__, str(e)[:100], sig=sig))
            return None
        v = _eval_check(r, exp, "C10", what, need_output=False)
        v["sig"] = sig
        out.append(v)
        return r

    judge("sequential", lambda: sequential_sum_product(plus, times, trans, time, step))
    judge("naive", lambda: naive_sequential_sum_product(plus, times, trans, time, step))
    for k in range(1, T + 1):
        judge("mixed[%d]" % k, lambda: mixed_sequential_sum_product(plus, times, trans, time, step, num_segments=k))
    judge("MarkovProduct", lambda: MarkovProduct(plus, times, trans, time, step))

    def lazy_mp():
        with lazy:
            m = MarkovProduct(plus, times, trans, time, step)
        return funsor.reinterpret(m)
    judge("MarkovProduct_lazy", lazy_mp)
    # the time variable and the step variables of a lazy MarkovProduct are BOUND: a value whose
    # own free input is called "time" (or like a step variable), substituted for the batch input,
    # must not be captured (found by a seeded fault that did not record `time` as bound).
    # Expected values: TLC's table re-indexed (batch := idx[t]).
    if rec["sig"].get("batch") and not rec.get("param"):
        for free_name in ("time",) + tuple(step)[:1]:
            try:
                from collections import OrderedDict as _OD
                n_free = T if free_name == "time" else 2     # a capture then indexes the bound variable's own range
                idx_data = np.array([(k + 1) % 2 for k in range(n_free)])
                idx = Tensor(idx_data, _OD([(free_name, Bint[n_free])]), 2)
                with lazy:
                    m = MarkovProduct(plus, times, trans, time, step)
                    r = m(b=idx)
                e = funsor.reinterpret(r)
                names = [n for n, _ in exp["ins"]]
                if "b" not in names:
                    continue
                if free_name in names:
                    continue        # the value's free input would collide with a free input of m
                tab = exp["tab"]
                sizes = [d["dt"] for _, d in exp["ins"]]
                pos_b = names.index("b")
                new_names = [free_name if n == "b" else n for n in names]
                import itertools as _it
                want = {}
                for flat, ix in enumerate(_it.product(*[range(s_) for s_ in sizes])):
                    want[ix] = tab[flat]
                bad = None
                if not isinstance(e, (Tensor, Number)):
                    out.append(_verdict("C10", "declined_lazy", "markov_lazy_subs:" + type(e).__name__, sig=sig))
                    continue
                if set(e.inputs) != set(new_names):
                    bad = ("markov_lazy_subs_inputs", {"got": sorted(e.inputs), "want": sorted(new_names), "value_input": free_name})
                else:
                    ea = e.align(tuple(new_names))
                    data = np.asarray(ea.data, dtype=float)
                    for ix in _it.product(*[range(n_free if k == pos_b else s_) for k, s_ in enumerate(sizes)]):
                        src = list(ix)
                        src[pos_b] = int(idx_data[ix[pos_b]])
                        w = vals.arr_to_np(want[tuple(src)])
                        if not vals.close(data[ix], w):
                            bad = ("markov_lazy_subs_value", {"at": dict(zip(new_names, ix)), "got": float(data[ix]),
                                                              "want": float(w), "value_input": free_name})
                            break
                v = _verdict("C10", "mismatch", bad[0], bad[1], sig=sig) if bad else _verdict("C10", "agree", sig=sig)
                out.append(v)
            except Exception as ex:  # noqa
                out.append(_verdict("C10", "declined_error", "markov_lazy_subs:" + type(ex).__name__, str(ex)[:100], sig=sig))
    # C->S: the scan run under lazy emits a term (slices, cats, contractions, renamings)
    if rec.get("param"):
        # the expected table ranges over sample points of the real parameter: it is not a tensor
        # leaf, so the lazily emitted terms of parameter problems are not judged (values are)
        return out
    lhs = _exp_as_ten(exp)
    for what, fn in (("sequential", lambda: sequential_sum_product(plus, times, trans, time, step)),
                     ("mixed", lambda: mixed_sequential_sum_product(plus, times, trans, time, step,
                                                                    num_segments=max(1, T // 2)))):
        try:
            with lazy:
                term = fn()
            events.append({"kind": "deneq", "what": what + "_lazy", "sig": sig, "lhs": lhs, "rhs": fast.to_ast(term)})
        except fast.Unrepresentable as ex:
            out.append(_verdict("C10", "skipped_unrepresentable", what + ":" + str(ex)[:40], sig=sig))
        except Exception as ex:  # noqa
            out.append(_verdict("C10", "declined_error", what + "_lazy:" + type(ex).__name__, sig=sig))
    out.extend({"status": "_event", "event": e} for e in events)
    return out


def c05markov(rec):
    """C05 on the MarkovProduct binder: only the capture probes of c10 (a lazy MarkovProduct
    substituted with a value whose free input is named like a bound variable), reported
    under C05."""
    if not rec["sig"].get("batch") or rec.get("param"):
        return []
    out = []
    for v in c10(rec):
        cl = v.get("clause") or ""
        if v.get("status") == "mismatch" and cl.startswith("markov_lazy_subs"):
            v = dict(v)
            v["prop"] = "C05"
            out.append(v)
    if not out:
        out.append(_verdict("C05", "agree", sig=json_sig(rec["sig"], rec["plus"], rec["times"])))
    return out


def json_sig(sig, plus, times):
    return "%s/%s %s" % (plus, times, ",".join("%s=%s" % (k, sig[k]) for k in sorted(sig)))


def c10lag(rec):
    """C10 (lags): sarkka_bilmes_product equals naive_sarkka_bilmes_product.  The naive
    algorithm's lazily built term is an event for TLC (project); the parallel algorithm's
    eager value is attached to it and compared with the table TLC computes."""
    from funsor.sum_product import naive_sarkka_bilmes_product, sarkka_bilmes_product
    from funsor.terms import Variable
    from funsor.domains import Bint
    from . import fast, recorder
    sig = json_sig(rec["sig"], rec["plus"], rec["times"])
    plus, times = fbuild.ASSOC[rec["plus"]], fbuild.ASSOC[rec["times"]]
    trans = fbuild.Builder().build(rec["trans"])
    time = Variable("time", Bint[rec["T"]])
    gv = frozenset(["b"]) if rec["glob"] else frozenset()
    out = []
    try:
        fast_r = sarkka_bilmes_product(plus, times, trans, time, gv, num_periods=rec["periods"])
        naive_r = naive_sarkka_bilmes_product(plus, times, trans, time, gv)
    except Exception as e:  # noqa
        return [_verdict("C10", "declined_error", "sarkka:" + type(e).__name__, str(e)[:100], sig=sig)]
    try:
        with lazy:
            term = naive_sarkka_bilmes_product(plus, times, trans, time, gv)
        ast = fast.to_ast(term)
        g = recorder.RuleRecorder.ground(fast_r)
        if g is None:
            return [_verdict("C10", "declined_lazy", "sarkka_result_lazy", sig=sig)]
        out.append({"status": "_event", "event": {"kind": "project", "what": "sarkka_vs_naive_term", "sig": sig,
                                                  "t": ast, "lhs": ast, "_rhs": g}})
        g2 = recorder.RuleRecorder.ground(naive_r)
        out.append({"status": "_event", "event": {"kind": "project", "what": "naive_eager_vs_naive_term", "sig": sig,
                                                  "t": ast, "lhs": ast, "_rhs": g2}})
    except fast.Unrepresentable as ex:
        out.append(_verdict("C10", "skipped_unrepresentable", str(ex)[:60], sig=sig))
    except Exception as ex:  # noqa
        out.append(_verdict("C10", "declined_error", "naive_lazy:" + type(ex).__name__, str(ex)[:100], sig=sig))
    return out


# ---------------------------------------------------------------------------
# C11: adjoints

def c11(rec):
    """C11: forward value equals ordinary evaluation; the adjoint returned for each leaf
    equals the semiring derivative TLC computed (structural derivative, checked in the model
    against the definitional form); with and without the optimizer."""
    from funsor.adjoint import forward_backward
    from funsor.optimizer import apply_optimizer
    exp = rec["exp"]
    plus, times = fbuild.ASSOC[rec["plus"]], fbuild.ASSOC[rec["times"]]
    out = []
    cache = {}
    b = fbuild.Builder()
    b.leaf_cache = cache
    def has_sub(t):
        if isinstance(t, dict):
            return t.get("c") == "Sub" or any(has_sub(v) for v in t.values())
        if isinstance(t, list):
            return any(has_sub(v) for v in t)
        return False
    try:
        # index substitutions of a leaf stay on the tape only if they are built as terms
        with (reflect if has_sub(rec["t"]) else lazy):
            x = b.build(rec["t"])
    except Exception as e:  # noqa
        return [_verdict("C11", "declined_error", "build:" + type(e).__name__)]
    from funsor.adjoint import AdjointTape

    def plain():
        return forward_backward(plus, times, x)

    def optimized():
        # the optimizer runs INSIDE the tape, so the renamings it introduces are recorded
        with AdjointTape() as tape:
            fwd = apply_optimizer(x)
        return fwd, tape.adjoint(plus, times, fwd)
    # The optimizer's unfold pass evaluates index substitutions of leaves before the tape sees
    # them (leaf identity is lost), so the optimised variant is judged only without them.
    variants = (("plain", plain),) if has_sub(rec["t"]) else (("plain", plain), ("optimized", optimized))
    for vname, fn in variants:
        try:
            forward, backward = fn()
        except Exception as e:  # noqa
            out.append(_verdict("C11", "declined_error", "%s_tape:%s" % (vname, type(e).__name__), str(e)[:80]))
            continue
        out.append(_eval_check(forward, exp, "C11", vname + "_forward", need_output=False))
        for a in rec["adj"]:
            if not a["exp"].get("defined", True):
                out.append(_verdict("C11", "skipped_undefined"))
                continue
            leaf = cache.get(repr(a["leaf"]))
            if leaf is None:
                out.append(_verdict("C11", "machinery", "leaf_not_built"))
                continue
            try:
                adj = backward[leaf]
            except Exception as e:  # noqa
                out.append(_verdict("C11", "declined_error", "%s_lookup:%s" % (vname, type(e).__name__)))
                continue
            v = _eval_check(adj, a["exp"], "C11", vname + "_adjoint", need_output=False)
            if v["status"] == "mismatch":
                feats = []
                if adjoint_broadcast_feature(rec["t"], rec["plus"]):
                    feats.append("broadcast_under_reduction")
                if _leaf_occurrences(rec["t"], a["leaf"]) > 1:
                    feats.append("repeated_leaf")
                if nested_same_binder_feature(rec["t"]):
                    feats.append("nested_same_binder")
                if identity_subs_feature(rec["t"]):
                    feats.append("identity_subs")
                if rename_onto_input_feature(rec["t"]):
                    feats.append("rename_onto_input")
                v["feature"] = "+".join(feats) or "none"
            out.append(v)
    return out


def _free(t):
    """free input names of a sum-product AST (Ten / Num / Bin / Red / Con only)"""
    c = t["c"]
    if c == "Ten":
        return {n for n, _ in t["ins"]}
    if c == "Num":
        return set()
    if c == "Bin":
        return _free(t["l"]) | _free(t["r"])
    if c == "Red":
        return _free(t["arg"]) - {n for n, _ in t["vars"]}
    if c == "Con":
        s = set()
        for x in t["terms"]:
            s |= _free(x)
        return s - {n for n, _ in t["vars"]}
    return set()


def _leaf_occurrences(t, leaf):
    if isinstance(t, dict):
        if t == leaf:
            return 1
        return sum(_leaf_occurrences(v, leaf) for v in t.values())
    if isinstance(t, list):
        return sum(_leaf_occurrences(v, leaf) for v in t)
    return 0


def adjoint_broadcast_feature(t, plus):
    """True iff somewhere a variable is reduced over a subterm that does not mention it:
    (a) the reduced variable is absent from the whole body, or (b) the body contains a
    plus-combination one of whose operands lacks the variable.  There the derivative has
    to account for the multiplicity of the broadcast operand."""
    def plus_operands_lacking(b, v):
        if b["c"] == "Bin":
            if b["op"]["n"] == plus and (v not in _free(b["l"]) or v not in _free(b["r"])):
                return True
            return plus_operands_lacking(b["l"], v) or plus_operands_lacking(b["r"], v)
        if b["c"] == "Con":
            if b["bin"] == plus and any(v not in _free(x) for x in b["terms"]):
                return True
            return any(plus_operands_lacking(x, v) for x in b["terms"])
        if b["c"] == "Red":
            return plus_operands_lacking(b["arg"], v)
        return False

    c = t["c"]
    if c in ("Ten", "Num"):
        return False
    if c == "Bin":
        return adjoint_broadcast_feature(t["l"], plus) or adjoint_broadcast_feature(t["r"], plus)
    if c == "Red":
        body, kids = t["arg"], [t["arg"]]
    elif c == "Con":
        body, kids = {"c": "Con", "red": "nullop", "bin": t["bin"], "vars": [], "terms": t["terms"]}, t["terms"]
    else:
        return False
    for v, _ in t["vars"]:
        if v not in _free(body) or plus_operands_lacking(body, v):
            return True
    return any(adjoint_broadcast_feature(k, plus) for k in kids)


# ---------------------------------------------------------------------------
# C12: Gaussian pointwise algebra

def c12(rec):
    """C12: every pointwise operation on Gaussian funsors evaluates, at every sample point
    of the remaining inputs, to the explicit quadratic log-density TLC computed.  Real
    numbers are substituted both as python floats and as 0-d Tensors."""
    exp = rec["exp"]
    out = []
    want = {n for n, _ in exp["ins"]}
    def multi_sub(t):
        if isinstance(t, dict):
            return (t.get("c") == "Sub" and len(t["subs"]) > 1) or any(multi_sub(v) for v in t.values())
        if isinstance(t, list):
            return any(multi_sub(v) for v in t)
        return False
    variants = [(False, "call", "eager"), (True, "call", "tensor_arg")]
    if multi_sub(rec["t"]):
        variants.append((True, "reversed", "reversed_pairs"))   # Subs(g, pairs) in reverse input order
    for as_tensor, order, what in variants:
        b = fbuild.Builder()
        b.real_num_as_tensor = as_tensor
        b.subs_pair_order = order
        try:
            r = b.build(rec["t"])
        except Exception as e:  # noqa
            out.append(_verdict("C12", "declined_error", what + ":" + type(e).__name__, str(e)[:100]))
            continue
        extra = [n for n in r.inputs if n not in want]
        if extra:
            out.append(_verdict("C12", "mismatch", what + "_extra_input", extra))
            continue
        out.append(_eval_check(r, exp, "C12", what, need_output=True))
    return out


# ---------------------------------------------------------------------------
# C13: Gaussian marginals, normalisers, integrals

def _cv(val):
    """q + (k/2) log(2 pi) - 1/2 log p  ->  float"""
    import math
    from . import vals
    return vals.scalar_to_float(val["q"]) + 0.5 * val["k"] * math.log(2 * math.pi) - 0.5 * math.log(vals.scalar_to_float(val["p"]))


def c13(rec):
    """C13: marginals over every subset of real inputs, in one and in two stages, the
    log-normaliser and Integrate equal the closed forms TLC computed from the dense
    precision / information vector / constant; full-rank cases must complete; a block that
    carries too little information must raise or give a non-finite value."""
    import itertools
    from funsor import ops as fops
    from funsor.integrate import Integrate
    from funsor.terms import Variable
    from . import vals
    sig = "leaf%s red{%s}" % (rec["sig"]["leaf"], ",".join(sorted(rec["sig"]["red"])))
    out = []
    g = fbuild.Builder().build(rec["leaf"])
    red = list(rec["red"])
    batch = rec["batch"]
    keep = rec["keep"]
    bsizes = [d["dt"] for _, d in batch]
    bpoints = list(itertools.product(*[range(s) for s in bsizes]))
    kpoints = list(itertools.product(*[[vals.arr_to_np(p) for p in pts] for pts in rec["pts"]]))
    all_ok = all(cell["ok"] for row in rec["marg"] for cell in row)

    def V(msg, st="mismatch", det=None):
        return _verdict("C13", st, msg, det, sig=sig)

    def evaluate(r, bi, kp):
        subs = {n: int(i) for (n, _), i in zip(batch, bi)}
        for (n, d), v in zip(keep, kp):
            subs[n] = Tensor(np.array(v, dtype=np.float64))
        subs = {k: v for k, v in subs.items() if k in r.inputs}
        e = r(**subs) if subs else r
        if not isinstance(e, (Tensor, Number)) or e.inputs:
            return None
        return float(np.asarray(e.data))

    def check_marginal(what, fn):
        try:
            r = fn()
        except Exception as e:  # noqa
            if all_ok:
                out.append(V(what + "_incomplete_on_full_rank", det="%s: %s" % (type(e).__name__, str(e)[:100])))
            else:
                out.append(V(what + ":" + type(e).__name__, st="declined_error"))
            return
        bad = None
        n = 0
        for b_ix, bi in enumerate(bpoints):
            for k_ix, kp in enumerate(kpoints):
                cell = rec["marg"][b_ix][k_ix]
                try:
                    got = evaluate(r, bi, kp)
                except Exception as e:  # noqa
                    got = None
                    if cell["ok"]:
                        bad = (what + "_evaluation_failed", str(e)[:100])
                if got is None:
                    if cell["ok"] and bad is None:
                        bad = (what + "_lazy_on_full_rank", type(r).__name__)
                    continue
                if cell["ok"]:
                    want = _cv(cell["val"])
                    n += 1
                    if not vals.close(got, want):
                        bad = (what + "_value", {"batch": list(bi), "point": [np.asarray(v).tolist() for v in kp],
                                                 "got": got, "want": want})
                else:
                    if np.isfinite(got):
                        bad = (what + "_finite_value_for_singular_block", {"batch": list(bi), "got": got})
        if bad:
            out.append(V(bad[0], det=bad[1]))
        else:
            out.append(V(None, st="agree"))

    rv = frozenset(red)
    check_marginal("reduce", lambda: g.reduce(fops.logaddexp, rv))
    if len(red) > 1:
        for first in red:
            check_marginal("two_stage", lambda: g.reduce(fops.logaddexp, frozenset([first])).reduce(
                fops.logaddexp, rv - {first}))
    # everything about the full normaliser when all reals are reduced
    if not keep:
        for b_ix, bi in enumerate(bpoints):
            full = rec["full"][b_ix]
            if not full["ok"]:
                continue
            want = _cv(full["logz"])
            try:
                if type(g).__name__ != "Gaussian":      # compressed: a Gaussian plus a Tensor
                    raise LookupError("not a bare Gaussian")
                ln = g.log_normalizer
                got = float(np.asarray(ln.data)[tuple(bi[list(ln.inputs).index(n)] for n in ln.inputs)]) if ln.inputs else float(ln.data)
                if not vals.close(got, want):
                    out.append(V("log_normalizer_value", det={"batch": list(bi), "got": got, "want": want}))
                else:
                    out.append(V(None, st="agree"))
            except LookupError:
                pass
            except Exception as e:  # noqa
                out.append(V("log_normalizer_incomplete", det="%s: %s" % (type(e).__name__, str(e)[:100])))
            # Integrate(g, g, all reals) = Z * E_g[g]
            try:
                gb = g(**{n: int(i) for (n, _), i in zip(batch, bi)}) if batch else g
                r = Integrate(gb, gb, rv)
                if isinstance(r, (Tensor, Number)) and not r.inputs:
                    want_e = float(np.exp(want)) * vals.scalar_to_float(full["equad"])
                    if not vals.close(float(np.asarray(r.data)), want_e):
                        out.append(V("integrate_gaussian_value", det={"batch": list(bi), "got": float(np.asarray(r.data)), "want": want_e}))
                    else:
                        out.append(V(None, st="agree"))
                else:
                    out.append(V("integrate:lazy", st="declined_lazy"))
            except Exception as e:  # noqa
                out.append(V("integrate:" + type(e).__name__, st="declined_error"))
            # Integrate(g, x, all reals) = Z * mean_x  for each real input x
            off = 0
            for n, d in rec["leaf"]["ins"]:
                if d["dt"] != 0:
                    continue
                size = int(np.prod(d["sh"])) if d["sh"] else 1
                want_m = np.array([vals.scalar_to_float(s) for s in full["mean"][off:off + size]]).reshape(tuple(d["sh"])) * float(np.exp(want))
                off += size
                try:
                    gb = g(**{m: int(i) for (m, _), i in zip(batch, bi)}) if batch else g
                    r = Integrate(gb, Variable(n, fbuild.dom_of(d)), rv)
                    if isinstance(r, (Tensor, Number)) and not r.inputs:
                        if not vals.close(np.asarray(r.data, dtype=float), want_m):
                            out.append(V("integrate_variable_value", det={"var": n, "got": np.asarray(r.data).tolist(), "want": want_m.tolist()}))
                        else:
                            out.append(V(None, st="agree"))
                    else:
                        out.append(V("integrate_var:lazy", st="declined_lazy"))
                except Exception as e:  # noqa
                    out.append(V("integrate_var:" + type(e).__name__, st="declined_error"))
    # more Integrate forms with closed forms from TLC's per-component values:
    #  (a) a negated Gaussian integrand: Integrate(g, -g, reals) = -(Z E[g])
    #  (b) a PLAIN batched Gaussian measure whose integer inputs are reduced in the same call
    #      (no log-weights): sum_b Z_b E_b[.]  (linear space: the components are ADDED)
    if not keep and all(f["ok"] for f in rec["full"]):
        try:
            for b_ix, bi in enumerate(bpoints):
                full = rec["full"][b_ix]
                sub = {n: int(i) for (n, _), i in zip(batch, bi)}
                gb = g(**sub) if sub else g
                r = Integrate(gb, -gb, rv)
                want_e = -float(np.exp(_cv(full["logz"]))) * vals.scalar_to_float(full["equad"])
                if isinstance(r, (Tensor, Number)) and not r.inputs:
                    got = float(np.asarray(r.data))
                    out.append(V(None, st="agree") if vals.close(got, want_e) else
                               V("integrate_negated_gaussian_value", det={"batch": list(bi), "got": got, "want": want_e}))
                else:
                    out.append(V("integrate_neg:lazy", st="declined_lazy"))
            if batch:
                allv = frozenset(red) | frozenset(n for n, _ in batch)
                zs_ = np.array([np.exp(_cv(f["logz"])) for f in rec["full"]])
                want_q = float(np.sum(zs_ * np.array([vals.scalar_to_float(f["equad"]) for f in rec["full"]])))
                try:
                    r = Integrate(g, g, allv)
                    if isinstance(r, (Tensor, Number)) and not r.inputs:
                        got = float(np.asarray(r.data))
                        out.append(V(None, st="agree") if vals.close(got, want_q) else
                                   V("integrate_batched_gaussian_value", det={"got": got, "want": want_q}))
                    else:
                        out.append(V("integrate_batched:lazy", st="declined_lazy"))
                except Exception as e:  # noqa  (KeyError on the pinned tree: a decline)
                    out.append(V("integrate_batched:" + type(e).__name__, st="declined_error"))
                off_ = 0
                for n, d in rec["leaf"]["ins"]:
                    if d["dt"] != 0:
                        continue
                    size = int(np.prod(d["sh"])) if d["sh"] else 1
                    means = np.array([[vals.scalar_to_float(s_) for s_ in f["mean"][off_:off_ + size]] for f in rec["full"]])
                    want_m = np.sum(zs_[:, None] * means, axis=0).reshape(tuple(d["sh"]))
                    off_ += size
                    r = Integrate(g, Variable(n, fbuild.dom_of(d)), allv)
                    if isinstance(r, (Tensor, Number)) and not r.inputs:
                        out.append(V(None, st="agree") if vals.close(np.asarray(r.data, dtype=float), want_m) else
                                   V("integrate_batched_variable_value", det={"var": n, "got": np.asarray(r.data).tolist(), "want": want_m.tolist()}))
                    else:
                        out.append(V("integrate_batched_var:lazy", st="declined_lazy"))
        except Exception as e:  # noqa
            out.append(V("integrate_more:" + type(e).__name__, st="declined_error", det=str(e)[:100]))
    # mixture: reduce the integer inputs together with the real block; TLC gives the
    # per-component marginals, the harness only takes their log-sum-exp
    if batch and all_ok:
        names = frozenset(red) | frozenset(n for n, _ in batch)
        try:
            r = g.reduce(fops.logaddexp, names)
            bad = None
            for k_ix, kp in enumerate(kpoints):
                comps = np.array([_cv(rec["marg"][b_ix][k_ix]["val"]) for b_ix in range(len(bpoints))])
                want = float(np.logaddexp.reduce(comps))
                got = evaluate(r, (), kp) if True else None
                if got is None:
                    bad = ("mixture_lazy_on_full_rank", type(r).__name__)
                elif not vals.close(got, want):
                    bad = ("mixture_value", {"point": [np.asarray(v).tolist() for v in kp], "got": got, "want": want})
            out.append(V(bad[0], det=bad[1]) if bad else V(None, st="agree"))
        except Exception as e:  # noqa
            out.append(V("mixture_incomplete_on_full_rank", det="%s: %s" % (type(e).__name__, str(e)[:100])))
    # Integrate against a MIXTURE measure (log-weights + batched Gaussian) over the reals and
    # the integer inputs:  sum_b w_b Z_b E_b[f]  with per-component values from TLC
    if batch and not keep and all(f["ok"] for f in rec["full"]):
        import itertools as _it
        try:
            from collections import OrderedDict as _OD
            lw = np.log(1.0 + np.arange(int(np.prod(bsizes)), dtype=np.float64)).reshape(tuple(bsizes))
            wt = Tensor(lw, _OD((n, fbuild.dom_of(d)) for n, d in batch))
            m = wt + g
            allvars = frozenset(red) | frozenset(n for n, _ in batch)
            zs = np.array([np.exp(_cv(f["logz"])) for f in rec["full"]])
            ws = np.exp(lw.reshape(-1))
            # f = the Gaussian itself at the same batch index -> sum_b w_b Z_b E_b[g_b]
            want_q = float(np.sum(ws * zs * np.array([vals.scalar_to_float(f["equad"]) for f in rec["full"]])))
            r = Integrate(m, g, allvars)
            if isinstance(r, (Tensor, Number)) and not r.inputs:
                got = float(np.asarray(r.data))
                out.append(V(None, st="agree") if vals.close(got, want_q) else
                           V("integrate_mixture_gaussian_value", det={"got": got, "want": want_q}))
            else:
                out.append(V("integrate_mixture:lazy", st="declined_lazy"))
            off = 0
            for n, d in rec["leaf"]["ins"]:
                if d["dt"] != 0:
                    continue
                size = int(np.prod(d["sh"])) if d["sh"] else 1
                means = np.array([[vals.scalar_to_float(s) for s in f["mean"][off:off + size]] for f in rec["full"]])
                want_m = np.sum((ws * zs)[:, None] * means, axis=0).reshape(tuple(d["sh"]))
                off += size
                r = Integrate(m, Variable(n, fbuild.dom_of(d)), allvars)
                if isinstance(r, (Tensor, Number)) and not r.inputs:
                    out.append(V(None, st="agree") if vals.close(np.asarray(r.data, dtype=float), want_m) else
                               V("integrate_mixture_variable_value", det={"var": n, "got": np.asarray(r.data).tolist(), "want": want_m.tolist()}))
                else:
                    out.append(V("integrate_mixture_var:lazy", st="declined_lazy"))
        except Exception as e:  # noqa
            out.append(V("integrate_mixture:" + type(e).__name__, st="declined_error", det=str(e)[:100]))
    # moment matching: the mixture over the integer inputs is replaced by ONE Gaussian that must
    # preserve total mass, mean and covariance (component moments are TLC's exact values)
    if batch and not keep and all(f["ok"] for f in rec["full"]):
        try:
            from collections import OrderedDict as _OD2
            from funsor.interpretations import moment_matching
            lw = np.log(1.0 + np.arange(int(np.prod(bsizes)), dtype=np.float64)).reshape(tuple(bsizes))
            wt = Tensor(lw, _OD2((n, fbuild.dom_of(d)) for n, d in batch))
            bnames = frozenset(n for n, _ in batch)
            with moment_matching:
                mm = (wt + g).reduce(fops.logaddexp, bnames)
            zs = np.array([np.exp(_cv(f["logz"])) for f in rec["full"]]) * np.exp(lw.reshape(-1))
            Z = zs.sum()
            p = zs / Z
            means = np.array([[vals.scalar_to_float(s) for s in f["mean"]] for f in rec["full"]])
            covs = np.array([[[vals.scalar_to_float(x) for x in row] for row in f["cov"]] for f in rec["full"]])
            mean = (p[:, None] * means).sum(0)
            second = (p[:, None, None] * (covs + means[:, :, None] * means[:, None, :])).sum(0)
            cov = second - mean[:, None] * mean[None, :]
            if mm.inputs.keys() & bnames:
                out.append(V("moment_matching:kept_integer_input", st="declined_lazy"))
            else:
                mass = mm.reduce(fops.logaddexp, rv)
                got_mass = float(np.asarray(mass.data)) if isinstance(mass, (Tensor, Number)) else None
                gterm = [t_ for t_ in getattr(mm, "terms", (mm,)) if type(t_).__name__ == "Gaussian"]
                if got_mass is None or len(gterm) != 1:
                    out.append(V("moment_matching:unexpected_form", st="declined_lazy", det=type(mm).__name__))
                elif not vals.close(got_mass, float(np.log(Z))):
                    out.append(V("moment_matching_mass", det={"got": got_mass, "want": float(np.log(Z))}))
                else:
                    G = gterm[0]
                    # moments of the matched Gaussian in ITS input order; reorder to the leaf's
                    order, off = [], {}
                    pos = 0
                    for n, d in rec["leaf"]["ins"]:
                        if d["dt"] == 0:
                            size = int(np.prod(d["sh"])) if d["sh"] else 1
                            off[n] = list(range(pos, pos + size))
                            pos += size
                    for n, d in G.inputs.items():
                        if d.dtype == "real":
                            order.extend(off[n])
                    P = G.prec_sqrt @ np.swapaxes(G.prec_sqrt, -1, -2)
                    C = np.linalg.inv(P)
                    m_ = C @ (G.prec_sqrt @ G.white_vec[..., None])[..., 0]
                    want_mean, want_cov = mean[order], cov[np.ix_(order, order)]
                    if not vals.close(m_, want_mean):
                        out.append(V("moment_matching_mean", det={"got": m_.tolist(), "want": want_mean.tolist()}))
                    elif not vals.close(C, want_cov):
                        out.append(V("moment_matching_covariance", det={"got": C.tolist(), "want": want_cov.tolist()}))
                    else:
                        out.append(V(None, st="agree"))
        except Exception as e:  # noqa
            out.append(V("moment_matching:" + type(e).__name__, st="declined_error", det=str(e)[:100]))
    # moment matching that collapses only SOME of the integer inputs: per kept index the matched
    # Gaussian must carry the mass, mean and covariance of the mixture over the collapsed ones
    if len(batch) >= 2 and not keep and all(f["ok"] for f in rec["full"]):
        import itertools as _it3
        from collections import OrderedDict as _OD3
        from funsor.interpretations import moment_matching
        bn = [n for n, _ in batch]
        lw = np.log(1.0 + np.arange(int(np.prod(bsizes)), dtype=np.float64)).reshape(tuple(bsizes))
        wt = Tensor(lw, _OD3((n, fbuild.dom_of(d)) for n, d in batch))
        D = len(rec["full"][0]["mean"])
        zs_all = (np.array([np.exp(_cv(f["logz"])) for f in rec["full"]]).reshape(tuple(bsizes))) * np.exp(lw)
        means_all = np.array([[vals.scalar_to_float(s) for s in f["mean"]] for f in rec["full"]]).reshape(tuple(bsizes) + (D,))
        covs_all = np.array([[[vals.scalar_to_float(x) for x in row] for row in f["cov"]] for f in rec["full"]]).reshape(tuple(bsizes) + (D, D))
        off, pos = {}, 0
        for n, d in rec["leaf"]["ins"]:
            if d["dt"] == 0:
                size = int(np.prod(d["sh"])) if d["sh"] else 1
                off[n] = list(range(pos, pos + size))
                pos += size
        for r_ in range(1, len(bn)):
            for coll in _it3.combinations(bn, r_):
                what = "moment_matching_partial{%s}" % ",".join(coll)
                try:
                    with moment_matching:
                        mm = (wt + g).reduce(fops.logaddexp, frozenset(coll))
                    kept = [n for n in bn if n not in coll]
                    if set(mm.inputs) & set(coll) or not set(kept) <= set(mm.inputs):
                        out.append(V(what + ":inputs", st="declined_lazy", det=sorted(mm.inputs)))
                        continue
                    gterm = [t_ for t_ in getattr(mm, "terms", (mm,)) if type(t_).__name__ == "Gaussian"]
                    mass = mm.reduce(fops.logaddexp, rv)
                    if len(gterm) != 1 or not isinstance(mass, Tensor):
                        out.append(V(what + ":unexpected_form", st="declined_lazy", det=type(mm).__name__))
                        continue
                    G = gterm[0]
                    order = []
                    for n, d in G.inputs.items():
                        if d.dtype == "real":
                            order.extend(off[n])
                    gints = [n for n, d in G.inputs.items() if d.dtype != "real"]
                    P = G.prec_sqrt @ np.swapaxes(G.prec_sqrt, -1, -2)
                    C = np.linalg.inv(P)
                    m_ = (C @ (G.prec_sqrt @ G.white_vec[..., None]))[..., 0]
                    axes = tuple(bn.index(n) for n in coll)
                    bad = None
                    for kidx in _it3.product(*[range(bsizes[bn.index(n)]) for n in kept]):
                        sel = [slice(None)] * len(bn)
                        for n, i in zip(kept, kidx):
                            sel[bn.index(n)] = i
                        zs = zs_all[tuple(sel)].reshape(-1)
                        means = means_all[tuple(sel)].reshape(-1, D)
                        covs = covs_all[tuple(sel)].reshape(-1, D, D)
                        Z = zs.sum()
                        pr = zs / Z
                        mean = (pr[:, None] * means).sum(0)
                        cov = (pr[:, None, None] * (covs + means[:, :, None] * means[:, None, :])).sum(0) - mean[:, None] * mean[None, :]
                        at = dict(zip(kept, kidx))
                        got_mass = float(np.asarray(mass(**{k: v for k, v in at.items() if k in mass.inputs}).data))
                        gi = tuple(at[n] for n in gints)
                        if not vals.close(got_mass, float(np.log(Z))):
                            bad = (what + "_mass", {"at": at, "got": got_mass, "want": float(np.log(Z))})
                        elif not vals.close(m_[gi], mean[order]):
                            bad = (what + "_mean", {"at": at, "got": m_[gi].tolist(), "want": mean[order].tolist()})
                        elif not vals.close(C[gi], cov[np.ix_(order, order)]):
                            bad = (what + "_covariance", {"at": at, "got": C[gi].tolist(), "want": cov[np.ix_(order, order)].tolist()})
                    out.append(V(bad[0], det=bad[1]) if bad else V(None, st="agree"))
                except Exception as e:  # noqa
                    out.append(V(what + ":" + type(e).__name__, st="declined_error", det=str(e)[:100]))
    # Integrate(g, g', all reals) where g' is the SAME Gaussian with its inputs listed in another
    # order (reversed): the value may not depend on the order in which an operand lists its inputs
    if not keep and all(f["ok"] for f in rec["full"]) and len(rec["leaf"]["ins"]) >= 2:
        try:
            leaf = rec["leaf"]
            nb = int(np.prod(bsizes)) if bsizes else 1
            rdims = [(n, int(np.prod(d["sh"])) if d["sh"] else 1) for n, d in leaf["ins"] if d["dt"] == 0]
            Dm = sum(k for _, k in rdims)
            rk = leaf["rank"]
            S = np.array(leaf["S"], dtype=object).reshape(tuple(bsizes) + (Dm, rk, 3))
            W = np.array(leaf["w"], dtype=object).reshape(tuple(bsizes) + (rk, 3))
            new_ins = list(reversed(leaf["ins"]))
            # permute batch axes and the rows (real coordinates) of S accordingly
            old_b = [n for n, d in leaf["ins"] if d["dt"] > 0 and not d["sh"]]
            new_b = [n for n, d in new_ins if d["dt"] > 0 and not d["sh"]]
            perm = [old_b.index(n) for n in new_b]
            S2 = np.transpose(S, perm + [len(old_b), len(old_b) + 1, len(old_b) + 2])
            W2 = np.transpose(W, perm + [len(old_b), len(old_b) + 1])
            starts, pos = {}, 0
            for n, k in rdims:
                starts[n] = (pos, k)
                pos += k
            rows = []
            for n, d in new_ins:
                if d["dt"] == 0:
                    a, k = starts[n]
                    rows.extend(range(a, a + k))
            S2 = S2[..., rows, :, :]
            leaf2 = dict(leaf, ins=new_ins, S=S2.reshape(-1, 3).tolist(), w=W2.reshape(-1, 3).tolist())
            g2 = fbuild.Builder().build(leaf2)
            for b_ix, bi in enumerate(bpoints):
                full = rec["full"][b_ix]
                sub = {n: int(i) for (n, _), i in zip(batch, bi)}
                ga = g(**sub) if sub else g
                gb2 = g2(**sub) if sub else g2
                r = Integrate(ga, gb2, rv)
                want_e = float(np.exp(_cv(full["logz"]))) * vals.scalar_to_float(full["equad"])
                if isinstance(r, (Tensor, Number)) and not r.inputs:
                    got = float(np.asarray(r.data))
                    out.append(V(None, st="agree") if vals.close(got, want_e) else
                               V("integrate_gaussian_reordered_inputs_value", det={"batch": list(bi), "got": got, "want": want_e}))
                else:
                    out.append(V("integrate_reordered:lazy", st="declined_lazy"))
            if batch:
                # batched: both operands keep their integer inputs (listed in different orders)
                r = Integrate(g, g2, rv)
                bad = None
                for b_ix, bi in enumerate(bpoints):
                    full = rec["full"][b_ix]
                    want_e = float(np.exp(_cv(full["logz"]))) * vals.scalar_to_float(full["equad"])
                    got = evaluate(r, bi, ())
                    if got is None:
                        bad = ("integrate_reordered_batched:lazy", None)
                    elif not vals.close(got, want_e):
                        bad = ("integrate_gaussian_reordered_batched_value", {"batch": list(bi), "got": got, "want": want_e})
                if bad and bad[1] is None:
                    out.append(V(bad[0], st="declined_lazy"))
                else:
                    out.append(V(bad[0], det=bad[1]) if bad else V(None, st="agree"))
        except Exception as e:  # noqa
            out.append(V("integrate_reordered:" + type(e).__name__, st="declined_error", det=str(e)[:100]))
    # the same Gaussian built from the other parametrisations (exact integer P, eta from TLC)
    if not keep and all(f["ok"] for f in rec["full"]):
        from funsor.gaussian import Gaussian
        from collections import OrderedDict
        dim = len(rec["full"][0]["eta"])
        bshape = tuple(bsizes)
        P = np.array([[[vals.scalar_to_float(x) for x in row] for row in f["P"]] for f in rec["full"]]).reshape(bshape + (dim, dim))
        eta = np.array([[vals.scalar_to_float(x) for x in f["eta"]] for f in rec["full"]]).reshape(bshape + (dim,))
        mean = np.array([[vals.scalar_to_float(x) for x in f["mean"]] for f in rec["full"]]).reshape(bshape + (dim,))
        cov = np.array([[[vals.scalar_to_float(x) for x in row] for row in f["cov"]] for f in rec["full"]]).reshape(bshape + (dim, dim))
        ins = OrderedDict((n, fbuild.dom_of(d)) for n, d in rec["leaf"]["ins"])
        forms = {"info_vec+precision": dict(info_vec=eta, precision=P), "mean+precision": dict(mean=mean, precision=P),
                 "mean+covariance": dict(mean=mean, covariance=cov), "info_vec+covariance": dict(info_vec=eta, covariance=cov),
                 "mean+scale_tril": dict(mean=mean, scale_tril=np.linalg.cholesky(cov))}
        for fname, kw in forms.items():
            try:
                h = Gaussian(inputs=ins, **kw)
                r = h.reduce(fops.logaddexp, rv)
                bad = None
                for b_ix, bi in enumerate(bpoints):
                    want = _cv(rec["full"][b_ix]["logz"]) - vals.scalar_to_float(rec["full"][b_ix]["c0"])
                    got = evaluate(r, bi, ())
                    if got is None or not vals.close(got, want):
                        bad = ("parametrisation_%s_value" % fname, {"batch": list(bi), "got": got, "want": want})
                out.append(V(bad[0], det=bad[1]) if bad else V(None, st="agree"))
            except Exception as e:  # noqa
                out.append(V("parametrisation_%s:%s" % (fname, type(e).__name__), st="declined_error", det=str(e)[:80]))
    return out


# ---------------------------------------------------------------------------
# C14: sampling

def c14(rec):
    """C14 (sampling): x.sample(vars, sample_inputs) for 3 seeds, each drawn twice
    (determinism); the returned term is an event for TLC's relational sampling spec."""
    from collections import OrderedDict
    from . import fast
    sig = "mask%s pat%s vars{%s} ns%s" % (rec["sig"]["mask"], rec["sig"]["pat"], ",".join(sorted(rec["sig"]["vars"])), rec["sig"]["ns"])
    f = fbuild.Builder().build(rec["f"])
    vs = frozenset(n for n, _ in rec["vars"])
    sins = OrderedDict((n, fbuild.dom_of(d)) for n, d in rec["sample_inputs"])
    out = []
    for seed in (0, 1, 2):
        try:
            np.random.seed(seed)
            r1 = f.sample(vs, sins)
            np.random.seed(seed)
            r2 = f.sample(vs, sins)
        except Exception as e:  # noqa
            out.append(_verdict("C14", "declined_error", "sample:" + type(e).__name__, str(e)[:100], sig=sig))
            continue
        try:
            a1, a2 = fast.to_ast(r1), fast.to_ast(r2)
        except fast.Unrepresentable as ex:
            out.append(_verdict("C14", "skipped_unrepresentable", str(ex)[:60], sig=sig))
            continue
        if a1 != a2:
            out.append(_verdict("C14", "mismatch", "sample_not_deterministic", {"seed": seed}, sig=sig))
        else:
            out.append(_verdict("C14", "agree", sig=sig))
        out.append({"status": "_event", "event": {"kind": "sample", "what": "tensor_sample", "sig": sig + " seed%d" % seed,
                                                  "f": rec["f"], "vars": rec["vars"], "sample_inputs": rec["sample_inputs"],
                                                  "result": a1, "lhs": rec["f"]}})
    # the MonteCarlo interpretation of Integrate(f, g, vars): g is a position code over the
    # sampled variables; TLC accepts mass(f) * g(x) for any support point x per particle
    from funsor.integrate import Integrate
    from funsor.montecarlo import MonteCarlo
    from funsor.terms import Variable
    sizes = [d["dt"] for _, d in rec["vars"]]
    n = int(np.prod(sizes))
    g_ast = {"c": "Ten", "ins": [[nm, d["dt"]] for nm, d in rec["vars"]], "dt": 0, "sh": [],
             "data": [["R", k + 1, 1] for k in range(n)]}
    g = fbuild.Builder().build(g_ast)
    vvars = frozenset(Variable(nm, fbuild.dom_of(d)) for nm, d in rec["vars"])
    for seed in (0, 1):
        try:
            np.random.seed(seed)
            with MonteCarlo(**sins):
                r1 = Integrate(f, g, vvars)
            np.random.seed(seed)
            with MonteCarlo(**sins):
                r2 = Integrate(f, g, vvars)
            a1, a2 = fast.to_ast(r1), fast.to_ast(r2)
        except fast.Unrepresentable as ex:
            out.append(_verdict("C14", "skipped_unrepresentable", "mc:" + str(ex)[:60], sig=sig))
            continue
        except Exception as e:  # noqa
            out.append(_verdict("C14", "declined_error", "montecarlo:" + type(e).__name__, str(e)[:100], sig=sig))
            continue
        if a1 != a2:
            out.append(_verdict("C14", "mismatch", "montecarlo_not_deterministic", {"seed": seed}, sig=sig))
        else:
            out.append(_verdict("C14", "agree", sig=sig))
        out.append({"status": "_event", "event": {"kind": "mc", "what": "montecarlo_integrate", "sig": sig + " mcseed%d" % seed,
                                                  "f": rec["f"], "g": g_ast, "vars": rec["vars"],
                                                  "sample_inputs": rec["sample_inputs"], "result": a1, "lhs": rec["f"]}})
    return out



def c14gauss(rec):
    """C14 (Gaussian sampling): g.sample(red, sample_inputs) must (a) be deterministic in the
    random state, (b) carry g's inputs plus the sample inputs, (c) have, for every batch index,
    kept point and particle, total mass over the sampled variables equal to g's marginal
    (every particle carries the whole mass), and (d) be an affine image of the white noise whose
    offset is the conditional mean and whose linear part A satisfies A A' = conditional
    covariance (both computed by TLC over exact rationals, GaussOps!CondTable).  The noise
    is controlled by replacing numpy.random.randn for the duration of one call."""
    import itertools
    from collections import OrderedDict
    from funsor import ops as fops
    from funsor.domains import Bint
    from funsor.delta import Delta
    from . import vals
    sig = "leaf%s red{%s}" % (rec["sig"]["leaf"], ",".join(sorted(rec["sig"]["red"])))
    out = []

    def V(msg, st="mismatch", det=None):
        return _verdict("C14", st, msg, det, sig=sig)

    g = fbuild.Builder().build(rec["leaf"])
    red = list(rec["red"])
    rv = frozenset(red)
    batch = rec["batch"]
    keep = rec["keep"]
    bsizes = [d["dt"] for _, d in batch]
    bpoints = list(itertools.product(*[range(s) for s in bsizes]))
    kpoints = list(itertools.product(*[[vals.arr_to_np(p) for p in pts] for pts in rec["pts"]]))
    all_ok = all(cell["ok"] for row in rec["cond"] for cell in row)
    rdoms = {n: d for n, d in rec["leaf"]["ins"]}
    rsizes = [int(np.prod(rdoms[n]["sh"])) if rdoms[n]["sh"] else 1 for n in red]
    dim = sum(rsizes)

    def deltas(t, acc):
        if isinstance(t, Delta):
            for name, (point, ld) in t.terms:
                acc[name] = point
        for a in getattr(t, "_ast_values", ()):
            if isinstance(a, Funsor):
                deltas(a, acc)
            elif isinstance(a, tuple):
                for b in a:
                    if isinstance(b, Funsor):
                        deltas(b, acc)
        return acc

    def draw(sins, noise=None, seed=0):
        if noise is None:
            np.random.seed(seed)
            return g.sample(rv, sins)
        orig = np.random.randn
        np.random.randn = lambda *shape: np.broadcast_to(np.asarray(noise, dtype=np.float64), shape).copy()
        try:
            return g.sample(rv, sins)
        finally:
            np.random.randn = orig

    def point_vec(s, sins, bi, kp, particle):
        """concatenated sampled point at one batch index / kept point / particle"""
        pts = deltas(s, {})
        if set(pts) != set(red):
            raise LookupError("deltas over %s" % sorted(pts))
        subs = {n: int(i) for (n, _), i in zip(batch, bi)}
        for (n, d), v in zip(keep, kp):
            subs[n] = Tensor(np.array(v, dtype=np.float64))
        for (n, _), i in zip(sins.items(), particle):
            subs[n] = int(i)
        vec = []
        for n in red:
            p = pts[n]
            e = p(**{k: v for k, v in subs.items() if k in p.inputs})
            if not isinstance(e, (Tensor, Number)) or e.inputs:
                raise LookupError("point of %s stays lazy: %s" % (n, type(e).__name__))
            vec.extend(np.asarray(e.data, dtype=np.float64).reshape(-1).tolist())
        return np.array(vec)

    for sins in (OrderedDict(), OrderedDict([("p", Bint[3])])):
        tag = "n%d" % len(sins)
        nparts = int(np.prod([d.dtype for d in sins.values()])) if sins else 1
        particles = list(itertools.product(*[range(d.dtype) for d in sins.values()]))
        try:
            s1 = draw(sins, seed=1)
            s2 = draw(sins, seed=1)
        except Exception as e:  # noqa
            if all_ok:
                out.append(V("gaussian_sample_incomplete_on_full_rank:" + tag, det="%s: %s" % (type(e).__name__, str(e)[:100])))
            else:
                out.append(V("gaussian_sample:" + type(e).__name__, st="declined_error"))
            continue
        if not all_ok:
            out.append(V("gaussian_sample:singular_block_sampled", st="declined_lazy"))
            continue
        # (b) inputs
        want_inputs = set(g.inputs) | set(sins)
        if set(s1.inputs) != want_inputs:
            out.append(V("gaussian_sample_inputs:" + tag, det={"got": sorted(s1.inputs), "want": sorted(want_inputs)}))
            continue
        # (a) determinism and (c) mass
        bad = None
        try:
            m1 = s1.reduce(fops.logaddexp, rv)
            for b_ix, bi in enumerate(bpoints):
                for k_ix, kp in enumerate(kpoints):
                    for part in particles:
                        if not np.allclose(point_vec(s1, sins, bi, kp, part), point_vec(s2, sins, bi, kp, part), rtol=0, atol=0):
                            bad = ("gaussian_sample_not_deterministic:" + tag, {"batch": list(bi)})
                        subs = {n: int(i) for (n, _), i in zip(batch, bi)}
                        for (n, d), v in zip(keep, kp):
                            subs[n] = Tensor(np.array(v, dtype=np.float64))
                        for (n, _), i in zip(sins.items(), part):
                            subs[n] = int(i)
                        subs = {k: v for k, v in subs.items() if k in m1.inputs}
                        e = m1(**subs) if subs else m1
                        if not isinstance(e, (Tensor, Number)) or e.inputs:
                            bad = bad or ("gaussian_sample_mass_lazy:" + tag, type(e).__name__)
                            continue
                        want = _cv(rec["marg"][b_ix][k_ix]["val"])     # every particle carries the whole mass
                        got = float(np.asarray(e.data))
                        if not vals.close(got, want):
                            bad = ("gaussian_sample_mass:" + tag, {"batch": list(bi), "particle": list(part), "got": got, "want": want})
        except LookupError as e:
            out.append(V("gaussian_sample:unexpected_form", st="declined_lazy", det=str(e)[:100]))
            continue
        except Exception as e:  # noqa
            bad = ("gaussian_sample_mass_failed:" + tag, "%s: %s" % (type(e).__name__, str(e)[:100]))
        out.append(V(bad[0], det=bad[1]) if bad else V(None, st="agree"))
        # (d) affine in the noise with TLC's conditional mean and covariance
        bad = None
        try:
            s0 = draw(sins, noise=np.zeros(dim))
            sE = [draw(sins, noise=np.eye(dim)[i]) for i in range(dim)]
            mix = np.arange(1, dim + 1, dtype=np.float64) * np.array([(-1.0) ** i for i in range(dim)])
            sM = draw(sins, noise=mix)
            for b_ix, bi in enumerate(bpoints):
                for k_ix, kp in enumerate(kpoints):
                    cell = rec["cond"][b_ix][k_ix]
                    want_mean = np.array([vals.scalar_to_float(x) for x in cell["mean"]])
                    want_cov = np.array([[vals.scalar_to_float(x) for x in row] for row in cell["cov"]])
                    part = particles[-1]
                    p0 = point_vec(s0, sins, bi, kp, part)
                    A = np.stack([point_vec(sE[i], sins, bi, kp, part) - p0 for i in range(dim)], axis=1)
                    pm = point_vec(sM, sins, bi, kp, part)
                    if not vals.close(p0, want_mean):
                        bad = ("gaussian_sample_mean:" + tag, {"batch": list(bi), "got": p0.tolist(), "want": want_mean.tolist()})
                    elif not vals.close(A @ A.T, want_cov):
                        bad = ("gaussian_sample_covariance:" + tag, {"batch": list(bi), "got": (A @ A.T).tolist(), "want": want_cov.tolist()})
                    elif not vals.close(pm, p0 + A @ mix):
                        bad = ("gaussian_sample_not_affine:" + tag, {"batch": list(bi)})
        except LookupError as e:
            out.append(V("gaussian_sample:unexpected_form", st="declined_lazy", det=str(e)[:100]))
            continue
        except Exception as e:  # noqa
            bad = ("gaussian_sample_affine_failed:" + tag, "%s: %s" % (type(e).__name__, str(e)[:100]))
        out.append(V(bad[0], det=bad[1]) if bad else V(None, st="agree"))
    # a mixture (log-weights over the integer inputs + the batched Gaussian): sampling the integer
    # inputs together with the real ones must leave, for every particle, the mixture's total mass
    if batch and not keep and all_ok:
        lw = np.log(1.0 + np.arange(int(np.prod(bsizes)), dtype=np.float64)).reshape(tuple(bsizes))
        wt = Tensor(lw, OrderedDict((n, fbuild.dom_of(d)) for n, d in batch))
        mix = wt + g
        allv = rv | frozenset(n for n, _ in batch)
        want = float(np.logaddexp.reduce(np.array([_cv(rec["marg"][b_ix][0]["val"]) for b_ix in range(len(bpoints))])
                                         + lw.reshape(-1)))
        for sins in (OrderedDict(), OrderedDict([("p", Bint[4])])):
            tag = "n%d" % len(sins)
            for seed in (0, 1, 2):
                try:
                    np.random.seed(seed)
                    s1 = mix.sample(allv, sins)
                    np.random.seed(seed)
                    s2 = mix.sample(allv, sins)
                    m1 = s1.reduce(fops.logaddexp, allv)
                    m2 = s2.reduce(fops.logaddexp, allv)
                except Exception as e:  # noqa
                    out.append(V("mixture_sample:" + type(e).__name__, st="declined_error", det=str(e)[:100]))
                    continue
                if not isinstance(m1, (Tensor, Number)) or set(m1.inputs) - set(sins):
                    out.append(V("mixture_sample:lazy_mass", st="declined_lazy", det=type(m1).__name__))
                    continue
                got = np.asarray(m1.data, dtype=np.float64).reshape(-1)
                if set(s1.inputs) != set(mix.inputs) | set(sins):
                    out.append(V("mixture_sample_inputs:" + tag, det={"got": sorted(s1.inputs)}))
                elif not np.array_equal(np.asarray(m1.data), np.asarray(m2.data)) or repr(s1) != repr(s2):
                    out.append(V("mixture_sample_not_deterministic:" + tag, det={"seed": seed}))
                elif not all(vals.close(float(x), want) for x in got):
                    out.append(V("mixture_sample_mass:" + tag, det={"seed": seed, "got": got.tolist(), "want": want}))
                else:
                    out.append(V(None, st="agree"))
    return out


def c14delta(rec):
    """C14 (Delta semantics): a Delta evaluates to its log-density at the point and to minus
    infinity elsewhere; (Delta + f) reduced over the Delta's variable evaluates f at the
    point.  Values of eager evaluation vs the denotation TLC computed."""
    def has_delta(t):
        if isinstance(t, dict):
            return t.get("c") == "Delta" or any(has_delta(v) for v in t.values())
        if isinstance(t, list):
            return any(has_delta(v) for v in t)
        return False
    if not has_delta(rec["t"]):
        return []
    exp = rec["exp"]
    try:
        r = _build(rec)
    except NotImplementedError:
        # Number points: Delta.eager_subs applies ops.astype to a python bool; the same program
        # with the point as a 0-d Tensor exercises the same rules
        try:
            r = _build(rec, delta_point_as_tensor=True)
        except Exception as e:  # noqa
            return [_verdict("C14", "declined_error", type(e).__name__, str(e)[:100])]
    except Exception as e:  # noqa
        return [_verdict("C14", "declined_error", type(e).__name__, str(e)[:100])]
    v = _eval_check(r, exp, "C14", "delta", need_output=False)
    if v["status"] == "mismatch":
        def nonunit(t):
            if isinstance(t, dict):
                if t.get("c") == "Delta" and any(ld != {"c": "Num", "v": ["R", 0, 1], "dt": 0} for _, _, ld in t["terms"]):
                    return True
                return any(nonunit(x) for x in t.values())
            if isinstance(t, list):
                return any(nonunit(x) for x in t)
            return False
        v["feature"] = "reduce_of_nonunit_delta" if nonunit(rec["t"]) else "none"
    return [v]


def c14integ(rec):
    """C14 (Integrate against a point mass): programs of the delta_integ lens whose root is
    an Integrate with a Delta in its measure; the eager value vs TLC's denotation
    (sum over v of exp(measure) * integrand)."""
    t = rec["t"]
    if t.get("c") != "Integ" or '"Delta"' not in json.dumps(t["measure"]):
        return []
    return c14delta(rec)


# ---------------------------------------------------------------------------
# C20: the frame condition (nothing the harness holds is ever mutated)

def _fp_pair(hexdigest):
    v = int(hexdigest, 16)
    return [v & ((1 << 30) - 1), (v >> 30) & ((1 << 30) - 1)]


_C20_PROG = [0]


def c20(rec):
    """C20: run construction, substitution, reduction, alignment, conversion, sampling,
    optimisation, adjoint and compilation on the program with every leaf array and every
    operand / intermediate / result funsor registered in a Watch; one heap event (all
    fingerprints) per step for TLC's Heap.tla."""
    from funsor.optimizer import apply_optimizer
    w = fbuild.Watch()
    cache = {}
    events = []
    _C20_PROG[0] += 1
    prog = "%d-%d" % (__import__("os").getpid(), _C20_PROG[0])

    def snap(step, what):
        # step 0 logs the fingerprints taken when each object was first seen (at creation for
        # leaf arrays), so a mutation during the very first build is caught as well; objects
        # registered later enter with their registration fingerprint
        cur = w.initial() if step == 0 else w.snapshot()
        events.append({"kind": "heap", "prog": prog, "step": step, "what": what, "sig": what,
                       "fps": {str(i): _fp_pair(fp) for i, fp in enumerate(cur)}})

    def builder():
        b = fbuild.Builder(watch=w)
        b.leaf_cache = cache
        return b

    steps = []

    def eager_build():
        return builder().build(rec["t"])

    def lazy_build():
        with lazy:
            return builder().build(rec["t"])
    state = {}

    def run(what, fn):
        try:
            r = fn()
            if isinstance(r, Funsor):
                w.add_funsor(r, what)
            state[what] = r
        except Exception:  # noqa
            state[what] = None
        steps.append(what)
        snap(len(steps), what)

    if "t" not in rec and "f" in rec:      # a sampling problem (SampleGen): its tensor has -inf entries
        rec = dict(rec)
        rec["t"] = rec["f"]
    try:
        builder().build(rec["t"])      # registers leaves and intermediates
    except Exception:  # noqa
        pass
    # failure paths: operations that RAISE must not have changed their operands either (found by a
    # seeded fault: a "retry with jitter" fallback that wrote into the caller's precision matrix).
    # One probe per worker process is enough: its arrays join the watch of the first program.
    if _C20_PROG[0] == 1:
        from collections import OrderedDict as _OD
        from funsor.gaussian import Gaussian as _G
        sing = np.array([[1.0, 1.0], [1.0, 1.0]])
        sing_b = np.array([[[1.0, 1.0], [1.0, 1.0]], [[2.0, 0.0], [0.0, 1.0]]])
        iv, iv_b = np.array([1.0, 2.0]), np.array([[1.0, 2.0], [0.0, 1.0]])
        indef = np.array([[1.0, 2.0], [2.0, 1.0]])
        for a_ in (sing, sing_b, iv, iv_b, indef):
            w.add_array(a_, "failure_probe")
        _r2 = _OD(x=funsor.Reals[2])
        _probes = [("gaussian_singular_precision", lambda: _G(info_vec=iv, precision=sing, inputs=_r2)),
                   ("gaussian_singular_precision_batched",
                    lambda: _G(info_vec=iv_b, precision=sing_b, inputs=_OD([("b", funsor.Bint[2]), ("x", funsor.Reals[2])]))),
                   ("gaussian_indefinite_covariance", lambda: _G(mean=iv, covariance=indef, inputs=_r2)),
                   ("cholesky_singular", lambda: funsor.ops.cholesky(sing)),
                   ("cholesky_inverse_singular", lambda: funsor.ops.cholesky_inverse(sing))]
    else:
        _probes = []
    snap(0, "initial")
    for _name, _fn in _probes:
        run(_name, _fn)
    run("eager", eager_build)
    run("lazy", lazy_build)
    y = state.get("lazy")
    x = state.get("eager")
    if isinstance(y, Funsor):
        run("reinterpret", lambda: funsor.reinterpret(y))
        run("normalize", lambda: _with(normalize, lambda: funsor.reinterpret(y)))
        run("optimize", lambda: apply_optimizer(y))
        if y.inputs:
            first = next(iter(y.inputs))
            dom = y.inputs[first]
            if isinstance(dom.dtype, int) and not dom.shape:
                run("subs", lambda: y(**{first: 0}))
                run("reduce", lambda: y.reduce(funsor.ops.add if y.output.dtype == "real" else funsor.ops.max, first))
    if isinstance(x, Tensor) and x.output.dtype == "real":
        # ops that have (or could plausibly get) an in-place fast path, with the tensor on
        # either side of a python number / Number / itself; safe ops on data that has -inf
        fo = funsor.ops
        run("max_number", lambda: fo.max(x, 0.5))
        run("number_max", lambda: fo.max(0.5, x))
        run("min_number", lambda: fo.min(x, Number(0.5)))
        run("safesub", lambda: fo.safesub(x, x))
        run("safediv", lambda: fo.safediv(x, x))
        run("logaddexp_self", lambda: fo.logaddexp(x, x))
        run("sub_number", lambda: x - 1.0)
        run("abs_exp", lambda: fo.abs(x).exp())
        run("clamp_finite", lambda: x.clamp_finite())
        run("clamp_number", lambda: fo.clamp(x, -1.0, 1.0))
        run("nan_to_num_like", lambda: x.exp().log())
        if x.inputs:
            first = next(iter(x.inputs))
            run("reduce_max", lambda: x.reduce(fo.max, first))
            run("reduce_logaddexp", lambda: x.reduce(fo.logaddexp, first))
    # align of LAZY terms (a Contraction forwards to its terms and may hand back a hash-consed,
    # i.e. already held, object): the lazily built term and its normal form, to the reversed and
    # to a rotated order of their inputs (found by a seeded fault that reordered .inputs in place)
    for label in ("lazy", "normalize"):
        z = state.get(label)
        if isinstance(z, Funsor) and not isinstance(z, Tensor) and len(z.inputs) >= 2:
            zn = list(z.inputs)
            run("align_%s_reversed" % label, lambda z=z, zn=zn: z.align(tuple(reversed(zn))))
            run("align_%s_rotated" % label, lambda z=z, zn=zn: z.align(tuple(zn[1:] + zn[:1])))
    if isinstance(x, Tensor):
        names = tuple(reversed(list(x.inputs)))
        run("align", lambda: x.align(names))
        run("to_data", lambda: funsor.to_data(x, {n: -1 - i for i, n in enumerate(x.inputs)}))
        if x.output.dtype == "real" and not x.output.shape and x.inputs:
            run("sample", lambda: x.sample(frozenset([next(iter(x.inputs))])))
            run("binary_inplace_probe", lambda: x + x)
    if isinstance(y, Funsor) and y.output.dtype == "real" and not y.output.shape:
        def adj():
            from funsor.adjoint import forward_backward
            return forward_backward(funsor.ops.add, funsor.ops.mul, y)[0]
        run("adjoint", adj)

        def comp():
            from funsor.compiler import compile_funsor
            return compile_funsor(y)
        run("compile", comp)
    return [{"status": "_event", "event": e} for e in events] + [_verdict("C20", "agree")]


def _with(interp, fn):
    with interp:
        return fn()


# ---------------------------------------------------------------------------
# C06, op catalogue: find_domain vs the typing rule vs the array implementation

def _op_instance(op):
    from funsor import ops as fops
    n, p = op["n"], op["p"]
    red = {"sum": fops.SumOp, "prod": fops.ProdOp, "amax": fops.AmaxOp, "amin": fops.AminOp,
           "logsumexp": fops.LogsumexpOp, "all": fops.AllOp, "any": fops.AnyOp}
    if n in red:
        return red[n](None if p[0] == fbuild.NOAXIS else p[0], bool(p[1]))
    if n == "getslice":
        return fops.GetsliceOp(fbuild.py_index(p))
    if n == "reshape":
        return fops.ReshapeOp(tuple(p))
    if n == "getitem":
        return fops.GetitemOp(p[0])
    table = {"neg": fops.neg, "abs": fops.abs, "exp": fops.exp, "log": fops.log, "add": fops.add, "sub": fops.sub,
             "mul": fops.mul, "max": fops.max, "min": fops.min, "lt": fops.lt, "ge": fops.ge, "eq": fops.eq,
             "and": fops.and_, "or": fops.or_, "floordiv": fops.floordiv, "mod": fops.mod, "matmul": fops.matmul}
    return table[n]


def _np_arg(a, dt):
    from . import vals
    x = vals.arr_to_np(a)
    if dt == 0:
        return x
    return x.astype(np.int64)      # bounded integers (Bint[2] included) as integer arrays


def c06ops(rec):
    """C06 (catalogue): funsor.domains.find_domain(op, *domains) equals the typing rule TLC
    evaluated, and the array implementation returns exactly that shape, values equal to the
    exact result and (bounded integers) inside the declared range."""
    from funsor.domains import find_domain
    from . import vals
    c = rec["case"]
    sig = "%s%s %s/%s" % (c["op"]["n"], c["op"]["p"], c["sh"], c.get("sh2", ""))
    out = []
    try:
        op = _op_instance(c["op"])
    except Exception as e:  # noqa
        return [_verdict("C06", "declined_error", "op_instance:" + type(e).__name__, str(e)[:80], sig=sig)]
    doms = [fbuild.dom_of({"dt": c["dt"], "sh": c["sh"]})]
    args = [_np_arg(rec["a"], c["dt"])]
    if c["kind"] == "bin":
        doms.append(fbuild.dom_of({"dt": c["dt2"], "sh": c["sh2"]}))
        args.append(_np_arg(rec["b"], c["dt2"]))
    elif c["kind"] == "getitem":
        doms.append(fbuild.dom_of({"dt": c["sh"][c["op"]["p"][0]], "sh": []}))
        args.append(int(vals.scalar_to_float(rec["b"]["v"][0])))
    # equivalent spellings of a basic index must be typed and evaluated alike
    if c["op"]["n"] == "getslice":
        from funsor import ops as fops
        idx = fbuild.py_index(c["op"]["p"])
        alt = fbuild.index_variant(idx, len(c["sh"]), "ellipsis")
        try:
            d_alt = fbuild.dom_to_spec(find_domain(fops.GetsliceOp(alt), *doms))
            if d_alt != rec["dom"]:
                out.append(_verdict("C06", "mismatch", "find_domain_ellipsis", {"index": repr(alt), "got": d_alt, "want": rec["dom"]}, sig=sig))
            r_alt = np.asarray(fops.GetsliceOp(alt)(args[0]))
            if rec["defined"] and list(r_alt.shape) != rec["res"]["sh"]:
                out.append(_verdict("C06", "mismatch", "array_shape_ellipsis", {"index": repr(alt), "got": list(r_alt.shape)}, sig=sig))
        except Exception as e:  # noqa
            out.append(_verdict("C06", "declined_error", "ellipsis:" + type(e).__name__, sig=sig))
    # static rule
    try:
        d = find_domain(op, *doms)
        got = fbuild.dom_to_spec(d)
        want = rec["dom"]
        if got is None or got["sh"] != want["sh"]:
            out.append(_verdict("C06", "mismatch", "find_domain_shape", {"got": str(d), "want": want}, sig=sig))
        elif got["dt"] != want["dt"]:
            # the typing rule of the specification is the sound bound; funsor may declare another
            # dtype only if the computed values still fit it (checked below)
            out.append(_verdict("C06", "agree" if rec["defined"] and _fits(rec["res"], got) else "mismatch",
                                "find_domain_dtype", {"got": str(d), "want": want}, sig=sig))
        else:
            out.append(_verdict("C06", "agree", sig=sig))
    except NotImplementedError:
        d = None
        out.append(_verdict("C06", "declined_error", "find_domain:NotImplementedError", sig=sig))
    except Exception as e:  # noqa
        d = None
        out.append(_verdict("C06", "declined_error", "find_domain:" + type(e).__name__, str(e)[:80], sig=sig))
    # array implementation: where the exact algebra has no value (matmul beyond matrices) the
    # shape it returns must still be the static shape
    if not rec["defined"] and c["op"]["n"] == "matmul":
        try:
            r = np.asarray(op(*args))
            if list(r.shape) != rec["dom"]["sh"]:
                out.append(_verdict("C06", "mismatch", "array_shape_vs_static", {"got": list(r.shape), "want": rec["dom"]["sh"]}, sig=sig))
            else:
                out.append(_verdict("C06", "agree", sig=sig))
        except Exception as e:  # noqa
            out.append(_verdict("C06", "declined_error", "array:" + type(e).__name__, str(e)[:80], sig=sig))
    if rec["defined"]:
        try:
            if c["kind"] == "getitem":
                r = op(args[0], args[1])
            else:
                r = op(*args)
            want = vals.arr_to_np(rec["res"])
            r = np.asarray(r)
            if tuple(r.shape) != tuple(want.shape):
                out.append(_verdict("C06", "mismatch", "array_shape", {"got": list(r.shape), "want": list(want.shape)}, sig=sig))
            elif not vals.close(r.astype(np.float64), want):
                out.append(_verdict("C06", "mismatch", "array_value", {"got": r.astype(float).tolist(), "want": want.tolist()}, sig=sig))
            elif d is not None and isinstance(d.dtype, int) and r.size and r.dtype != bool and (r.min() < 0 or r.max() >= d.dtype):
                out.append(_verdict("C06", "mismatch", "array_out_of_declared_range", {"declared": str(d), "min": float(r.min()), "max": float(r.max())}, sig=sig))
            else:
                out.append(_verdict("C06", "agree", sig=sig))
        except Exception as e:  # noqa
            out.append(_verdict("C06", "declined_error", "array:" + type(e).__name__, str(e)[:80], sig=sig))
    return out


def _fits(res, dom):
    from . import vals
    x = vals.arr_to_np(res)
    if dom["dt"] == 0:
        return True
    return bool(x.size == 0 or (x.min() >= 0 and x.max() < dom["dt"]))


def c10words(rec):
    """C10 (implementation-shaped scan model): the time-slices sequential_sum_product takes
    at every halving step - read off the term it builds under `reflect` - are exactly the
    schedule of spec/ScanWords.tla (whose word invariant TLC has checked)."""
    from funsor.sum_product import sequential_sum_product
    from funsor.terms import Variable
    from funsor.domains import Bint
    from collections import OrderedDict
    from . import fast
    T = rec["T"]
    sig = "T=%d" % T

    def slices(t, acc):
        if isinstance(t, dict):
            if t.get("c") == "Slice" and t["name"].startswith("time"):
                acc.add((t["start"], t["stop"], t["step"], t["dt"]))
            for v in t.values():
                slices(v, acc)
        elif isinstance(t, list):
            for v in t:
                slices(v, acc)
        return acc
    tr = Tensor(np.arange(T * 4.0).reshape(T, 2, 2), OrderedDict(time=Bint[T], x_prev=Bint[2], x_curr=Bint[2]))
    try:
        with reflect:
            r = sequential_sum_product(funsor.ops.add, funsor.ops.mul, tr, Variable("time", Bint[T]), {"x_prev": "x_curr"})
        got = slices(fast.to_ast(r), set())
    except Exception as e:  # noqa
        return [_verdict("C10", "declined_error", "scan_schedule:" + type(e).__name__, str(e)[:100], sig=sig)]
    want = {tuple(s) for s in rec["expected_slices"]}
    if got != want:
        return [_verdict("C10", "mismatch", "scan_slice_schedule",
                         {"missing": sorted(want - got), "unexpected": sorted(got - want)}, sig=sig)]
    return [_verdict("C10", "agree", sig=sig)]


def c09calls(rec):
    """C09 (implementation-shaped model): wrap the module global `_partition` (called once per
    iteration of partial_sum_product's loop with the leaf's factors and variables) and compare
    the recorded calls, and the outcome, with one terminal state of spec/PspModel.tla.  TLC
    explores every tie-break; the check (parent) requires the real run to equal at least one."""
    import funsor.sum_product as sp
    plus, times = fbuild.ASSOC[rec["plus"]], fbuild.ASSOC[rec["times"]]
    factors = [fbuild.Builder().build(f) for f in rec["factors"]]
    elim = frozenset(rec["elim"])
    plates = frozenset(rec["plates"])
    calls = []
    orig = sp._partition

    def wrapped(terms, sum_vars):
        calls.append({"fins": sorted(sorted(t.inputs) for t in terms), "vars": sorted(sum_vars)})
        return orig(terms, sum_vars)
    sp._partition = wrapped
    try:
        try:
            sp.partial_sum_product(plus, times, factors, elim, plates)
            outcome = "done"
        except ValueError:
            outcome = "intractable"
        except Exception as e:  # noqa
            outcome = "error:" + type(e).__name__
    finally:
        sp._partition = orig
    want = [{"fins": sorted(sorted(x) for x in c["fins"]), "vars": sorted(c["vars"])} for c in rec["calls"]]
    key = _sp_sig(rec)
    if outcome == "intractable":
        want_cmp, got_cmp = want[:len(calls)], calls
    else:
        want_cmp, got_cmp = want, calls
    match = outcome == rec["outcome"] and want_cmp == got_cmp
    return [{"status": "_event", "event": {"problem": key, "match": match, "outcome": outcome,
                                           "model_outcome": rec["outcome"], "calls": calls, "model_calls": want}},
            _verdict("C09", "agree" if match else "alternative_tiebreak", sig=key)]


# ---------------------------------------------------------------------------
# C08, implementation-shaped optimizer model (spec/OptPath.tla)

def c08path(rec):
    """Force the real optimizer onto the path TLC chose (the module global `greedy` is
    replaced), record the reduced-variable set of every Contraction it builds (module
    global `Contraction` wrapped) and compare them step by step with the model's; compare
    the value with the naive denotation."""
    import funsor.optimizer as opt
    from funsor.cnf import Contraction
    from funsor.terms import Variable
    exp = rec["exp"]
    sig = "%s/%s ops=%s red=%s path=%s" % (rec["plus"], rec["times"], ["".join(n for n, _ in t["ins"]) for t in rec["terms"]],
                                           "".join(n for n, _ in rec["red"]), rec["path"])
    plus, times = fbuild.ASSOC[rec["plus"]], fbuild.ASSOC[rec["times"]]
    tensors = [fbuild.Builder().build(t) for t in rec["terms"]]
    red = frozenset(Variable(n, fbuild.dom_of(d)) for n, d in rec["red"])
    spec_ins = [frozenset(n for n, _ in t["ins"]) for t in rec["terms"]]
    recorded = {"steps": [], "seen_inputs": None}
    orig_greedy, orig_con = opt.greedy, opt.Contraction

    def forced_greedy(inputs, output, size_dict, *a, **k):
        # translate the model's positions to the order the optimizer sees its operands in
        import re as _re2
        actual = [frozenset(_re2.sub(r"__BOUND_\d+$", "", n) for n in i) for i in inputs]
        recorded["seen_inputs"] = actual
        order = []          # order[k] = actual position of the model's operand k
        used = set()
        for s in spec_ins:
            j = next(j for j, a_ in enumerate(actual) if a_ == s and j not in used)
            used.add(j)
            order.append(j)
        cur_spec = list(range(len(spec_ins)))     # model's current list (by original index / new ids)
        cur_act = list(range(len(actual)))
        # simulate both lists to translate positions
        ids_spec = list(order)                     # identity of each model position in actual ids
        act_list = list(range(len(actual)))
        next_id = len(actual)
        out = []
        for a_, b_ in rec["path"]:
            ia, ib = ids_spec[a_], ids_spec[b_]
            pa, pb = act_list.index(ia), act_list.index(ib)
            out.append((pa, pb))
            for p in sorted((pa, pb), reverse=True):
                act_list.pop(p)
            act_list.append(next_id)
            ids_spec = [x for k, x in enumerate(ids_spec) if k not in (a_, b_)] + [next_id]
            next_id += 1
        return out

    out = []
    try:
        with lazy:
            x = Contraction(plus, times, red, *tensors)
        opt.greedy = forced_greedy
        try:
            with opt.unfold:
                expr = funsor.reinterpret(x)
            # the optimize pass over a reflect base: every Contraction the rule builds stays a
            # term, so the reduced-variable set of each path step can be read off the result
            with funsor.interpretations.PrioritizedInterpretation(opt.optimize_base, reflect):
                r = funsor.reinterpret(expr)
        finally:
            opt.greedy = orig_greedy
        import re as _re

        def collect(t):
            if isinstance(t, Funsor):
                if type(t).__name__ == "Contraction" and len(t.terms) >= 2:
                    for c in t.terms:
                        collect(c)
                    recorded["steps"].append(sorted(_re.sub(r"__BOUND_\d+$", "", v.name) for v in t.reduced_vars))
                elif type(t).__name__ in ("Reduce",):
                    collect(t.arg)
                elif type(t).__name__ == "Contraction":
                    for c in t.terms:
                        collect(c)
        collect(r)
        r = funsor.reinterpret(r)
    except Exception as e:  # noqa
        return [_verdict("C08", "declined_error", "optpath:" + type(e).__name__, str(e)[:120], sig=sig)]
    if recorded["seen_inputs"] is None:
        return [_verdict("C08", "declined_lazy", "optimizer_not_reached", sig=sig)]
    want = [sorted(s) for s in rec["steps"]]
    if sorted(recorded["steps"]) != sorted(want):
        out.append(_verdict("C08", "mismatch", "optimizer_step_reductions", {"got": recorded["steps"], "want": want}, sig=sig))
    v = _eval_check(r, exp, "C08", "optpath", need_output=False)
    v["sig"] = sig
    out.append(v)
    return out
