"""Replay modes: how a TermMachine record is executed and which property's
clauses are evaluated on it (attribution: one property per verdict)."""
import numpy as np

import funsor
from funsor.interpretations import eager, lazy, normalize, reflect
from funsor.tensor import Tensor
from funsor.terms import Funsor, Number

from . import compare, fbuild


def _build(rec, interp=None, rename_as_str=False, watch=None):
    b = fbuild.Builder(watch=watch)
    b.rename_as_str = rename_as_str
    if interp is None:
        return b.build(rec["t"])
    with interp:
        return b.build(rec["t"])


def c01(rec):
    """C01: default (eager) evaluation returns the specified value; may decline,
    except on the ground core fragment where it must complete."""
    exp = rec["exp"]
    try:
        r = _build(rec)
    except Exception as e:  # noqa
        if exp["core"]:
            return [{"prop": "C01", "status": "mismatch", "clause": "core_incomplete",
                     "detail": "%s: %s" % (type(e).__name__, str(e)[:200])}]
        return [{"prop": "C01", "status": "declined_error", "clause": type(e).__name__}]
    st, cl, det = compare.compare_values(r, exp)
    if st in ("declined_lazy", "declined_error") and exp["core"]:
        return [{"prop": "C01", "status": "mismatch", "clause": "core_incomplete",
                 "detail": "result is %s (%s)" % (type(r).__name__, cl)}]
    if st == "agree" and exp["core"] and not isinstance(r, (Tensor, Number)):
        return [{"prop": "C01", "status": "mismatch", "clause": "core_incomplete",
                 "detail": "result is lazy %s" % type(r).__name__}]
    return [{"prop": "C01", "status": st, "clause": cl, "detail": det}]
