"""Running TLC and reading what it prints."""
import json
import os
import re
import shutil
import subprocess
import tempfile
import time

VERIF = os.path.dirname(os.path.dirname(os.path.abspath(__file__)))
SPEC = os.path.join(VERIF, "spec")
BUILD = os.path.join(VERIF, "build")
JAR = "/opt/veriftools/tla/tla2tools.jar:/opt/veriftools/tla/CommunityModules-deps.jar"


class TLCError(Exception):
    pass


def _stage(workdir):
    os.makedirs(workdir, exist_ok=True)
    for root, _, files in os.walk(SPEC):
        for f in files:
            if f.endswith(".tla") or f.endswith(".cfg"):
                shutil.copy(os.path.join(root, f), os.path.join(workdir, f))


def parse_line(line):
    """A PrintT(ToJson(..)) line is a TLA+ string literal holding JSON."""
    line = line.strip()
    if line.startswith('"{') or line.startswith('"['):
        return json.loads(json.loads(line))
    return None


_STATS = re.compile(r"(\d+) states generated, (\d+) distinct states found, (\d+) states left on queue")


class TLCRun:
    """Run `tlc` on module (with module.cfg or cfg) inside a private work dir.

    Iterating yields every JSON record printed by the spec; afterwards
    .generated/.distinct/.ok/.error/.coverage are set."""

    def __init__(self, module, cfg=None, workers=16, env=None, args=(), simulate=None,
                 timeout=3600, extra_files=None, keep=False, deadlock=False, heap=None):
        self.module = module
        self.cfg = cfg or module
        self.workers = workers
        self.env = env or {}
        self.args = list(args)
        self.simulate = simulate
        self.timeout = timeout
        self.extra_files = extra_files or {}
        self.generated = 0
        self.distinct = 0
        self.ok = False
        self.error = None
        self.output_tail = []
        self.keep = keep
        self.wall = 0.0
        self.messages = []
        # many single-worker judges run side by side: keep their JVMs small
        self.heap = heap or ("2g" if workers == 1 else "8g")

    def __iter__(self):
        for line in self.raw_lines():
            yield parse_line(line)

    def raw_lines(self):
        os.makedirs(BUILD, exist_ok=True)
        work = tempfile.mkdtemp(prefix="tlc-", dir=BUILD)
        t0 = time.time()
        try:
            _stage(work)
            for name, text in self.extra_files.items():
                with open(os.path.join(work, name), "w") as f:
                    f.write(text)
            cmd = ["java", "-XX:+UseParallelGC", "-XX:ParallelGCThreads=%d" % (2 if self.workers == 1 else 8),
                   "-Xmx" + self.heap, "-Xss16m", "-cp", JAR, "tlc2.TLC",
                   "-workers", str(self.workers), "-metadir", os.path.join(work, "meta"),
                   "-noGenerateSpecTE", "-config", self.cfg + ".cfg"]
            if self.simulate:
                cmd += ["-simulate", self.simulate]
            cmd += self.args + [self.module + ".tla"]
            env = dict(os.environ)
            env.update(self.env)
            proc = subprocess.Popen(cmd, cwd=work, env=env, stdout=subprocess.PIPE,
                                    stderr=subprocess.STDOUT, text=True, bufsize=1 << 20)
            deadline = time.time() + self.timeout
            # a silent TLC never reaches the deadline test below: a timer kills it
            import threading

            def _kill():
                self.error = "TLC timeout"
                try:
                    proc.kill()
                except Exception:
                    pass
            timer = threading.Timer(self.timeout, _kill)
            timer.daemon = True
            timer.start()
            for line in proc.stdout:
                if line.startswith('"{') or line.startswith('"['):
                    yield line
                else:
                    self.output_tail.append(line.rstrip("\n"))
                    if len(self.output_tail) > 400:
                        del self.output_tail[:200]
                    m = _STATS.search(line)
                    if m:
                        self.generated, self.distinct = int(m.group(1)), int(m.group(2))
                    if line.startswith("Error:") or "Invariant" in line and "violated" in line:
                        self.messages.append(line.strip())
                if time.time() > deadline:
                    self.error = "TLC timeout"
                    proc.kill()
                    break
            rc = proc.wait()
            timer.cancel()
            text = "\n".join(self.output_tail)
            if self.error is None:
                if "Model checking completed. No error has been found." in text or (
                        self.simulate and rc == 0):
                    self.ok = True
                elif rc != 0 or "Error:" in text:
                    self.error = "TLC exit %s: %s" % (rc, "; ".join(self.messages[:3]) or text[-1500:])
                else:
                    self.ok = True
        finally:
            try:
                if proc.poll() is None:
                    proc.kill()
                    proc.wait()
            except Exception:
                pass
            self.wall = time.time() - t0
            if not self.keep:
                shutil.rmtree(work, ignore_errors=True)


def sany_all():
    """Parse every module (setup check)."""
    work = tempfile.mkdtemp(prefix="sany-", dir=BUILD)
    try:
        _stage(work)
        bad = []
        for f in sorted(os.listdir(work)):
            if f.endswith(".tla"):
                r = subprocess.run(["java", "-cp", JAR, "tla2sany.SANY", f], cwd=work,
                                   capture_output=True, text=True)
                if "error" in r.stdout.lower() and "0 error" not in r.stdout.lower():
                    if "Semantic errors" in r.stdout or "Parse Error" in r.stdout or "Fatal" in r.stdout:
                        bad.append((f, r.stdout[-800:]))
        return bad
    finally:
        shutil.rmtree(work, ignore_errors=True)
