"""Regenerates MANIFEST.json from the table below (python -m harness.manifest)."""
import json
import os

VERIF = os.path.dirname(os.path.dirname(os.path.abspath(__file__)))

TECH = "explicit TLA+ specification checked with TLC; S->C replay of TLC-generated behaviours and C->S validation of recorded traces"

CHECKS = {
    "C01": dict(engine="TermMachine", ref="5/C01",
                text="TLC enumerates every program of the TermMachine lenses (leaves x constructor applications) and computes, from the L1 denotation in exact arithmetic, the value table of each; every program is replayed through the public API under the default interpretation and each result compared point by point. Exhaustive below the lens bounds; the ground core fragment must complete.",
                note="trusted: TLC, Values/Sem.tla (the textbook denotation), the executor table harness/fbuild.py, numpy indexing in harness/compare.py; float comparison with tolerance 1e-6; bounds: <=2 leaves + <=2 constructor steps per lens, sizes 2-4, numpy backend"),
    "C06": dict(engine="TermMachine", ref="5/C06",
                text="Same lenses as C01 built under `lazy`: the declared inputs/output of every lazily built term must equal the typing rules TI/TO of Sem.tla (which TLC checks to be sound w.r.t. Eval: Inv_TypeSound), the eager re-evaluation must keep the output domain, a subset of inputs, a well-shaped array and in-range bounded integers.",
                note="trusted as C01; the op-domain catalogue (find_domain vs array implementation) is covered by the OpTyping engine when present"),
    "C02": dict(engine="Judge", ref="5/C02",
                text="Every rule firing of the exact interpretations (eager, normalize, lazy, sequential, unfold, optimize) recorded by runtime wrappers while the TermMachine lens programs execute is validated by TLC (spec/Judge.tla): the reflected term of the rule's arguments and the rule's result are evaluated with the L1 denotation over the whole finite input space and must agree, with inputs(rhs) within inputs(lhs). Ground results are compared with tolerance against the table TLC computes for the lhs.",
                note="trusted: TLC + Sem.tla, the serialiser harness/fast.py (field-by-field copy of _ast_values; floats snapped to small rationals or logs of small ratios, otherwise the event is skipped and counted), the carrier filter (events pairing max/min with mul on negative data are not judged); per-rule cap bounds the volume; coverage = rule functions that fired (evidence.rules)"),
    "C04": dict(engine="TermMachine", ref="5/C04",
                text="TLC enumerates (f, substitution map) pairs - numbers, variables incl. renamings onto existing inputs, swaps and diagonals, index tensors with fresh/colliding inputs, slices, integer expressions, keys that are not inputs - and computes Den of the simultaneous substitution; each pair is executed as f(**subs) eagerly (values, inputs subset) and lazily (inputs exactly as predicted, values by probing), renamings both as Variable and as string.",
                note="trusted as C01; bounds: tensors with 1-3 inputs of sizes 2-3, one substitution step (two in thorough)"),
    "C05": dict(engine="TermMachine", ref="5/C05",
                text="TLC enumerates nestings of binder-introducing constructors (Reduce, Lambda, Cat part names, Subs keys, products under normalize = Contraction) where every bound and free name ranges over {a,b,c}; each is built under reflect, lazy, normalize and eager and reinterpreted: no bound (or mangled) name among the inputs, inputs exactly the free names, values equal Den (no capture).",
                note="trusted as C01; bounds: 2 leaves + 2 constructor steps (3 in thorough), 3 names of size 2"),
    "C03": dict(engine="TermMachine", ref="5/C03",
                text="Every program of the TermMachine lenses is built under lazy / reflect / normalize and reinterpreted eagerly, evaluated under sequential and moment_matching, and built twice under memoize (identical object required); each result is compared with the value table, output domain and inputs TLC computed from the L1 denotation, in the four configurations FUNSOR_USE_TCO x FUNSOR_TYPECHECK (both reinterpreters).",
                note="trusted as C01; programs outside the semiring carrier (max/min paired with mul on negative data) are not judged; Gaussian mixtures are outside these lenses; memoisation of *different* arguments is checked only through values"),
    "C08": dict(engine="TermMachine+Judge", ref="5/C08",
                text="TLC enumerates sum-product expressions per semiring (add/mul, logaddexp/add, max/add, min/add, max/mul and min/mul on non-negative data, or/and on booleans): products, sums, reductions over every subset of {i,j,k} and Contraction nodes whose reduced variables are present in all, some or none of the operands, with unit constants. Each expression is built lazily; the normalised, unfolded and optimizer-rebracketed TERMS are serialised and validated by TLC (Judge.tla) against the naive denotation; their eager values, apply_optimizer's value and einsum() are compared with the table TLC emitted; normalize must be idempotent (identical object).",
                note="trusted as C01/C02; bounds: <=3 leaves, <=2 constructor steps quick (3 thorough, first N programs in breadth-first order), sizes 2-3; einsum equations are those induced by the generated expressions"),
    "C09": dict(engine="SumProduct", ref="5/C09",
                text="spec/SumProduct.tla enumerates every plated factor graph within the bounds (factors over all subsets of the variables and plates, canonical order) and every eliminate set, builds the brute-force unrolling as an L1 term (one copy of each eliminated variable per index of the plates it lives in, all factor instances multiplied, copies summed out) and evaluates it exactly; the harness runs sum_product, partial_sum_product in one call and in every split into two calls the spec declares valid, modified_/dynamic_partial_sum_product with empty steps, plated einsum and naive_plated_einsum and compares every value; ValueError is accepted only where eliminated variables have incomparable ordinals.",
                note="trusted as C01; bounds quick: 2 variables + 2 plates of size 2, <=2 factors, 3 semirings (thorough: <=3 factors, 6 semirings); tractability is approximated by comparability of ordinals (a ValueError on a comparable graph is a violation, a value on any graph must be right); plate scales and free real parameters: see DESIGN.md"),
    "C15": dict(engine="OpsAlgebra", ref="5/C15",
                text="The six algebraic tables are recorded from the imported funsor at the start of each run and every entry is decided by TLC (spec/OpsAlgebra.tla) on the carrier grid {0, +-1, +-2, 1/2, +-inf}, its log image and the booleans: unit neutral on both sides, left and right distributivity, binary and unary inverse laws, power = repeated product for n <= 4; max/min pair with mul on non-negative values only, or/and exhaustively on {0,1}. TLC (spec/OpsGrid.tla, spec/OpsEinsum.tla) enumerates operand arrays of shapes () to (3,2) over the grid plus seeded rationals for 22 binary, 9 unary and 7 reduction ops, and all einsum equations with <= 3 operands x <= 3 symbols with -inf rows planted, with exact expectations. Each state is replayed on Python float/int, 0-d array, numpy scalar and array operands in both orders and mixes, and compared elementwise and across operand kinds. Safe ops get an allowed set: any non-NaN value at a zero divisor or at -inf - (-inf).",
                note="trusted: TLC, Values.tla / OpsMeaning.tla (textbook meaning and domains), float conversion in harness/vals.py (rtol 1e-6, infinities exact); numpy backend, float64 and bool operands only. Float-range boundary: 28 hand-stated limit cases (OpsGrid.tla Limits), not computed by TLC. +inf is outside the carrier of logaddexp / sample / logsumexp / log-einsum. Quick samples 1/40 of the 3-operand equations by seed."),
    "C19": dict(engine="Convert", ref="5/C19",
                text="TLC enumerates every conversion and alignment case as a state of spec/Convert.tla (array shape x event rank x named subset of batch dims incl. a name left of the array; funsor x name_to_dim; tensor x every (partial) permutation of up to 4 inputs; align_tensor(s); lazy term, Contraction, Delta, Gaussian x permutations; materialize) and checks on each, as invariants, that implementation-shaped models transcribed from tensor_to_funsor, tensor_to_data, Tensor.align, align_tensor, Contraction/Delta/Gaussian.align and materialize refine the denotational definitions (value at a name assignment = array element at the named coordinates), reject exactly the non-convertible cases, and are mutually inverse up to size-1 batch dimensions. Every case is emitted with position-coded contents and its expected projection and replayed into the real API (to_funsor, to_data, round trips, align, align_tensor(s), materialize; float and bounded-integer dtypes): inputs, input order after align, output, data layout and the value at every named point must equal TLC's expectation. Exhaustive below the bounds.",
                note="trusted: TLC, Values/Sem.tla, the transcription in Convert.tla (bound by per-case replay), harness/convdriver.py argument construction and numpy indexing; bounds: quick ranks 0-4, thorough ranks 0-5, sizes 1-3 (1-4 in thorough), event ranks 0-2, align of tensors with <=4 inputs; lazy/Contraction/Delta over a fixed list of base terms with full permutations only; numpy backend; one open finding (Delta.align on batched points raises)"),
    "C10": dict(engine="Markov", ref="5/C10",
                text="spec/Markov.tla enumerates transition tensors (durations 1..12, 1-2 previous/current pairs of sizes 2-3, with/without batch input, with/without time dependence) and computes the explicit left fold over time as a chain of L1 terms evaluated exactly (each step: sum over the interior state of acc(curr:=m) x trans(time=t)(prev:=m)). The harness runs sequential_sum_product, naive_sequential_sum_product, mixed_sequential_sum_product for EVERY num_segments 1..T, MarkovProduct (eager, and built lazily then reinterpreted) and compares every value; the scan run under `lazy` emits a term (slices, cats, contractions, renamings) that TLC (Judge.tla) evaluates against the fold. Lag problems (spec/MarkovLag.tla: lag sets over {1,2,3}, durations, period counts): the term the naive algorithm builds under `lazy` is evaluated by TLC and sarkka_bilmes_product's value (and the naive eager value) compared with it.",
                note="trusted as C01/C02; an AssertionError/decline is accepted (transitions constant in time with odd duration are rejected by Cat); bounds: sizes 2-3, T<=12 (T<=7 for size 3, lags: T<=7 quick / 9 thorough), 3 semirings quick (5 thorough); free real parameters not yet covered"),
    "C17": dict(engine="InterpStack", ref="5/C17",
                text="TLC exhaustively explores spec/InterpStack.tla (stack of prioritised frames with atomic Memoize items, open lexical blocks with entry snapshots, propagating exception) over all 9 interpretation kinds as with-blocks and decorators, nesting depth <= 4 (quick) / 5 (thorough), an exception injected at every position, sibling blocks and the priority-list overflow in __enter__, and checks Restore, BaseNeverPopped and Innermost (frame layering = lexical scoping) in the model. Every reachable state is emitted with its history; every maximal history is executed against funsor with real with-statements, decorated calls and raised exceptions, comparing after every step the repr of every frame of funsor.interpreter._STACK and the class / recording tapes of probe terms with TLC's expectations. A seeded sample of the same runs is recorded as push/pop/probe traces from a logging _STACK and validated by TLC with spec/Trace_InterpStack.tla (self-test: a dropped pop and a doubled push must be rejected).",
                note="trusted: TLC, the Handles table of InterpFrames.tla (which rule table answers which of the 4 probes), repr() of interpretations, harness/stackdriver.py; bounds: depth <= 5 for chains, depth 3 and <= 4 entries for siblings, depth 8 for overflow, <= 2 raises; a new AdjointTape per entry; numpy backend; single-threaded"),
    "C11": dict(engine="Adjoint", ref="5/C11",
                text="spec/Adjoint.tla defines the structural semiring derivative DTerm(expression, leaf) as an L1 term (product rule, linearity of sums and reductions, multiplicities of broadcast reductions) and TLC checks in the model that on flat sum-product expressions it equals the definitional form (sum over the variables the leaf does not mention of the product of all other factors). For every expression of the (add,mul) and (logaddexp,add) lenses with pairwise distinct tensor leaves TLC emits the forward table and one adjoint table per leaf; the harness runs funsor.adjoint.forward_backward on the lazily built expression and on its optimizer-restructured form and compares the forward value and every returned adjoint.",
                note="trusted as C01; programs the tape rejects are declines; one open finding (multiplicity of broadcast reductions) masks adjoint mismatches on expressions that have that feature; leaves wrapped in renamings / slices / Cat are not yet generated"),
    "C16": dict(engine="Dispatch", ref="5/C16",
                text="TLC (spec/Dispatch.tla) judges data recorded from the live code: over a pool of 150 (thorough 390) parametric types - all components of all registered signatures of every interpretation registry and op dispatcher, plus deep_type of sample objects - the three-valued truth tables of deep_issubclass and of issubclass on typing_wrap'ed types are checked for reflexivity, transitivity (all defined triples), mutual agreement, the named structural laws against the model's SubT (nominal from recorded __mro__, Cls[args] covariance, tuple componentwise/variadic, union-left=all, union-right=some, frozenset covariance), and membership against structural InstOf on recorded object trees. Every dispatch event (argument tuples synthesised for every registered signature plus events observed while evaluating random expressions) is judged: the chosen signature matches and is <= every other matching one. S->C: TLC enumerates all behaviours of the DispatchCache machine (dispatch / clear cache / cold restart, all first-use orders, bounded length); each is replayed on the real dispatcher and the selected function must equal the model's unique most specific rule. Registration order: seeded permutations preserving TLC-computed comparability, fresh dispatchers with per-signature markers.",
                note="trusted: TLC, the type-to-AST converter and object-tree recorder in harness/dispatchdriver.py, python's __mro__/abc for plain classes, multipledispatch's funcs dict as the list of registered signatures. Undefined pairs (TypeError, ~15%) are excluded and counted. Machine bounds: 5x3 tuples, log length <= 4 (thorough 10x4, <= 5). numpy backend only. Five open findings (ambiguous signature pairs, typing_wrap corner cases)."),
    "C12": dict(engine="TermMachine", ref="5/C12",
                text="A Gaussian funsor is an L1 leaf whose denotation is the explicit quadratic -1/2 ||x S - w||^2 over exact rationals (spec/Sem.tla EvalGauss). TLC enumerates Gaussian leaves (full rank, rank deficient, over-complete hence rank-compressed, batched, interleaved orders and shapes of real inputs) under sums of Gaussians, substitution of real values / variables / affine expressions / batched tensors for some or all real inputs, indexing, slicing-free renaming and tensor-indexing of batch inputs, align and Cat along a batch input; every result is evaluated at every sample point of its remaining real inputs and every batch assignment and compared with the table TLC computed; inputs must be among the predicted ones.",
                note="trusted as C01; sample points {-1, 0, 1/2, 2} (rotations for vector inputs), tolerance 1e-6; one constructor step quick (two, first 60k programs, thorough); keyword parametrisations (mean/info_vec x precision/covariance/scale_tril) are exercised through C13's engine when present; substituting a python float raises AttributeError on the pinned tree (a decline), values are also passed as 0-d Tensors"),
    "C13": dict(engine="GaussOps", ref="5/C13",
                text="spec/GaussOps.tla computes, over exact rationals, the dense form (P, eta, c) of every Gaussian leaf of a catalogue (batched, interleaved input orders, vector inputs, over-complete and rank-deficient square roots) and the closed forms: marginal over every subset of real inputs with block dimension <= 3 (Schur complement by adjugate; constants kept symbolically as q + k/2 log 2pi - 1/2 log p), log-normaliser, mean, covariance, E[x] and E[quadratic]; TLC checks in the model that two-stage marginalisation equals one-stage for every split. The harness runs g.reduce(logaddexp, subset) in one and two stages at every sample point and batch index, log_normalizer, Integrate against a variable and against a Gaussian, mixture reduction over integer inputs, and the same Gaussian rebuilt from 5 keyword parametrisations, and compares every value; full-rank cases must complete, a singular block must raise or be non-finite.",
                note="trusted: TLC + GaussOps.tla linear algebra, harness float conversion, tolerance 1e-6 (conditioning not under test); mixtures: the harness takes log-sum-exp of TLC's per-component values; moment matching and plate sums are not yet covered by this engine (plate sums of Gaussians are exercised by the thorough C12 lens)"),
    "C14": dict(engine="Judge+TermMachine", ref="5/C14",
                text="Sampling is specified relationally in spec/Judge.tla (JudgeSample): the sample of f over the sampled variables has f's inputs plus the sample inputs and f's output, every point with finite value lies in the support of f, and for every batch element and particle its total mass over the sampled variables equals f's - TLC accepts ANY draw satisfying this. spec/SampleGen.tla enumerates log-density tensors (1-3 inputs, minus-infinity patterns) x every non-empty subset of sampled variables x 0-2 sample inputs; the harness calls x.sample with 3 seeds, twice each (identical result required: deterministic in the random state), serialises the returned Delta/Tensor term and TLC validates it. Delta semantics: the delta_ops TermMachine lens builds Deltas at numbers, batched tensors and lazy expressions (integer and real valued), evaluates them at and away from the point, adds funsors and reduces over the Delta's variable; eager values are compared with the L1 denotation (log-density at the point, minus infinity elsewhere).",
                note="trusted as C01/C02 (float log-values are snapped to logs of small integer ratios, unrepresentable events are skipped and counted); Gaussian sampling, Integrate against a Delta and the MonteCarlo interpretation are not yet covered; unbiasedness is statistical and not addressed; one open finding (reduction of a non-unit-mass Delta drops its log_density)"),
    "C20": dict(engine="Heap", ref="5/C20",
                text="spec/Heap.tla states the frame condition as an action property over a heap of fingerprints (an entry may be added, never changed). For every program of the lenses the harness registers each leaf array (at creation) and every operand / intermediate / result funsor, runs eager and lazy construction, reinterpretation, normalisation, the optimizer, substitution, reduction, align, to_data, sampling, an in-place-prone binary op, adjoint computation and compilation, and logs after each step the fingerprints (blake2b of inputs, output and array bytes) of everything it holds; TLC validates every recorded history against Heap.tla and names the objects whose fingerprint changed. Self-test in every run: a corrupted fingerprint must be rejected.",
                note="trusted: the fingerprint function in harness/fbuild.py (60 bits of blake2b reach TLC), TLC; only objects the harness holds are watched; programs are those of the TermMachine lenses (first N in breadth-first order); numpy backend"),
}

NOT_YET = "check not built yet in this round (planned, see DESIGN.md section 5)"


def main():
    props = [json.loads(l) for l in open(os.path.join(VERIF, "properties.jsonl"))]
    checks = []
    for pid in sorted(CHECKS):
        c = CHECKS[pid]
        checks.append({
            "property_id": pid,
            "quick_cmd": "bin/check %s --tier quick" % pid,
            "thorough_cmd": "bin/check %s --tier thorough" % pid,
            "evidence_file": "evidence/%s.json" % pid,
            "replay_cmd_template": "bin/check %s --replay {path}" % pid,
            "engine": c["engine"],
            "level_claimed": {"category": "model_checking", "text": c["text"], "design_ref": c["ref"]},
            "level_note": c["note"],
            "technique": c.get("technique", TECH),
        })
    m = {
        "version": 1,
        "setup_cmd": "bin/setup",
        "hooks": {
            "guard": "FUNSOR_VERIF",
            "enable": "no source hooks: the recorder (harness/recorder.py) installs runtime wrappers; FUNSOR_VERIF is reserved and unused",
            "baseline_off_cmd": "cd /repo && /venv/bin/python -m pytest -ra -q -p no:cacheprovider --timeout=900 --continue-on-collection-errors",
            "source_commits": [],
            "add_only": True,
        },
        "engines": [
            {"name": "TermMachine", "path": "spec/TermMachine.tla", "serves_properties": ["C01", "C03", "C04", "C05", "C06"],
             "kind_free_text": "TLA+ build-and-evaluate machine over the L1 term language (spec/Sem.tla, spec/Values.tla); lenses in spec/lens; replayed by harness/replay.py"},
            {"name": "SumProduct", "path": "spec/SumProduct.tla", "serves_properties": ["C09"],
             "kind_free_text": "TLA+ enumeration of plated factor graphs with the unrolled oracle as an L1 term; replayed by harness/modes.py:c09"},
            {"name": "OpsAlgebra", "path": "spec/OpsAlgebra.tla", "serves_properties": ["C15"],
             "kind_free_text": "TLA+ laws over the recorded op tables + exact op grid / einsum generators (OpsMeaning, OpsGrid, OpsEinsum); replayed by harness/opsdriver.py"},
            {"name": "Convert", "path": "spec/Convert.tla", "serves_properties": ["C19"],
             "kind_free_text": "TLA+ denotational + implementation-shaped models of array<->funsor conversion and alignment; replayed by harness/convdriver.py"},
            {"name": "Markov", "path": "spec/Markov.tla", "serves_properties": ["C10"],
             "kind_free_text": "TLA+ enumeration of Markov-product problems with the left fold as oracle (plus spec/MarkovLag.tla); replayed by harness/modes.py:c10, emitted scan terms judged by Judge.tla"},
            {"name": "InterpStack", "path": "spec/InterpStack.tla", "serves_properties": ["C17"],
             "kind_free_text": "TLA+ interpretation-stack machine (InterpFrames.tla, Trace_InterpStack.tla); replayed with real with-blocks by harness/stackdriver.py"},
            {"name": "Adjoint", "path": "spec/Adjoint.tla", "serves_properties": ["C11"],
             "kind_free_text": "TLA+ structural semiring derivative over L1 terms (extends TermMachine); replayed by harness/modes.py:c11"},
            {"name": "Dispatch", "path": "spec/Dispatch.tla", "serves_properties": ["C16"],
             "kind_free_text": "TLA+ subtype model, DispatchCache machine and trace judge over recorded truth tables / dispatch events; harness/dispatchdriver.py"},
            {"name": "GaussOps", "path": "spec/GaussOps.tla", "serves_properties": ["C13"],
             "kind_free_text": "TLA+ rational linear algebra: dense forms, Schur complements, normalisers, moments of Gaussian leaves (catalogue in GaussCat.tla); replayed by harness/modes.py:c13"},
            {"name": "Heap", "path": "spec/Heap.tla", "serves_properties": ["C20"],
             "kind_free_text": "TLA+ append-only heap of fingerprints (trace specification); histories recorded by harness/modes.py:c20"},
            {"name": "Judge", "path": "spec/Judge.tla", "serves_properties": ["C02", "C08"],
             "kind_free_text": "TLA+ trace specification that consumes recorded events (rule firings, emitted terms) and decides them with the L1 denotation"},
        ],
        "checks": checks,
        "notes": "see DESIGN.md; known findings in known_findings.json",
        "not_applicable": [{"property_id": p["id"], "reason": NOT_YET} for p in props if p["id"] not in CHECKS],
    }
    with open(os.path.join(VERIF, "MANIFEST.json"), "w") as f:
        json.dump(m, f, indent=1)


if __name__ == "__main__":
    main()
