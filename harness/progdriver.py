"""C18 driver: expressions of the compiler's fragment -> the programs the real library
produces for them -> events for spec/Trace_OpProgram.tla (C->S, translation validation)
and the actual results of running those programs (S->C).

Nothing here knows what an op *means*.  The driver
  * takes the expression ASTs TLC enumerates from the OpProgram lenses (spec/lens/prog_*),
  * builds each with the public API under `lazy` (and once more under `normalize`, which
    turns chains of associative binary ops into Contractions without reduction),
  * calls compile_funsor, pickles / unpickles the program, re-parses the text printed by
    as_code(), and traces a Python function of ops generated from the expression with
    trace_function,
  * serialises every program field by field (constants exactly, ops by name with their
    parameters; what cannot be represented is refused and counted),
  * and, with the value table TLC computed for the expression, runs every program on every
    binding (tolerance compare, harness/vals.py) and with missing / unexpected inputs.
"""
import ast as pyast
import json
import math
import pickle
import traceback
from collections import Counter, OrderedDict

import numpy as np

import funsor
from funsor import ops
from funsor.compiler import compile_funsor
from funsor.interpretations import lazy, normalize
from funsor.ops.program import OpProgram, make_tuple
from funsor.ops.tracer import trace_function
from funsor.terms import Tuple

from . import fast, fbuild, vals
from .fast import Unrepresentable
from .replay import children as _children0
from .replay import key_of, term_sig as _term_sig0

funsor.set_backend("numpy")

VIAS = ("compile", "pickle", "as_code", "trace_function")
UNUSED_NAME = "zz_unused"
EXTRA_NAME = "zz_unexpected"


# --------------------------------------------------------------------------------------
# ASTs (Sem.tla terms plus the top-level Tup of the compiler fragment)

def children(t):
    if t.get("c") == "Tup":
        return list(t["args"])
    return _children0(t)


def term_sig(t, depth=2):
    if t.get("c") == "Tup":
        if depth == 0:
            return "Tup"
        return "Tup(" + ",".join(term_sig(k, depth - 1) for k in t["args"]) + ")"
    if depth > 0 and any(k.get("c") == "Tup" for k in children(t)):
        return _term_sig0(t, 0)
    return _term_sig0(t, depth)


def subterms(t, acc=None):
    acc = {} if acc is None else acc
    k = key_of(t)
    if k not in acc:
        acc[k] = t
        for c in children(t):
            subterms(c, acc)
    return acc


def node_count(t):
    return len(subterms(t))


def to_ast_x(f):
    """fast.to_ast plus Tuple (only other Tuples or fragment terms inside)"""
    if isinstance(f, Tuple):
        return {"c": "Tup", "args": [to_ast_x(a) for a in f.args]}
    return fast.to_ast(f)


class ProgBuilder(fbuild.Builder):
    def _build(self, t):
        if t["c"] == "Tup":
            return Tuple(tuple(self.build(a) for a in t["args"]))
        return super()._build(t)


BOOL_OPS = {"lt", "le", "gt", "ge", "eq", "ne", "and", "or", "xor", "invert", "not"}


def _shape(t):
    """event shape of a pointwise fragment term (only used to LABEL expressions, see traits)"""
    c = t["c"]
    if c == "Var":
        return tuple(t["dom"]["sh"])
    if c == "Num":
        return ()
    if c == "Ten":
        return tuple(t["sh"])
    if c == "Un":
        return _shape(t["arg"]) if not t["op"]["p"] else None
    if c == "Bin":
        a, b = _shape(t["l"]), _shape(t["r"])
        if a is None or b is None or t["op"]["p"]:
            return None
        return a if len(a) >= len(b) else b
    if c == "Con":
        shs = [_shape(x) for x in t["terms"]]
        if any(s is None for s in shs):
            return None
        return max(shs, key=len)
    return None


def traits(t):
    """labels of an expression used in violation records (and by known_findings.json)"""
    out = set()
    for s in subterms(t).values():
        c = s["c"]
        if c == "Tup" and any(a["c"] == "Tup" for a in s["args"]):
            out.add("tuple_nested")
        if c == "Tup":
            out.add("tuple")
        if c == "Ten" and s["ins"]:
            out.add("ten_inputs")
        if c == "Ten" and s["sh"]:
            out.add("const_array")
        if c == "Ten" and not s["sh"]:
            out.add("const_tensor0d")
        if c == "Num" and s["v"][0] in ("NI", "PI"):
            out.add("const_nonfinite")
        if c == "Ten" and any(x[0] in ("NI", "PI") for x in s["data"]):
            out.add("const_nonfinite")
        if c in ("Un", "Bin") and s["op"]["n"] in BOOL_OPS and _shape(s) == ():
            out.add("bool0d")
        if c == "Con" and s["bin"] in BOOL_OPS and _shape(s) == ():
            out.add("bool0d")
        if c == "Con":
            out.add("contraction")
    return ",".join(sorted(out))


# --------------------------------------------------------------------------------------
# serialising a real OpProgram for TLC

def ser_op(op):
    if op is make_tuple:
        return {"n": "tuple", "p": []}
    if isinstance(op, ops.GetsliceOp):
        index = op.defaults["index"]
        if not isinstance(index, tuple):
            index = (index,)
        parts = []
        for p in index:
            if isinstance(p, (int, np.integer)) and not isinstance(p, bool) and p >= 0:
                parts.append({"k": "int", "i": int(p)})
            else:
                raise Unrepresentable("getslice index %r" % (p,))
        return {"n": "getslice", "p": parts}
    if not isinstance(op, ops.Op):
        raise Unrepresentable("operation %r" % (op,))
    return fast.op_record(op)


def ser_const(c):
    if isinstance(c, (bool, int, float, np.bool_, np.integer, np.floating)):
        return {"sh": [], "v": [fast.scalar(c.item() if hasattr(c, "item") else c)]}
    if isinstance(c, np.ndarray):
        return {"sh": [int(s) for s in c.shape], "v": fast.data_scalars(c)}
    raise Unrepresentable("constant of type %s" % type(c).__name__)


def ser_program(p):
    """(constants, inputs, operations) of a real OpProgram, field by field"""
    consts = [ser_const(c) for c in p.constants]
    inputs = [str(n) for n in p.inputs]
    operations = []
    for item in p.operations:
        op, arg_ids = item
        operations.append({"op": ser_op(op), "args": [int(i) for i in arg_ids]})
    return {"consts": consts, "inputs": inputs, "ops": operations}


# --------------------------------------------------------------------------------------
# the text printed by as_code(), re-parsed statement by statement

class CodeError(Exception):
    def __init__(self, clause, msg):
        super().__init__(msg)
        self.clause = clause


def parse_as_code(code, name="program"):
    """-> OpProgram whose (constants, inputs, operations) are exactly what the text says:
    statement k must be `v<k> = <literal> | <input name> | <op>(v.., v..,) | (v.., v..,)`
    in the order constants, inputs, operations, and the function must return the last v."""
    try:
        mod = pyast.parse(code)
    except SyntaxError as e:
        raise CodeError("as_code_syntax", "SyntaxError: %s" % (e,))
    fns = [n for n in mod.body if isinstance(n, pyast.FunctionDef) and n.name == name]
    if len(fns) != 1:
        raise CodeError("as_code_layout", "no function %r" % name)
    fn = fns[0]
    a = fn.args
    if a.vararg or a.kwarg or a.kwonlyargs or a.posonlyargs or a.defaults:
        raise CodeError("as_code_layout", "unexpected signature")
    params = [x.arg for x in a.args]
    consts, inputs, operations = [], [], []
    nslots = 0
    returned = None
    glob = {"ops": ops, "slice": slice}

    def slot_of(node):
        if isinstance(node, pyast.Name) and node.id.startswith("v") and node.id[1:].isdigit():
            return int(node.id[1:])
        raise CodeError("as_code_layout", "argument is not a value slot: %s" % pyast.unparse(node))

    for st in fn.body:
        if isinstance(st, pyast.ImportFrom):
            continue
        if isinstance(st, pyast.Expr) and isinstance(st.value, pyast.Call) and \
                isinstance(st.value.func, pyast.Name) and st.value.func.id == "set_backend":
            continue
        if isinstance(st, pyast.Return):
            returned = slot_of(st.value)
            continue
        if returned is not None:
            raise CodeError("as_code_layout", "statement after return")
        if not (isinstance(st, pyast.Assign) and len(st.targets) == 1 and isinstance(st.targets[0], pyast.Name)):
            raise CodeError("as_code_layout", "statement %s" % pyast.unparse(st))
        if st.targets[0].id != "v%d" % nslots:
            raise CodeError("as_code_layout", "slot %s defined at position %d" % (st.targets[0].id, nslots))
        v = st.value
        if isinstance(v, pyast.Name) and v.id in params:
            if operations:
                raise CodeError("as_code_layout", "input after an operation")
            inputs.append(v.id)
        elif isinstance(v, pyast.Call):
            try:
                op = eval(compile(pyast.Expression(v.func), "<as_code>", "eval"), glob)
            except Exception as e:
                raise CodeError("as_code_exec", "op expression %s: %r" % (pyast.unparse(v.func), e))
            if v.keywords:
                raise CodeError("as_code_layout", "keyword arguments")
            operations.append((op, tuple(slot_of(x) for x in v.args)))
        elif isinstance(v, pyast.Tuple):
            operations.append((make_tuple, tuple(slot_of(x) for x in v.elts)))
        else:
            try:
                c = pyast.literal_eval(v)
            except Exception:
                raise CodeError("as_code_exec", "constant is not a literal: %s" % pyast.unparse(v))
            if inputs or operations:
                raise CodeError("as_code_layout", "constant after an input")
            consts.append(c)
        nslots += 1
    if sorted(inputs) != sorted(params):
        raise CodeError("as_code_layout", "parameters %s but inputs %s" % (params, inputs))
    if returned is None or returned != nslots - 1:
        raise CodeError("as_code_return", "returns slot %s of %d" % (returned, nslots))
    return OpProgram(consts, inputs, operations)


def exec_as_code(code, name="program"):
    env = {}
    try:
        exec(compile(code, "<as_code>", "exec"), {}, env)
    except SyntaxError as e:
        raise CodeError("as_code_syntax", "SyntaxError: %s" % (e,))
    return env[name]


# --------------------------------------------------------------------------------------
# a Python function of ops generated from an expression (for trace_function)

OP_ATTR = {"and": "and_", "or": "or_"}


def real_op(rec):
    n, p = rec["n"], rec["p"]
    if n in fast.REDUCTIONS:
        cls = type(getattr(ops, n))
        axis = None if p[0] == fbuild.NOAXIS else p[0]
        return cls(axis, bool(p[1]))
    if n == "reshape":
        return ops.ReshapeOp(tuple(p))
    if n == "getslice":
        return ops.GetsliceOp(fbuild.py_index(p))
    if n == "getitem":
        return ops.GetitemOp(p[0])
    return getattr(ops, OP_ATTR.get(n, n))


def make_function(t):
    """fn(**arrays) applying funsor.ops to backend arrays along the DAG of t (shared
    subterms are computed once)"""
    order = list(subterms(t).items())

    def fn(**kw):
        memo = {}

        def ev(s):
            k = key_of(s)
            if k in memo:
                return memo[k]
            c = s["c"]
            if c == "Var":
                r = kw[s["name"]]
            elif c == "Num":
                x = vals.scalar_to_float(s["v"])
                r = float(x) if s["dt"] == 0 else int(x)
            elif c == "Ten":
                r = fbuild.leaf_array(s)
            elif c == "Un":
                r = real_op(s["op"])(ev(s["arg"]))
            elif c == "Bin":
                a = ev(s["l"])
                b = ev(s["r"])
                r = real_op(s["op"])(a, b)
            elif c == "Con":
                op = real_op({"n": s["bin"], "p": []})
                r = ev(s["terms"][0])
                for x in s["terms"][1:]:
                    r = op(r, ev(x))
            elif c == "Tup":
                r = tuple(ev(a) for a in s["args"])
            else:
                raise NotImplementedError(c)
            memo[k] = r
            return r
        return ev(t)
    fn.n_nodes = len(order)
    return fn


# --------------------------------------------------------------------------------------
# bindings and comparison

def np_binding(env, ins):
    """a binding printed by TLC ({name: array value}) as backend arrays"""
    if isinstance(env, list):      # the empty function prints as []
        env = {}
    doms = {n: d for n, d in ins}
    out = OrderedDict()
    for n, _ in ins:
        a = vals.arr_to_np(env[n])
        if doms[n]["dt"] > 0:
            a = a.astype(np.int64)
        out[n] = a
    return out


def has_undef(v):
    if "tup" in v:
        return any(has_undef(x) for x in v["tup"])
    return any(s[0] == "U" for s in v["v"])


def agrees(actual, expected):
    if "tup" in expected:
        if not isinstance(actual, tuple) or len(actual) != len(expected["tup"]):
            return False
        return all(agrees(a, e) for a, e in zip(actual, expected["tup"]))
    if isinstance(actual, tuple):
        return False
    try:
        return vals.close(np.asarray(actual), vals.arr_to_np(expected))
    except (TypeError, ValueError):
        return False


def show(x):
    if isinstance(x, tuple):
        return [show(y) for y in x]
    try:
        return np.asarray(x).tolist()
    except Exception:
        return repr(x)


# --------------------------------------------------------------------------------------
# phase A: expression -> variants -> programs -> events

def build_variants(t, notes=None):
    """[(variant, funsor term, AST of the term actually built)]"""
    notes = Counter() if notes is None else notes
    out = []
    with lazy:
        f = ProgBuilder().build(t)
    a = to_ast_x(f)
    out.append(("lazy", f, a))
    if not any(s["c"] in ("Con", "Tup") for s in subterms(t).values()):
        try:
            with normalize:
                g = ProgBuilder().build(t)
            b = to_ast_x(g)
        except Exception as e:      # normalize declines (NotImplementedError) or leaves the AST
            notes["normalize_declined:%s" % type(e).__name__] += 1
            return out
        if key_of(b) != key_of(a) and any(s["c"] == "Con" for s in subterms(b).values()):
            out.append(("normalize", g, b))
    return out


def first_data(expr_ast, ins, pts):
    """one binding (the first point of the sampled space) as backend arrays, for tracing"""
    data = OrderedDict()
    for n, d in ins:
        if d["dt"] > 0:
            data[n] = np.array(0, dtype=np.int64)
        else:
            size = int(np.prod(d["sh"])) if d["sh"] else 1
            flat = [vals.scalar_to_float(pts[j % len(pts)]) for j in range(size)]
            data[n] = np.array(flat, dtype=np.float64).reshape(tuple(d["sh"]))
    return data


def ast_inputs(f):
    return [[k, fast.dom_spec(d)] for k, d in f.inputs.items()]


def programs_of(f, a, pts):
    """the programs the library produces for term f (AST a).
    -> list of (via, status, payload): status 'program' (payload OpProgram),
       'declined' (payload reason), 'violation' (payload (clause, detail));
       for as_code an extra entry ('as_code_fn', 'callable', function)."""
    out = []
    try:
        p = compile_funsor(f)
    except NotImplementedError as e:
        return [("compile", "declined", "NotImplementedError: %s" % e)]
    except Exception as e:
        return [("compile", "violation", ("compile_raises", "%s: %s" % (type(e).__name__, e)))]
    out.append(("compile", "program", p))
    # pickle round trip
    try:
        q = pickle.loads(pickle.dumps(p))
        out.append(("pickle", "program", q))
    except Exception as e:
        out.append(("pickle", "violation", ("pickle_raises", "%s: %s" % (type(e).__name__, e))))
    # printed code: re-parsed, and executed
    try:
        code = p.as_code()
    except Exception as e:
        code = None
        out.append(("as_code", "violation", ("as_code_raises", "%s: %s" % (type(e).__name__, e))))
    if code is not None:
        try:
            out.append(("as_code", "program", parse_as_code(code)))
        except CodeError as e:
            out.append(("as_code", "violation", (e.clause, {"error": str(e), "code": code})))
        try:
            out.append(("as_code_fn", "callable", exec_as_code(code)))
        except CodeError as e:
            pass        # already reported by the parse
        except Exception as e:
            out.append(("as_code", "violation", ("as_code_exec", {"error": "%s: %s" % (type(e).__name__, e), "code": code})))
    # trace_function on a Python function of ops
    if any(s["c"] == "Tup" for s in subterms(a).values()):
        out.append(("trace_function", "declined", "tuple outputs are documented as unsupported (test_tracer.py::test_tuple xfail)"))
    elif any(s["c"] == "Ten" and s["ins"] for s in subterms(a).values()):
        out.append(("trace_function", "declined", "tensor with named inputs has no array-level function"))
    elif not any(s["c"] in ("Var", "Ten") for s in subterms(a).values()):
        out.append(("trace_function", "declined", "no array in the expression (trace_function requires an array-valued result)"))
    else:
        fn = make_function(a)
        data = first_data(a, ast_inputs(f), pts)
        try:
            with np.errstate(all="ignore"):
                tp = trace_function(fn, dict(data), allow_constants=True)
            out.append(("trace_function", "program", tp))
        except Exception as e:
            out.append(("trace_function", "violation", ("trace_raises", "%s: %s" % (type(e).__name__, e))))
        # the same function traced with one more argument that it does not use (listed last): the
        # program must still return what the function returns (S->C only; a program's output is
        # env[-1], which is the LAST input when the function returns one of its arguments)
        try:
            extra = np.array(0.25)

            def fn2(**kw):
                return fn(**{k: v for k, v in kw.items() if k != UNUSED_NAME})
            d2 = dict(data)
            d2[UNUSED_NAME] = extra
            with np.errstate(all="ignore"):
                tp2 = trace_function(fn2, d2, allow_constants=True)

            def call2(**kw):
                kw = dict(kw)
                kw[UNUSED_NAME] = extra.copy()
                return tp2(**kw)
            out.append(("trace_function_unused_input", "callable", call2))
        except Exception as e:  # noqa  (judged through the plain trace above)
            pass
    return out


def phase_a(rec):
    """rec: one record emitted by an OpProgram lens -> {"events": [...], "notes": Counter,
    "violations": [...]}; events carry key = (variant, via)"""
    t, pts = rec["t"], rec["pts"]
    res = {"events": [], "notes": Counter(), "violations": []}
    try:
        variants = build_variants(t, res["notes"])
    except Unrepresentable as e:
        res["notes"]["unrepresentable_expression"] += 1
        return res
    except Exception as e:
        res["notes"]["build_raises:%s" % type(e).__name__] += 1
        res["notes"]["build_example:%s" % (str(e)[:80])] += 1
        return res
    for variant, f, a in variants:
        res["notes"]["variant:" + variant] += 1
        res["events"].append({"kind": "table", "expr": a, "pts": pts, "_key": (variant, "table")})
        for via, status, payload in programs_of(f, a, pts):
            if status == "declined":
                res["notes"]["declined:%s:%s" % (via, payload[:60])] += 1
            elif status == "violation":
                clause, detail = payload
                res["violations"].append(violation(rec, variant, via, a, clause, detail))
            elif status == "program":
                try:
                    sp = ser_program(payload)
                except Unrepresentable as e:
                    res["notes"]["unrepresentable_program:%s:%s" % (via, str(e)[:40])] += 1
                    continue
                except Exception as e:
                    res["violations"].append(violation(rec, variant, via, a, "malformed_program",
                                                       "%s: %s" % (type(e).__name__, e)))
                    continue
                res["events"].append({"kind": "prog", "via": via, "expr": a, "pts": pts, "prog": sp,
                                      "_key": (variant, via)})
                if via == "compile" and variant == "lazy" and rec.get("frag") and key_of(a) == key_of(t):
                    # the model's program (ProgSem!Lower) has one operation per distinct non-leaf subterm
                    d = len(sp["ops"]) - rec["mops"]
                    res["notes"]["operations_vs_model:%s" % ("equal" if d == 0 else "more" if d > 0 else "fewer")] += 1
    return res


def violation(rec, variant, via, a, clause, detail, **more):
    v = {"clause": clause, "via": via, "variant": variant, "traits": traits(a) or "-",
         "sig": "%s|%s" % (via, term_sig(a, 2)), "detail": detail, "expr": a, "tag": rec.get("tag"),
         "nodes": node_count(a), "engine": "OpProgram", "source": rec.get("t"), "pts": rec.get("pts")}
    v.update(more)
    return v


# --------------------------------------------------------------------------------------
# what funsor's own interpretation returns (only consulted to ATTRIBUTE a mismatch)

def interpretation(f, data):
    """the data of f(**data) evaluated eagerly, or None when that is not a ground value"""
    from funsor.interpretations import eager
    from funsor.interpreter import reinterpret
    from funsor.tensor import Tensor
    from funsor.terms import Number

    def extract(r):
        if isinstance(r, Tuple):
            return tuple(extract(x) for x in r.args)
        if isinstance(r, (Number, Tensor)) and not r.inputs:
            return r.data
        raise ValueError("not ground")
    try:
        with np.errstate(all="ignore"), eager:
            r = reinterpret(f)
            if data:
                r = r(**{n: v.copy() for n, v in data.items()})
        return extract(r)
    except Exception:
        return None


def same_actual(a, b):
    if isinstance(a, tuple) or isinstance(b, tuple):
        return (isinstance(a, tuple) and isinstance(b, tuple) and len(a) == len(b)
                and all(same_actual(x, y) for x, y in zip(a, b)))
    try:
        a = np.asarray(a, dtype=np.float64)
        b = np.asarray(b, dtype=np.float64)
    except (TypeError, ValueError):
        return False
    return a.shape == b.shape and bool(np.allclose(a, b, rtol=vals.RTOL, atol=vals.ATOL, equal_nan=True))


# --------------------------------------------------------------------------------------
# phase C: run the real programs on every binding of the table TLC computed

def _must_raise(call):
    try:
        with np.errstate(all="ignore"):
            call()
    except Exception:
        return True
    return False


def phase_c(rec, tables):
    """tables: {variant: verdict of the 'table' event (ins, envs, tab)}"""
    t, pts = rec["t"], rec["pts"]
    res = {"notes": Counter(), "violations": [], "runs": 0, "points": 0, "rejections": 0}
    try:
        variants = build_variants(t)
    except Exception:
        return res
    for variant, f, a in variants:
        tv = tables.get(variant)
        if tv is None:
            res["notes"]["no_table"] += 1
            continue
        ins = tv["ins"]
        bindings = [np_binding(e, ins) for e in tv["envs"]]
        tab = tv["tab"]
        for via, status, payload in programs_of(f, a, pts):
            if status not in ("program", "callable"):
                continue
            if via == "as_code":
                continue            # the parsed text is judged by TLC; the text itself runs as as_code_fn
            label = "as_code" if via == "as_code_fn" else via
            call = payload
            bad = None
            for k, data in enumerate(bindings):
                if has_undef(tab[k]):
                    res["notes"]["point_outside_algebra"] += 1
                    continue
                res["points"] += 1
                try:
                    with np.errstate(all="ignore"):
                        # inputs are bound by NAME: the keyword order alternates between the
                        # binding's own order and its reverse (found by a seeded fault that bound
                        # the inputs positionally in the caller's keyword order)
                        items = list(data.items())
                        if k % 2 == 1:
                            items.reverse()
                        got = call(**{n: v.copy() for n, v in items})
                except Exception as e:
                    bad = ("run_raises", {"binding": {n: show(v) for n, v in data.items()},
                                          "error": "%s: %s" % (type(e).__name__, e)})
                    break
                if not agrees(got, tab[k]):
                    # C18 compares programs with interpretation: when funsor's own eager
                    # evaluation of the expression returns what the program returns, the
                    # difference from the specification's table belongs to the ops (C01/C15)
                    ref = interpretation(f, data)
                    if ref is not None and same_actual(got, ref):
                        res["notes"]["program_equals_interpretation_but_not_spec:%s" % term_sig(a, 1)] += 1
                        continue
                    bad = ("result", {"binding": {n: show(v) for n, v in data.items()},
                                      "want": tab[k], "got": show(got),
                                      "interpretation": show(ref) if ref is not None else None})
                    break
            res["runs"] += 1
            if bad is not None:
                res["violations"].append(violation(rec, variant, label, a, bad[0], bad[1]))
            if not isinstance(call, OpProgram) or not bindings:
                continue
            # missing / unexpected inputs must be rejected, not ignored or defaulted
            data = bindings[0]
            for n in data:
                res["rejections"] += 1
                rest = {m: v for m, v in data.items() if m != n}
                if not _must_raise(lambda: call(**rest)):
                    res["violations"].append(violation(rec, variant, label, a, "missing_input_accepted",
                                                       {"missing": n, "given": sorted(rest)}))
            res["rejections"] += 1
            more = dict(data)
            more[EXTRA_NAME] = np.array(1.0)
            if not _must_raise(lambda: call(**more)):
                res["violations"].append(violation(rec, variant, label, a, "unexpected_input_accepted",
                                                   {"given": sorted(more)}))
    return res
