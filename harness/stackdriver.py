"""C17 executor: replays the behaviours of spec/InterpStack.tla into funsor (S->C) and
records push/pop/probe traces of the same runs for spec/Trace_InterpStack.tla (C->S).

A behaviour is a history of operations (see InterpStack.tla):
    W:<kind> D:<kind> WF:<kind> DF:<kind> X R Z C
It is executed by a recursive driver so that blocks are really lexically nested:
`with <interpretation>:` for W, a nested function decorated with `@<interpretation>` and
called for D, `raise Injected()` for R; an exception is caught (try/except around the
with-statement) exactly where the history says C.  After EVERY step the driver compares
[repr(frame) for frame in funsor.interpreter._STACK] with the stack TLC printed for the
state reached, and (the first time a state is reached, or always when a trace is
recorded) builds probe terms and compares the class of each result and the adjoint
tapes that recorded it with TLC's expected answers: the probes add/sub in every state,
all four (also red/subs, which push temporary frames) the first time a shard sees a
given stack and at every step of the recorded runs.  A probe must leave the stack as it
was.  Only maximal histories are executed; every emitted state is a prefix of one and is
compared when it is passed (the shard fails if an emitted state was never reached).
Nothing is decided here: all expected values come from TLC.
"""
import itertools
import os
import random
import re
import time
import zlib
from collections import OrderedDict

import numpy as np

import funsor

funsor.set_backend("numpy")

from funsor import Bint, Real, ops  # noqa: E402
from funsor import interpretations as _I  # noqa: E402
from funsor import interpreter as _interp  # noqa: E402
from funsor.adjoint import AdjointTape  # noqa: E402
from funsor.tensor import Tensor  # noqa: E402
from funsor.terms import Binary, Number, Variable  # noqa: E402

from . import tlc  # noqa: E402

PROBES = ("add", "sub", "red", "subs")
CHEAP = ("add", "sub")      # asked in every state; all four once per distinct stack (per shard)
TOTAL = ("eager", "lazy", "reflect", "normalize", "sequential", "moment_matching")

BASE = list(_interp._STACK)                 # the two frames funsor installs at import
MARK = Variable("u_fired", Real)            # what the user interpretation rewrites to
_X = Variable("x", Real)

# the user-defined partial interpretation: one pattern, Number - Number
U = _I.DispatchedInterpretation("U")


@U.register(Binary, type(ops.sub), Number, Number)
def _u_sub(op, lhs, rhs):
    return MARK


class Injected(Exception):
    """The exception the driver injects into block bodies."""


class InjectedBase(BaseException):
    """The same, but not an Exception (like KeyboardInterrupt / GeneratorExit / SystemExit): the
    stack must unwind on ANY exit (found by a seeded fault that cleaned up in `except Exception`).
    The driver alternates the two kinds by the position of the raise in the history."""


class DriverError(Exception):
    """The driver itself is confused (malformed history): machinery, not a verdict."""


class Abort(BaseException):
    """Leaves the current behaviour after a mismatch (state no longer trustworthy)."""


_counter = itertools.count(1000)


def build_probe(p):
    """Build a fresh probe term under whatever interpretation is active; return the
    class name of what came back.  Terms are fresh every time so that an enclosing
    Memoize never answers from its cache (memoisation itself is C03)."""
    n = next(_counter)
    if p == "add":
        t = Number(n) + Number(2)
    elif p == "sub":
        t = Number(n) - Number(3)
    elif p == "red":
        t = Tensor(np.array([1.0, float(n)]), OrderedDict(i=Bint[2])).reduce(ops.add, "i")
    elif p == "subs":
        t = (_X + Number(n))(x=Number(2))
    else:
        raise ValueError(p)
    return type(t).__name__


def make_cm(kind):
    if kind in TOTAL:
        return getattr(_I, kind)
    if kind == "U":
        return U
    if kind == "adjoint":
        return AdjointTape()
    if kind == "memoize":
        return _I.memoize()
    raise ValueError(kind)


def observed_stack():
    return [repr(f) for f in _interp._STACK]


class LoggingList(list):
    """Stands in for funsor.interpreter._STACK while a trace is recorded."""
    sink = None

    def append(self, x):
        list.append(self, x)
        self.sink("push", s=repr(x))

    def pop(self, *a):
        x = list.pop(self, *a)
        self.sink("pop", s=repr(x))
        return x


def repair_stack():
    """After a behaviour: put the library back into its initial state."""
    st = _interp._STACK
    if len(st) != 2 or st[0] is not BASE[0] or st[1] is not BASE[1]:
        st[:] = BASE
        return True
    return False


# ---------------------------------------------------------------------------------
# expectations: a trie over histories, filled from TLC's records

class Node:
    __slots__ = ("kids", "stack", "ans", "exc", "leaf", "seen")

    def __init__(self):
        self.kids = {}
        self.stack = None
        self.ans = None
        self.exc = None
        self.leaf = False
        self.seen = False

    def expectation(self):
        return {"stack": self.stack, "ans": self.ans, "exc": self.exc}


def node_from_expectation(d):
    n = Node()
    n.stack, n.ans, n.exc = d["stack"], d["ans"], d.get("exc")
    return n


class Trie:
    def __init__(self):
        self.root = Node()
        self.states = 0
        self._intern = {}     # the answers are a function of the top frame: share them

    def add(self, rec):
        n = self.root
        for op in rec["h"]:
            k = n.kids.get(op)
            if k is None:
                k = n.kids[op] = Node()
            n = k
        key = tuple(rec["stack"])
        shared = self._intern.get(key)
        if shared is None:
            shared = self._intern[key] = (rec["stack"], rec["ans"])
        elif shared[1] != rec["ans"]:
            raise DriverError("TLC printed two different answer tables for stack %r" % (key,))
        n.stack, n.ans = shared
        n.exc = rec["exc"]
        n.leaf = rec["leaf"]
        self.states += 1

    def leaves(self):
        """(ops, nodes) of every maximal history, depth first."""
        ops, nodes = [], []

        def rec(n):
            if n.leaf:
                yield list(ops), list(nodes)
            for op in sorted(n.kids):
                ops.append(op)
                nodes.append(n.kids[op])
                yield from rec(n.kids[op])
                ops.pop()
                nodes.pop()
        yield from rec(self.root)

    def unseen(self):
        out = 0
        stack = [self.root]
        while stack:
            n = stack.pop()
            if not n.seen or n.stack is None:
                out += 1
            stack.extend(n.kids.values())
        return out


# ---------------------------------------------------------------------------------
# the driver

class Stats:
    def __init__(self):
        self.behaviours = 0
        self.steps = 0            # stack comparisons
        self.probes = 0           # probe evaluations compared
        self.states_checked = 0   # distinct model states compared (stack + all probes)
        self.aborted = 0
        self.repaired = 0
        self.by_clause = {}       # clause -> [count, minimal example]
        self.frames = set()       # distinct top-frame strings observed

    def mismatch(self, clause, h, want, got, expect):
        ent = self.by_clause.setdefault(clause, [0, None])
        ent[0] += 1
        key = (len(h), h)
        if ent[1] is None or key < (len(ent[1]["h"]), ent[1]["h"]):
            ent[1] = {"h": list(h), "want": want, "got": got, "expect": expect}


class Runner:
    """Executes one history against the library."""

    def __init__(self, ops, nodes, root, stats, trace=None, probe_all=False, probed=None):
        self.probed = probed if probed is not None else set()   # ids of stacks asked all probes
        self.ops = ops
        self.nodes = nodes          # nodes[i]: expectation after ops[i]
        self.root = root
        self.stats = stats
        self.trace = trace          # list collecting events, or None
        self.probe_all = probe_all
        self.tapes = {}             # lexical depth -> live AdjointTape

    # -- recording ------------------------------------------------------------
    def log(self, ev, kind="", mode="", s="", stack=(), p="", cls="", taped=(), flag=""):
        if self.trace is not None:
            self.trace.append({"ev": ev, "kind": kind, "mode": mode, "s": s, "stack": list(stack),
                               "p": p, "cls": cls, "taped": list(taped), "flag": flag})

    def _sink(self, ev, s):
        self.log(ev, s=s)

    # -- comparison -----------------------------------------------------------
    def fail(self, clause, pos, want, got):
        h = self.ops[:pos + 1]
        expect = [self.root.expectation()] + [n.expectation() for n in self.nodes[:pos + 1]]
        self.stats.mismatch(clause, h, want, got, expect)
        raise Abort()

    def after(self, pos):
        """The library is now in the state after ops[pos] (pos = -1: initial state)."""
        node = self.root if pos < 0 else self.nodes[pos]
        if node.stack is None:
            raise DriverError("no expectation for history %r" % (self.ops[:pos + 1],))
        st = self.stats
        st.steps += 1
        obs = observed_stack()
        if obs != node.stack:
            self.fail("stack", pos, node.stack, obs)
        if node.seen and not self.probe_all:
            return
        probes = PROBES
        if not self.probe_all:
            if id(node.stack) in self.probed:
                probes = CHEAP
            else:
                self.probed.add(id(node.stack))
        for p in probes:
            want = node.ans[p]
            before = [(d, len(t.tape)) for d, t in self.tapes.items()]
            self.log("probe_begin", p=p)
            try:
                cls = build_probe(p)
            except Abort:
                raise
            except Exception as e:          # a probe must not raise
                del _interp._STACK[len(node.stack):]
                self.fail("probe_raised", pos, {"probe": p, "cls": want["cls"]},
                          "%s: %s" % (type(e).__name__, str(e)[:200]))
            taped = sorted((d for d, n0 in before if len(self.tapes[d].tape) > n0), reverse=True)
            obs2 = observed_stack()
            self.log("probe_end", p=p, cls=cls, taped=taped, stack=obs2)
            st.probes += 1
            if obs2 != node.stack:
                self.fail("probe_changed_stack", pos, node.stack, {"probe": p, "stack": obs2})
            if cls != want["cls"]:
                self.fail("probe_class", pos, {"probe": p, "cls": want["cls"]}, cls)
            if taped != list(want["taped"]):
                self.fail("probe_tapes", pos, {"probe": p, "taped": want["taped"]}, taped)
        if not node.seen:
            node.seen = True
            st.states_checked += 1
            st.frames.add(node.stack[-1])

    # -- execution ------------------------------------------------------------
    def run(self):
        st = self.stats
        st.behaviours += 1
        saved = None
        if self.trace is not None:
            saved = _interp._STACK
            ll = LoggingList(saved)
            ll.sink = self._sink
            _interp._STACK = ll
        try:
            self.log("begin", stack=observed_stack())
            try:
                self.after(-1)
                end = self.body(0, 0)
                if end != len(self.ops):
                    raise DriverError("history not consumed: %r at %d" % (self.ops, end))
                self.log("end", stack=observed_stack())
            except Abort:
                st.aborted += 1
            except DriverError:
                raise
            except Exception as e:
                # nothing may escape a well-formed behaviour
                pos = getattr(e, "c17_pos", len(self.ops)) - 1
                try:
                    self.stats.mismatch("escaped_exception", self.ops[:pos + 1], None,
                                        "%s: %s" % (type(e).__name__, str(e)[:300]), [])
                finally:
                    st.aborted += 1
        finally:
            if saved is not None:
                saved[:] = list(_interp._STACK)
                _interp._STACK = saved
            if repair_stack():
                st.repaired += 1

    def body(self, pos, depth):
        """Body of the block at lexical depth `depth` (0 = outside all blocks): runs
        operations from `pos`; returns the position of the X that ends this block (or
        len(ops)); an R raises."""
        ops = self.ops
        n = len(ops)
        while pos < n:
            op = ops[pos]
            if op == "X":
                if depth == 0:
                    raise DriverError("X outside any block: %r" % (ops,))
                return pos
            if op == "R":
                self.log("raise")
                self.after(pos)
                e = Injected() if pos % 2 == 0 else InjectedBase()
                e.c17_pos = pos + 1
                raise e
            if op[0] in "WD":
                pos = self.block(pos, depth)
                continue
            raise DriverError("operation %r out of place in %r" % (op, ops))
        return pos

    def block(self, pos, depth):
        """ops[pos] enters a block; returns the position after the block is done
        with (after its X, or after Z C); re-raises when the exception goes on."""
        ops = self.ops
        n = len(ops)
        op = ops[pos]
        head, kind = op.split(":", 1)
        mode = "with" if head[0] == "W" else "deco"
        fails = head.endswith("F")
        level = depth + 1
        entered = False
        self.log("will_enter", kind=kind, mode=mode)
        cm = make_cm(kind)
        if kind == "adjoint":
            self.tapes[level] = cm
        try:
            try:
                if mode == "with":
                    with cm:
                        entered = True
                        self.log("entered", stack=observed_stack())
                        self.after(pos)
                        end = self.body(pos + 1, level)
                        self.log("will_exit")
                else:
                    @cm
                    def decorated():
                        nonlocal entered
                        entered = True
                        self.log("entered", stack=observed_stack())
                        self.after(pos)
                        e_ = self.body(pos + 1, level)
                        self.log("will_exit")
                        return e_
                    end = decorated()
            finally:
                self.tapes.pop(level, None)
        except Abort:
            raise
        except BaseException as e:
            p = getattr(e, "c17_pos", None)
            if p is None:
                if isinstance(e, AssertionError) and not entered:
                    # __enter__ refused (priority list overflow); nothing was pushed
                    self.log("enter_failed", stack=observed_stack())
                    if not fails:
                        self.fail("enter_failed", pos, self.nodes[pos].stack, "AssertionError in __enter__")
                    self.after(pos)
                    p = pos + 1
                    if p >= n:
                        return n
                    if ops[p] == "C":
                        self.log("catch")
                        self.after(p)
                        return p + 1
                    e.c17_pos = p
                    raise
                raise
            # the propagating exception has just left this block
            self.log("exited", stack=observed_stack(), flag="exc")
            if p >= n:
                return n            # history ended while unwinding (hand-made replays)
            if ops[p] != "Z":
                raise DriverError("history %r: exception left a block at %d without Z" % (ops, p))
            self.after(p)
            p += 1
            if p >= n:
                return n            # history ends here (hand-made replays)
            if ops[p] == "C":
                self.log("catch")
                self.after(p)
                return p + 1
            e.c17_pos = p
            raise
        # left normally
        if fails:
            self.fail("enter_should_fail", pos, self.nodes[pos].stack, observed_stack())
        self.log("exited", stack=observed_stack(), flag="normal")
        if end >= n:
            return end          # history ended inside the block (only for hand-made replays)
        self.after(end)
        return end + 1


# ---------------------------------------------------------------------------------
# lenses and tasks

def lens_ops(lens):
    """First operations of a lens (kinds x modes of spec/InterpStack_<lens>.cfg)."""
    with open(os.path.join(tlc.SPEC, "InterpStack_%s.cfg" % lens)) as f:
        text = f.read()
    kinds = re.findall(r'"([^"]+)"', re.search(r"Kinds\s*=\s*\{([^}]*)\}", text).group(1))
    modes = re.findall(r'"([^"]+)"', re.search(r"Modes\s*=\s*\{([^}]*)\}", text).group(1))
    return [("W:" if m == "with" else "D:") + k for m in sorted(modes, reverse=True) for k in kinds]


def shard_cfg(lens, firsts):
    """Text of spec/InterpStack_<lens>.cfg restricted to histories starting with `firsts`."""
    with open(os.path.join(tlc.SPEC, "InterpStack_%s.cfg" % lens)) as f:
        text = f.read()
    text, n = re.subn(r"First\s*=\s*\{\s*\}", "First = {%s}" % ", ".join('"%s"' % o for o in firsts), text)
    if n != 1:
        raise DriverError("no 'First = {}' in the cfg of lens %s" % lens)
    return text


def run_task(task):
    """One shard: TLC on lens restricted to histories starting with one of `firsts`, then
    replay of every maximal history, then trace recording of a seeded sample of them.
    Runs in a worker process; returns a picklable summary."""
    lens, firsts, n_trace, seed, tlc_workers, timeout = task
    name = "%s/%s" % (lens, "+".join(firsts))
    t0 = time.time()
    out = {"lens": lens, "first": "+".join(firsts), "machinery": [], "tlc": {}, "trace_runs": []}
    cfg = "InterpStack_%s_shard" % lens
    run = tlc.TLCRun("InterpStack", cfg=cfg, workers=tlc_workers, timeout=timeout,
                     extra_files={cfg + ".cfg": shard_cfg(lens, firsts)})
    trie = Trie()
    try:
        for rec in run:
            if rec is not None and "h" in rec:
                trie.add(rec)
    except DriverError as e:
        out["machinery"].append({"clause": "driver", "detail": "%s: %s" % (name, e)})
    out["tlc"] = {"lens": lens, "first": out["first"], "ok": run.ok, "distinct": run.distinct,
                  "generated": run.generated, "wall": round(run.wall, 1), "simulate": False}
    if not run.ok:
        out["machinery"].append({"clause": "tlc", "detail": "%s: %s" % (name, run.error or run.messages[:3])})
        return out
    if trie.states != run.distinct:
        out["machinery"].append({"clause": "tlc", "detail": "%s: %d records for %d distinct states"
                                 % (name, trie.states, run.distinct)})
    t1 = time.time()
    stats = Stats()
    probed = set()
    leaves = 0
    rnd = random.Random(seed * 1000003 + zlib.crc32(name.encode()))
    picked = []
    for ops_, nodes in trie.leaves():
        leaves += 1
        try:
            Runner(ops_, nodes, trie.root, stats, probed=probed).run()
        except DriverError as e:
            out["machinery"].append({"clause": "driver", "detail": "%s: %s" % (name, e)})
            break
        # reservoir sample of behaviours for the trace direction
        if n_trace:
            if len(picked) < n_trace:
                picked.append((ops_, nodes))
            else:
                j = rnd.randrange(leaves)
                if j < n_trace:
                    picked[j] = (ops_, nodes)
    unseen = trie.unseen() if not stats.by_clause and not out["machinery"] else 0
    if unseen:
        out["machinery"].append({"clause": "coverage", "detail": "%s: %d emitted states were never reached "
                                 "by a replayed behaviour" % (name, unseen)})
    t2 = time.time()
    # C->S: record the sample (validated centrally by validate_trace)
    tstats = Stats()
    for ops_, nodes in picked:
        tr = []
        try:
            Runner(ops_, nodes, trie.root, tstats, trace=tr, probe_all=True).run()
        except DriverError as e:
            out["machinery"].append({"clause": "driver", "detail": "%s (trace): %s" % (name, e)})
            break
        out["trace_runs"].append((ops_, tr))
    for c, v in tstats.by_clause.items():      # same comparisons, made again while recording
        ent = stats.by_clause.setdefault(c, [0, None])
        ent[0] += v[0]
        if ent[1] is None or (len(v[1]["h"]), v[1]["h"]) < (len(ent[1]["h"]), ent[1]["h"]):
            ent[1] = v[1]
    out.update({
        "states": trie.states, "leaves": leaves, "steps": stats.steps + tstats.steps,
        "probes": stats.probes + tstats.probes, "stacks_fully_probed": len(probed),
        "states_checked": stats.states_checked, "aborted": stats.aborted + tstats.aborted,
        "repaired": stats.repaired + tstats.repaired,
        "by_clause": stats.by_clause, "frames": sorted(stats.frames),
        "sample": [p[0] for p in picked[:2]],
        "t_tlc": round(t1 - t0, 1), "t_replay": round(t2 - t1, 1), "t_trace": round(time.time() - t2, 1),
    })
    return out


def validate_runs(runs, timeout=1800):
    """runs: [(history, events)] -> result of validate_trace over their concatenation."""
    events, index = [], []
    for h, tr in runs:
        index.append((h, len(events), len(events) + len(tr)))
        events.extend(tr)
    return validate_trace(events, index, timeout=timeout)


def validate_trace(events, runs, timeout=900):
    """Hand recorded events to TLC (spec/Trace_InterpStack.tla).  runs: (history,
    first event index, end index).  Returns counts and the failing runs."""
    from .judge import JudgeRun
    res = {"events": len(events), "runs": len(runs), "rejected": [], "error": None, "states": 0}
    if not events:
        return res
    for i, e in enumerate(events):
        e["id"] = i + 1
    jr = JudgeRun("Trace_InterpStack")
    verdicts = jr.judge(events, timeout=timeout)
    res["states"] = jr.states
    res["error"] = jr.error
    bad = sorted(i for i, v in verdicts.items() if not v.get("ok"))
    for i in bad:
        h = next((r[0] for r in runs if r[1] < i <= r[2]), None)
        res["rejected"].append({"h": h, "clause": verdicts[i].get("clause"), "event": events[i - 1],
                                "want": verdicts[i].get("want")})
    res["verdicts"] = len(verdicts)
    return res


def selftest_trace(seed=0):
    """The trace judge must accept a recorded run and reject the same run with one pop
    dropped (and with one frame pushed twice).  Returns (ok, detail); ok is None when the
    library's own trace of the self-test history is rejected (reported as a violation)."""
    ops_ = ["W:lazy", "W:U", "W:adjoint", "R", "Z", "C", "W:memoize", "X", "X", "X"]
    # expectations are not needed to *record*; use a permissive runner
    tr = []
    r = Runner(ops_, [None] * len(ops_), None, Stats(), trace=tr, probe_all=True)
    r.after = lambda pos: _selftest_probe(r)
    r.run()
    good = validate_trace([dict(e) for e in tr], [(ops_, 0, len(tr))])
    if good["error"] or good["verdicts"] != len(tr):
        return False, {"stage": "judge failed on the intact trace", "res": good}
    if good["rejected"]:
        # the library itself misbehaves on the self-test history: a finding, not machinery;
        # the corruption tests would be inconclusive
        return None, {"stage": "recorded trace rejected", "rejected": good["rejected"]}
    detail = {"events": len(tr)}
    # drop each block-level pop in turn (pops outside probes)
    inprobe = False
    block_pops = []
    for i, e in enumerate(tr):
        if e["ev"] == "probe_begin":
            inprobe = True
        elif e["ev"] == "probe_end":
            inprobe = False
        elif e["ev"] == "pop" and not inprobe:
            block_pops.append(i)
    rnd = random.Random(seed)
    drop = block_pops[rnd.randrange(len(block_pops))]
    corrupted = [dict(e) for k, e in enumerate(tr) if k != drop]
    bad = validate_trace(corrupted, [(ops_, 0, len(corrupted))])
    detail["dropped_pop_at"] = drop
    detail["dropped_pop_verdict"] = [r_["clause"] for r_ in bad["rejected"]]
    if bad["error"] or not bad["rejected"]:
        return False, {"stage": "trace with a dropped pop was NOT rejected", "res": bad}
    dup = next(i for i, e in enumerate(tr) if e["ev"] == "push" and tr[i - 1]["ev"] == "will_enter")
    corrupted = [dict(e) for e in tr[:dup + 1]] + [dict(tr[dup])] + [dict(e) for e in tr[dup + 1:]]
    bad = validate_trace(corrupted, [(ops_, 0, len(corrupted))])
    detail["double_push_verdict"] = [r_["clause"] for r_ in bad["rejected"]]
    if bad["error"] or not bad["rejected"]:
        return False, {"stage": "trace with a doubled push was NOT rejected", "res": bad}
    return True, detail


def _selftest_probe(r):
    for p in PROBES:
        before = [(d, len(t.tape)) for d, t in r.tapes.items()]
        r.log("probe_begin", p=p)
        cls = build_probe(p)
        taped = sorted((d for d, n0 in before if len(r.tapes[d].tape) > n0), reverse=True)
        r.log("probe_end", p=p, cls=cls, taped=taped, stack=observed_stack())


def replay_history(h, expect):
    """Re-execute one history with the per-step expectations stored in a replay file."""
    nodes = [node_from_expectation(d) for d in expect]
    root, nodes = nodes[0], nodes[1:]
    nodes[-1].leaf = True
    stats = Stats()
    Runner(list(h), nodes, root, stats, probe_all=True).run()
    return stats
