"""C->S: hand an ndjson file of recorded events to TLC (spec/Judge.tla) and
collect one verdict per event."""
import json
import os
import tempfile

from . import tlc


class JudgeRun:
    def __init__(self, module="Judge"):
        self.module = module
        self.verdicts = {}
        self.states = 0
        self.transitions = 0
        self.error = None
        self.wall = 0.0

    def judge(self, events, timeout=1800, workers=1):
        """events: list of dicts each with a unique integer 'id' and a 'kind'."""
        os.makedirs(tlc.BUILD, exist_ok=True)
        fd, path = tempfile.mkstemp(prefix="trace-", suffix=".ndjson", dir=tlc.BUILD)
        try:
            with os.fdopen(fd, "w") as f:
                for e in events:
                    f.write(json.dumps({k: v for k, v in e.items() if not k.startswith("_") and not (k == "lhs" and e.get("kind") == "project")}) + "\n")
            run = tlc.TLCRun(self.module, workers=workers, env={"TRACE_FILE": path}, timeout=timeout)
            for rec in run:
                if rec is not None and "id" in rec:
                    self.verdicts[rec["id"]] = rec
            self.states += run.distinct
            self.transitions += run.generated
            self.wall += run.wall
            if not run.ok:
                self.error = run.error or "\n".join(run.output_tail[-30:])
            elif run.distinct != len(events) + 1:
                self.error = "judge consumed %d of %d lines" % (run.distinct - 1, len(events))
        finally:
            os.unlink(path)
        return self.verdicts


def chunks(seq, n):
    for i in range(0, len(seq), n):
        yield seq[i:i + n]


def judge_parallel(events, procs=8, chunk=2000, module="Judge", timeout=300):
    """Split a long event list over several TLC processes (each single-worker)."""
    from concurrent.futures import ThreadPoolExecutor
    runs = []

    def one(evs):
        jr = JudgeRun(module)
        jr.judge(evs, timeout=timeout)
        return jr

    # balance: biggest events first, dealt round-robin over the chunks
    n_chunks = max(1, (len(events) + chunk - 1) // chunk)
    order = sorted(events, key=lambda e: -len(json.dumps(e)))
    parts = [order[i::n_chunks] for i in range(n_chunks)]
    with ThreadPoolExecutor(procs) as ex:
        runs = list(ex.map(one, [p for p in parts if p]))
    out = JudgeRun(module)
    for r in runs:
        out.verdicts.update(r.verdicts)
        out.states += r.states
        out.transitions += r.transitions
        out.wall = max(out.wall, r.wall)
        out.error = out.error or r.error
    return out
