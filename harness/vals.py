"""Exact spec values <-> Python floats / numpy arrays.

A spec scalar is [kind, n, d]; an array value is {"sh": [...], "v": [scalars]}.
Conversions to float are the only numeric code on the Python side; the
specification (TLC) is the only source of expected values.
"""
import math
from fractions import Fraction

import numpy as np

RTOL = 1e-6
ATOL = 1e-8


def scalar_to_float(s):
    k, n, d = s
    if k == "R":
        return n / d
    if k == "L":
        return math.log(n) - math.log(d)
    if k == "NI":
        return -math.inf
    if k == "PI":
        return math.inf
    raise ValueError("undefined scalar in expectation: %r" % (s,))


def arr_to_np(a):
    if "f" in a:                                  # already floats (a shifted table, C08)
        return np.array(a["f"], dtype=np.float64).reshape(tuple(a["sh"]))
    flat = [scalar_to_float(s) for s in a["v"]]
    return np.array(flat, dtype=np.float64).reshape(tuple(a["sh"]))


def close(actual, expected):
    """Elementwise comparison with tolerance; infinities must match exactly; NaN never matches."""
    actual = np.asarray(actual, dtype=np.float64)
    expected = np.asarray(expected, dtype=np.float64)
    if actual.shape != expected.shape:
        return False
    if np.isnan(actual).any():
        return False
    inf_e = np.isinf(expected)
    inf_a = np.isinf(actual)
    if (inf_e != inf_a).any():
        return False
    if inf_e.any() and (actual[inf_e] != expected[inf_e]).any():
        return False
    fin = ~inf_e
    return bool(np.all(np.abs(actual[fin] - expected[fin]) <= ATOL + RTOL * np.abs(expected[fin])))


def R(n, d=1):
    f = Fraction(n, d)
    return ["R", f.numerator, f.denominator]


def L(n, d=1):
    f = Fraction(n, d)
    if f == 1:
        return ["R", 0, 1]
    return ["L", f.numerator, f.denominator]


NI = ["NI", 0, 1]
PI = ["PI", 0, 1]

MAXI = 1 << 26


def _near(x, y):
    return abs(x - y) <= 1e-9 * max(1.0, abs(x), abs(y))


def float_to_scalar(x, log_domain=False, max_den=64):
    """Exact spec scalar for a float, or None when it is not explainable: a rational with
    a small denominator, or - in log_domain - log of a ratio of small integers (within
    1e-9 relative).  The candidate sets are kept sparse so that snapping is unambiguous."""
    x = float(x)
    if math.isnan(x):
        return None
    if x == -math.inf:
        return NI
    if x == math.inf:
        return PI
    if log_domain:
        if x == 0.0:
            return ["R", 0, 1]
        if abs(x) > 14:
            return None
        e = math.exp(x)
        f = Fraction(e).limit_denominator(1024)
        if f <= 0 or f.numerator > (1 << 20):
            return None
        if f.denominator > 1 and f.numerator > 1024:
            return None
        if _near(math.log(f.numerator) - math.log(f.denominator), x):
            return L(f.numerator, f.denominator)
        return None
    if abs(x) > MAXI:
        return None
    f = Fraction(x).limit_denominator(max_den)
    if _near(float(f), x) and abs(f.numerator) <= MAXI:
        return ["R", f.numerator, f.denominator]
    return None
