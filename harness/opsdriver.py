"""C15 executor: op tables -> TLC, and TLC-generated op / einsum cases -> funsor.ops.

Nothing here knows what an op means.  The module
  * records the published algebraic tables from the imported funsor (record_tables) so
    that TLC (spec/OpsAlgebra.tla) can decide every entry,
  * evaluates funsor.ops.<op> / funsor.einsum.* on the operands TLC generated
    (spec/OpsGrid.tla, spec/OpsEinsum.tla), presented as Python scalars, 0-d arrays,
    numpy scalars and arrays, and compares with the expectation TLC computed
    (harness/vals.py: scalar_to_float, close).
"""
import json
import math
import os
import sys
import warnings

import numpy as np

from . import vals

FMAX = sys.float_info.max
TINY = 5e-324          # smallest positive (subnormal) float

TABLES = ["UNITS", "DISTRIBUTIVE_OPS", "BINARY_INVERSES", "SAFE_BINARY_INVERSES",
          "UNARY_INVERSES", "PRODUCT_TO_POWER"]


def _funsor():
    import funsor
    funsor.set_backend("numpy")
    return funsor


def opname(op):
    """funsor's op name without the trailing underscore (and_ -> and)."""
    name = getattr(op, "__name__", None) or str(op)
    return name.rstrip("_")


def unit_scalar(v):
    """Exact spec scalar of a declared unit; ["U",0,1] when it has none (NaN, array...)."""
    try:
        if isinstance(v, (bool, np.bool_)):
            return ["R", int(bool(v)), 1]
        s = vals.float_to_scalar(float(v))
    except Exception:
        s = None
    return s if s is not None else ["U", 0, 1]


def record_tables():
    """The six tables as they are in the imported code, as a flat list of entries."""
    _funsor()
    from funsor import ops
    U = ["U", 0, 1]
    entries = []
    for op, v in ops.UNITS.items():
        entries.append({"table": "UNITS", "a": opname(op), "b": "", "v": unit_scalar(v), "py": repr(v)})
    for plus, times in ops.DISTRIBUTIVE_OPS:
        entries.append({"table": "DISTRIBUTIVE_OPS", "a": opname(plus), "b": opname(times), "v": U, "py": ""})
    for name in ("BINARY_INVERSES", "SAFE_BINARY_INVERSES", "UNARY_INVERSES", "PRODUCT_TO_POWER"):
        for op, other in getattr(ops, name).items():
            entries.append({"table": name, "a": opname(op), "b": opname(other), "v": U, "py": ""})
    entries.sort(key=lambda e: (TABLES.index(e["table"]), e["a"], e["b"]))
    return entries


def write_tables(path):
    entries = record_tables()
    with open(path, "w") as f:
        json.dump({"entries": entries}, f)
    return entries


# ---------------------------------------------------------------------------
# spec values -> Python operands

LETTERINGS = [("a", "b", "c"), ("z", "Q", "k")]
LOGIC = ("and", "or", "xor", "invert", "all", "any")
NOAXIS = -100


def to_float(s):
    k = s[0]
    if k == "F":
        return FMAX if s[1] > 0 else -FMAX
    if k == "T":
        return TINY
    return vals.scalar_to_float(s)


def show(s):
    k, n, d = s
    if k == "R":
        return str(n) if d == 1 else "%d/%d" % (n, d)
    if k == "L":
        return "log(%s)" % (str(n) if d == 1 else "%d/%d" % (n, d))
    return {"NI": "-inf", "PI": "inf", "F": "FMAX" if n > 0 else "-FMAX", "T": "TINY"}.get(k, k)


def np_of(a, boolean=False):
    flat = [to_float(s) for s in a["v"]]
    if boolean:
        return np.array([bool(x) for x in flat], dtype=bool).reshape(tuple(a["sh"]))
    return np.array(flat, dtype=np.float64).reshape(tuple(a["sh"]))


def is_integral(a):
    return all(s[0] == "R" and s[2] == 1 for s in a["v"])


def present(x, kind):
    """One operand (numpy array) in one of its Python presentations."""
    if kind == "arr":
        return x
    if kind == "np0":
        return np.array(x[()])
    v = x[()]
    if kind == "gen":
        return v                      # np.float64 / np.bool_
    if kind == "py":
        return bool(v) if x.dtype == bool else float(v)
    if kind == "int":
        return int(v)
    raise ValueError(kind)


def kinds_of(a, boolean):
    if a["sh"]:
        return ["arr"]
    ks = ["py", "np0", "gen"]
    if not boolean and is_integral(a):
        ks.append("int")
    return ks


def kind_pairs(a, b, boolean):
    ka, kb = kinds_of(a, boolean), kinds_of(b, boolean)
    if not a["sh"] and not b["sh"]:
        pairs = [("py", "py"), ("np0", "np0"), ("gen", "gen"), ("py", "np0"), ("np0", "py"),
                 ("gen", "py"), ("py", "gen")]
        if "int" in ka and "int" in kb:
            pairs += [("int", "int"), ("int", "np0"), ("np0", "int")]
        return pairs
    return [(x, y) for x in ka for y in kb]


class Raised:
    def __init__(self, exc):
        self.exc = exc

    def __repr__(self):
        return "raised %s(%s)" % (type(self.exc).__name__, self.exc)


def call(fn, *args, **kw):
    try:
        with np.errstate(all="ignore"), warnings.catch_warnings():
            warnings.simplefilter("ignore")
            return fn(*args, **kw)
    except Exception as e:     # the verdict is taken by the caller
        return Raised(e)


def as_real(res):
    """Result as a float64 array; complex values with a non-zero imaginary part become NaN."""
    r = np.asarray(res)
    if np.iscomplexobj(r):
        r = np.where(r.imag == 0, r.real, np.nan)
    if r.dtype == object:
        raise TypeError("non-numeric result %r" % (res,))
    return r.astype(np.float64)


def elem_ok(x, st):
    """Is the float x allowed by the expectation scalar st?  (U is not asked.)"""
    k = st[0]
    if math.isnan(x):
        return False
    if k in ("ANY", "AG"):
        return True
    if k == "PIS":
        return x == math.inf or vals.close(x, FMAX)
    if k == "NIS":
        return x == -math.inf or vals.close(x, -FMAX)
    return vals.close(x, to_float(st))


class Replayer:
    """Evaluates TLC's records on the imported funsor and collects verdicts."""

    def __init__(self):
        _funsor()
        from funsor import ops
        from funsor.einsum import numpy_log, numpy_map
        self.ops = ops
        self.einsums = {"einsum_log": numpy_log.einsum, "einsum_map": numpy_map.einsum}
        self.viol = {}            # (clause, sig) -> violation dict (first instance, with a count)
        self.n = {"records": 0, "evaluations": 0, "elements_exact": 0, "elements_agree_only": 0,
                  "elements_any_non_nan": 0, "elements_saturating": 0, "elements_outside_domain": 0,
                  "raised_outside_domain": 0, "cross_kind_comparisons": 0, "einsum_equations": 0,
                  "einsum_evaluations": 0, "limit_cases": 0}
        self.by_kind = {}
        self.samples = []
        self.ops_seen = set()

    # -- bookkeeping
    def flag(self, clause, sig, detail, case):
        key = (clause, sig)
        if key in self.viol:
            self.viol[key]["count"] += 1
            return
        self.viol[key] = {"clause": clause, "sig": sig, "detail": detail, "case": case,
                          "engine": "opsgrid", "count": 1}

    def fn(self, name):
        return getattr(self.ops, {"and": "and_", "or": "or_"}.get(name, name))

    def tally_status(self, st):
        k = st[0]
        key = {"U": "elements_outside_domain", "AG": "elements_agree_only", "ANY": "elements_any_non_nan",
               "PIS": "elements_saturating", "NIS": "elements_saturating"}.get(k, "elements_exact")
        self.n[key] += 1

    # -- one evaluation against an expectation array
    def judge(self, res, exp, sig_of, case, kinds):
        """res: result or Raised; exp: {"sh","v"}; sig_of(i) -> signature of element i.
        Returns the float array (or None)."""
        sts = exp["v"]
        constrained = [i for i, st in enumerate(sts) if st[0] != "U"]
        self.n["evaluations"] += 1
        if isinstance(res, Raised):
            if not constrained:
                self.n["raised_outside_domain"] += 1
            else:
                i = constrained[0]
                self.flag("raises", sig_of(i), {"kinds": kinds, "got": repr(res), "expected": show(sts[i])}, case)
            return None
        try:
            r = as_real(res)
        except Exception as e:
            if constrained:
                self.flag("value", sig_of(constrained[0]), {"kinds": kinds, "got": repr(e)}, case)
            return None
        if r.shape != tuple(exp["sh"]):
            if constrained:
                self.flag("shape", sig_of(constrained[0]),
                          {"kinds": kinds, "got_shape": list(r.shape), "expected_shape": exp["sh"]}, case)
            return None
        flat = r.reshape(-1)
        for i in constrained:
            x = float(flat[i])
            if not elem_ok(x, sts[i]):
                clause = "nan" if math.isnan(x) else "value"
                self.flag(clause, sig_of(i), {"kinds": kinds, "got": x, "expected": show(sts[i])}, case)
        return flat

    def agree(self, results, exp, sig_of, case, reference=None):
        """All presentations of the same operands give the same answer (elements the spec
        constrains to a value or to agreement).  results: [(kinds, flat array or None)]."""
        good = [(k, r) for k, r in results if r is not None]
        if reference is None:
            if len(good) < 2:
                return
            ref_k, ref = good[0]
            rest = good[1:]
        else:
            ref_k, ref = reference
            rest = good
        for i, st in enumerate(exp["v"]):
            if st[0] in ("U", "ANY", "PIS", "NIS") or ref[i] is None:
                continue
            x0 = float(ref[i])
            if math.isnan(x0):
                continue        # already flagged
            for k, r in rest:
                self.n["cross_kind_comparisons"] += 1
                x = float(r[i])
                if math.isnan(x):
                    continue    # already flagged
                if not (vals.close(x, x0) or vals.close(x0, x)):
                    self.flag("kinds_disagree", sig_of(i),
                              {"kinds": k, "got": x, "reference_kinds": ref_k, "reference": x0}, case)

    # -- record kinds
    def run(self, rec):
        self.n["records"] += 1
        kind = rec["kind"]
        self.by_kind[kind] = self.by_kind.get(kind, 0) + 1
        getattr(self, "run_" + kind)(rec)
        if len(self.samples) < 6 and self.n["records"] % 997 == 1:
            self.samples.append({k: rec[k] for k in rec if k not in ("operands",)})

    def run_bin(self, rec):
        op, a, b, exp = rec["op"], rec["a"], rec["b"], rec["exp"]
        self.ops_seen.add(op)
        boolean = op in LOGIC
        fn = self.fn(op)
        xa, xb = np_of(a, boolean), np_of(b, boolean)
        for st in exp["v"]:
            self.tally_status(st)
        sh = tuple(exp["sh"])
        ia = np.broadcast_to(np.arange(xa.size).reshape(xa.shape), sh).reshape(-1)
        ib = np.broadcast_to(np.arange(xb.size).reshape(xb.shape), sh).reshape(-1)
        results = []
        for ka, kb in kind_pairs(a, b, boolean):
            def sig_of(i, ka=ka, kb=kb):
                return "%s[%s,%s](%s,%s)" % (op, ka, kb, show(a["v"][ia[i]]), show(b["v"][ib[i]]))
            res = call(fn, present(xa, ka), present(xb, kb))
            results.append(("%s,%s" % (ka, kb), self.judge(res, exp, sig_of, rec, "%s,%s" % (ka, kb))))

        def sig_any(i):
            return "%s(%s,%s)" % (op, show(a["v"][ia[i]]), show(b["v"][ib[i]]))
        self.agree(results, exp, sig_any, rec)
        if a["sh"] or b["sh"]:
            # elementwise: where the spec has no exact value the array answer must be the scalar answer
            ref = [None] * len(exp["v"])
            need = False
            for i, st in enumerate(exp["v"]):
                if st[0] == "AG":
                    r = call(fn, present(xa.reshape(-1)[ia[i]:ia[i] + 1].reshape(()), "py"),
                             present(xb.reshape(-1)[ib[i]:ib[i] + 1].reshape(()), "py"))
                    if isinstance(r, Raised):
                        self.flag("raises", "%s[py,py](%s,%s)" % (op, show(a["v"][ia[i]]), show(b["v"][ib[i]])),
                                  {"got": repr(r), "expected": "a value (inside the domain)"}, rec)
                    else:
                        try:
                            ref[i] = float(as_real(r))
                            need = True
                        except Exception:
                            ref[i] = None
            if need:
                self.agree(results, exp, sig_any, rec, reference=("py,py elementwise", ref))

    def run_un(self, rec):
        op, a, exp = rec["op"], rec["a"], rec["exp"]
        self.ops_seen.add(op)
        boolean = op in LOGIC
        fn = self.fn(op)
        xa = np_of(a, boolean)
        for st in exp["v"]:
            self.tally_status(st)
        results = []
        for ka in kinds_of(a, boolean):
            def sig_of(i, ka=ka):
                return "%s[%s](%s)" % (op, ka, show(a["v"][i]))
            res = call(fn, present(xa, ka))
            results.append((ka, self.judge(res, exp, sig_of, rec, ka)))

        def sig_any(i):
            return "%s(%s)" % (op, show(a["v"][i]))
        self.agree(results, exp, sig_any, rec)
        if a["sh"]:
            ref = [None] * len(exp["v"])
            need = False
            for i, st in enumerate(exp["v"]):
                if st[0] == "AG":
                    r = call(fn, present(xa.reshape(-1)[i:i + 1].reshape(()), "py"))
                    if isinstance(r, Raised):
                        self.flag("raises", "%s[py](%s)" % (op, show(a["v"][i])),
                                  {"got": repr(r), "expected": "a value (inside the domain)"}, rec)
                    else:
                        try:
                            ref[i] = float(as_real(r))
                            need = True
                        except Exception:
                            ref[i] = None
            if need:
                self.agree(results, exp, sig_any, rec, reference=("py elementwise", ref))

    def run_red(self, rec):
        op, a, exp = rec["op"], rec["a"], rec["exp"]
        self.ops_seen.add(op)
        boolean = op in LOGIC
        fn = self.fn(op)
        xa = np_of(a, boolean)
        axis = None if rec["axis"] == NOAXIS else rec["axis"]
        keep = bool(rec["keep"])
        for st in exp["v"]:
            self.tally_status(st)
        results = []
        for ka in (["arr"] if a["sh"] else ["np0", "gen"]):
            def sig_of(i, ka=ka):
                return "%s[%s,shape=%s,axis=%s,keepdims=%s](%s)" % (
                    op, ka, tuple(a["sh"]), axis, keep, ",".join(show(s) for s in a["v"]))
            res = call(fn, present(xa, ka), axis, keep)
            results.append((ka, self.judge(res, exp, sig_of, rec, ka)))
        self.agree(results, exp, lambda i: "%s(%s)" % (op, ",".join(show(s) for s in a["v"])), rec)

    def run_lim(self, rec):
        """Hand-stated float-range limit cases (spec/OpsGrid.tla, Limits)."""
        op, args, exp = rec["op"], rec["args"], rec["exp"]
        self.n["limit_cases"] += 1
        xs = [np_of(a) for a in args]

        def sig_of(i, tag=""):
            return "limit:%s%s(%s)" % (op, tag, ";".join(",".join(show(s) for s in a["v"]) for a in args))
        if op in self.einsums:
            res = call(self.einsums[op], rec["eq"], *xs)
            self.judge(res, exp, lambda i: sig_of(i, "[%s]" % rec["eq"]), rec, "arr")
            return
        fn = self.fn(op)
        if op == "logsumexp":
            axis = None if rec["axis"] == NOAXIS else rec["axis"]
            res = call(fn, xs[0], axis, False)
            self.judge(res, exp, lambda i: sig_of(i, "[arr,axis=%s]" % axis), rec, "arr")
            return
        if all(not a["sh"] for a in args):
            combos = [("py",) * len(args), ("np0",) * len(args), ("gen",) * len(args)]
            if len(args) == 2:
                combos += [("py", "np0"), ("np0", "py")]
        else:
            combos = [tuple("arr" if a["sh"] else k for a in args) for k in ("py", "np0")]
        for ks in combos:
            res = call(fn, *[present(x, k) for x, k in zip(xs, ks)])
            self.judge(res, exp, lambda i, ks=ks: sig_of(i, "[%s]" % ",".join(ks)), rec, ",".join(ks))

    def run_einsum(self, rec, letterings=None):
        self.n["einsum_equations"] += 1
        xs = [np_of(a) for a in rec["operands"]]
        for letters in (letterings or self.letterings):
            name = {i + 1: c for i, c in enumerate(letters)}
            eq = ",".join("".join(name[s] for s in dims) for dims in rec["ins"]) + "->" + \
                "".join(name[s] for s in rec["out"])
            for which, key in (("einsum_log", "exp_log"), ("einsum_map", "exp_map")):
                exp = rec[key]
                self.n["einsum_evaluations"] += 1
                for st in exp["v"]:
                    self.tally_status(st)
                res = call(self.einsums[which], eq, *[x.copy() for x in xs])

                def sig_of(i, which=which, eq=eq):
                    return "%s[%s,fill=%d]" % (which, eq, rec["fill"])
                self.judge(res, exp, sig_of, rec, "arr")

    letterings = LETTERINGS[:1]

    def violations(self):
        out = []
        for v in self.viol.values():
            v = dict(v)
            v["detail"] = dict(v["detail"], instances=v.pop("count"))
            out.append(v)
        return out
