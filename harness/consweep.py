"""C07, WeakFinal on more constructor paths.

spec/ConsCache.tla proves on every behaviour that once all references are dropped (and the
collector has run) every cons table is back to its baseline (Inv WeakFinal).  The replayed
histories only use the recipes of the lenses; this module drives MORE public constructor paths
(diagonal substitutions that materialise aranges, string renamings, slices, reductions, Stack /
Cat / Lambda, Gaussian construction, to_funsor / to_data, sampling) and observes only the final
state: after `del` + gc the sizes of all cons / intern tables must not have grown between two
consecutive rounds that use DIFFERENT sizes (a cache keyed by a dropped object or domain grows by
one entry per round).  Run as a subprocess:  python -m harness.consweep  -> JSON on stdout."""
import gc
import json
import sys
from collections import OrderedDict

import numpy as np

import funsor
from funsor import ops
from funsor.domains import ArrayType, Bint, Real, Reals
from funsor.tensor import Tensor
from funsor.terms import Cat, Funsor, Lambda, Number, Slice, Stack, Variable, to_funsor

funsor.set_backend("numpy")


def _subclasses(c):
    for s_ in c.__subclasses__():
        yield s_
        yield from _subclasses(s_)


def tables():
    out = OrderedDict()
    for c in [Funsor] + sorted(set(_subclasses(Funsor)), key=lambda c: c.__name__):
        t = c.__dict__.get("_cons_cache")
        if t is not None:
            out["cons:" + c.__name__] = t
    out["type:ArrayType"] = ArrayType._type_cache
    for n in sorted(dir(ops)):
        c = getattr(ops, n)
        if isinstance(c, type) and "_instance_cache" in c.__dict__:
            out["op:" + n] = c._instance_cache
    return out


def sizes():
    gc.collect()
    gc.collect()
    return {k: len(t) for k, t in tables().items()}


def paths(n):
    """constructor paths parametrised by a size n (fresh domains / arrays every round)"""
    def sq():
        return Tensor(np.arange(float(n * n)).reshape(n, n), OrderedDict(a=Bint[n], b=Bint[n]))

    def vec():
        return Tensor(np.arange(float(n)), OrderedDict(a=Bint[n]))
    v = lambda name: Variable(name, Bint[n])   # noqa: E731
    return OrderedDict([
        ("diagonal_same_variable", lambda: sq()(a=v("d"), b=v("d"))),
        ("diagonal_rename_onto_input", lambda: sq()(a="b")),
        ("rename_by_string", lambda: sq()(a="z%d" % n)),
        ("to_funsor_str", lambda: to_funsor("w%d" % n, Bint[n])),
        ("index_by_expression", lambda: vec()(a=(v("k") + Number(0, n)) % Number(n, n + 1))),
        ("slice", lambda: vec()(a=Slice("s", 0, n, 2, n))),
        ("reduce", lambda: sq().reduce(ops.add, "a")),
        ("lazy_reduce_binary", lambda: (Variable("x", Reals[n]).sum() + vec()).reduce(ops.add, "a")),
        ("stack_cat_lambda", lambda: (Stack("k", (vec(), vec())), Cat("a", (vec(), vec())), Lambda(v("a"), vec()))),
        ("materialize", lambda: vec().materialize(v("a") + v("a"))),
        ("to_data_roundtrip", lambda: funsor.to_funsor(funsor.to_data(sq(), {"a": -2, "b": -1}), Real, {-2: "a", -1: "b"})),
        ("getitem_lazy", lambda: Variable("y", Reals[n, 3])[:, Variable("j", Bint[3])]),
        ("sample", lambda: vec().sample(frozenset(["a"]))),
    ])


def main():
    out = {"paths": {}, "violations": []}
    names = list(paths(5))
    for name in names:
        growth = []
        try:
            for rnd, n in enumerate((5, 7, 11, 13)):
                before = sizes()
                r = paths(n)[name]()
                del r
                after = sizes()
                growth.append({k: after[k] - before.get(k, 0) for k in after if after[k] != before.get(k, 0)})
        except Exception as e:  # noqa
            out["paths"][name] = {"declined": "%s: %s" % (type(e).__name__, str(e)[:80])}
            continue
        # rounds 1.. (round 0 warms caches that are legitimately populated once)
        leaked = [g for g in growth[1:] if any(d > 0 for d in g.values())]
        out["paths"][name] = {"growth_per_round": growth}
        if len(leaked) >= 2:
            out["violations"].append({"clause": "weak_final_api_path", "sig": name,
                                      "detail": {"growth_per_round": growth}})
    json.dump(out, sys.stdout)


if __name__ == "__main__":
    main()
