"""Executor: spec term (AST, JSON form) -> the one public funsor call per node.

Nothing here knows what a term *means*; it only maps each constructor of the
specification to the public API call it names (DESIGN.md appendix C).  Every
intermediate funsor and every leaf array is registered with a `Watch` so that
the frame condition (C20) can be checked after any step.
"""
import hashlib
from collections import OrderedDict

import numpy as np

import funsor
from funsor import ops
from funsor.domains import Array, Bint, Real, Reals
from funsor.tensor import Tensor
from funsor.terms import (Cat, Funsor, Independent, Lambda, Number, Slice, Stack,
                          Variable)

from . import vals

funsor.set_backend("numpy")


def dom_of(d):
    dt, sh = d["dt"], tuple(d["sh"])
    if dt == 0:
        return Reals[sh] if sh else Real
    if not sh:
        return Bint[dt]
    return Array[dt, sh]


def dom_to_spec(dom):
    """funsor domain -> {"dt", "sh"} or None if outside the specification"""
    try:
        dt = dom.dtype
        sh = list(dom.shape)
    except Exception:
        return None
    if dt == "real":
        return {"dt": 0, "sh": sh}
    if isinstance(dt, int):
        return {"dt": dt, "sh": sh}
    return None


UNARY = {
    "neg": lambda x: -x,
    "pos": lambda x: ops.pos(x),
    "abs": lambda x: ops.abs(x),
    "exp": lambda x: x.exp(),
    "log": lambda x: x.log(),
    "reciprocal": lambda x: ops.reciprocal(x),
    "sqrt": lambda x: x.sqrt(),
    "invert": lambda x: ~x,
    "log1p": lambda x: x.log1p(),
    "expm1": lambda x: ops.expm1(x),
}

BINARY = {
    "add": lambda a, b: a + b,
    "sub": lambda a, b: a - b,
    "mul": lambda a, b: a * b,
    "truediv": lambda a, b: a / b,
    "max": lambda a, b: ops.max(a, b),
    "min": lambda a, b: ops.min(a, b),
    "logaddexp": lambda a, b: ops.logaddexp(a, b),
    "pow": lambda a, b: a ** b,
    "floordiv": lambda a, b: a // b,
    "mod": lambda a, b: a % b,
    "eq": lambda a, b: a == b,
    "ne": lambda a, b: a != b,
    "lt": lambda a, b: a < b,
    "le": lambda a, b: a <= b,
    "gt": lambda a, b: a > b,
    "ge": lambda a, b: a >= b,
    "and": lambda a, b: a & b,
    "or": lambda a, b: a | b,
    "xor": lambda a, b: a ^ b,
    "safesub": lambda a, b: ops.safesub(a, b),
    "safediv": lambda a, b: ops.safediv(a, b),
    "matmul": lambda a, b: a @ b,
}

ASSOC = {
    "add": ops.add, "mul": ops.mul, "max": ops.max, "min": ops.min,
    "logaddexp": ops.logaddexp, "and": ops.and_, "or": ops.or_, "xor": ops.xor,
    "nullop": ops.null,
}
ASSOC_NAME = {v: k for k, v in ASSOC.items()}

REDUCTION_METHOD = {"sum": "sum", "prod": "prod", "amax": "max", "amin": "min",
                    "all": "all", "any": "any", "logsumexp": "logsumexp"}

NOAXIS = -100


def fp_array(a):
    a = np.ascontiguousarray(a)
    return hashlib.blake2b(a.tobytes() + str(a.dtype).encode() + str(a.shape).encode(),
                           digest_size=16).hexdigest()


def fp_funsor(f):
    """Fingerprint of the observable state of a funsor: inputs, output, data/structure."""
    h = hashlib.blake2b(digest_size=16)
    h.update(repr(tuple((k, str(v)) for k, v in f.inputs.items())).encode())
    h.update(str(f.output).encode())
    if isinstance(f, Tensor):
        h.update(fp_array(f.data).encode())
    elif isinstance(f, Number):
        h.update(repr(f.data).encode())
    else:
        h.update(type(f).__name__.encode())
        for v in f._ast_values:
            if isinstance(v, Funsor):
                h.update(fp_funsor(v).encode())
            elif isinstance(v, np.ndarray):
                h.update(fp_array(v).encode())
            elif isinstance(v, (tuple, frozenset)):
                items = sorted(v, key=repr) if isinstance(v, frozenset) else v
                for x in items:
                    if isinstance(x, Funsor):
                        h.update(fp_funsor(x).encode())
                    elif isinstance(x, tuple):
                        for y in x:
                            h.update(fp_funsor(y).encode() if isinstance(y, Funsor) else repr(y).encode())
                    else:
                        h.update(repr(x).encode())
            else:
                h.update(repr(v).encode())
    return h.hexdigest()


class Watch:
    """Holds every array / funsor the harness has created or obtained, with the
    fingerprint taken when it was first seen (the `heap` of Heap.tla)."""

    def __init__(self):
        self.objs = []      # (kind, obj, fp, label)

    def add_array(self, a, label="leaf"):
        self.objs.append(("array", a, fp_array(a), label))

    def add_funsor(self, f, label="term"):
        if isinstance(f, Funsor):
            self.objs.append(("funsor", f, fp_funsor(f), label))

    def snapshot(self):
        """current fingerprints, in registration order"""
        out = []
        for kind, obj, fp, label in self.objs:
            out.append(fp_array(obj) if kind == "array" else fp_funsor(obj))
        return out

    def initial(self):
        return [fp for _, _, fp, _ in self.objs]

    def changed(self):
        now = self.snapshot()
        return [(i, self.objs[i][3]) for i, (a, b) in enumerate(zip(self.initial(), now)) if a != b]


def np_dtype(dt):
    return np.float64 if dt == 0 else np.int64


def leaf_array(t):
    sizes = [n for _, n in t["ins"]]
    shape = tuple(sizes) + tuple(t["sh"])
    flat = [vals.scalar_to_float(s) for s in t["data"]]
    if t["dt"] == 0:
        return np.array(flat, dtype=np.float64).reshape(shape)
    if t["dt"] == 2 and False:
        return np.array(flat).astype(bool).reshape(shape)
    return np.array(flat, dtype=np.float64).astype(np.int64).reshape(shape)


def py_index(parts):
    idx = []
    for p in parts:
        if p["k"] == "int":
            idx.append(p["i"])
        else:
            start, step, n = p["start"], p["step"], p["n"]
            idx.append(slice(start, start + step * (n - 1) + 1, step))
    return tuple(idx)


def index_variant(idx, rank, style):
    """equivalent spellings of a basic index: a trailing Ellipsis for partial indexes, a
    leading Ellipsis when every axis is indexed (exercises the right-of-Ellipsis rules)"""
    if style == "plain":
        return idx
    if len(idx) == rank:
        return (Ellipsis,) + tuple(idx)
    return tuple(idx) + (Ellipsis,)


class Builder:
    def __init__(self, watch=None, on_node=None):
        self.watch = watch
        self.on_node = on_node    # callback(ast, funsor) after each constructor call
        self.memo = {}

    def build(self, t):
        r = self._build(t)
        if self.watch is not None:
            self.watch.add_funsor(r, t["c"])
        if self.on_node is not None:
            self.on_node(t, r)
        return r

    def _build(self, t):
        c = t["c"]
        if c == "Var":
            return Variable(t["name"], dom_of(t["dom"]))
        if c == "Num":
            x = vals.scalar_to_float(t["v"])
            if t["dt"] == 0:
                return Number(float(x), "real")
            return Number(int(x), t["dt"])
        if c == "Ten":
            if self.leaf_cache is not None:
                k = repr(t)
                if k in self.leaf_cache:
                    return self.leaf_cache[k]
            a = leaf_array(t)
            if self.leaf_shift and t["dt"] == 0:
                a = a + self.leaf_shift          # homogeneity replay (C08): every real leaf + c
            if self.watch is not None:
                self.watch.add_array(a)
            ins = OrderedDict((n, Bint[s]) for n, s in t["ins"])
            r = Tensor(a, ins, "real" if t["dt"] == 0 else t["dt"])
            if self.leaf_cache is not None:
                self.leaf_cache[repr(t)] = r
            return r
        if c == "Gauss":
            return self.gaussian(t)
        if c == "Un":
            x = self.build(t["arg"])
            n, p = t["op"]["n"], t["op"]["p"]
            if n in UNARY:
                return UNARY[n](x)
            if n in REDUCTION_METHOD:
                axis = None if p[0] == NOAXIS else p[0]
                return getattr(x, REDUCTION_METHOD[n])(axis, bool(p[1]))
            if n in ("sum2", "amax2"):
                return getattr(x, "sum" if n == "sum2" else "max")((int(p[0]), int(p[1])), bool(p[2]))
            if n in ("mean", "var", "std"):
                axis = None if p[0] == NOAXIS else p[0]
                # (not x.var(...): Lambda has a FIELD named var)
                from funsor.terms import Unary as _Unary
                if n == "mean":
                    return _Unary(ops.MeanOp(axis, bool(p[1])), x)
                cls = ops.VarOp if n == "var" else ops.StdOp
                return _Unary(cls(axis, int(p[2]), bool(p[1])), x)
            if n == "reshape":
                return x.reshape(tuple(p))
            if n == "getslice":
                return x[self.index_variant(py_index(p), len(x.output.shape))]
            raise NotImplementedError(n)
        if c == "Bin":
            a = self.build(t["l"])
            b = self.build(t["r"])
            n, p = t["op"]["n"], t["op"]["p"]
            if n == "getitem":
                return a[(slice(None),) * p[0] + (b,)]
            return BINARY[n](a, b)
        if c == "Red":
            x = self.build(t["arg"])
            vs = frozenset(Variable(n, dom_of(d)) for n, d in t["vars"])
            return x.reduce(ASSOC[t["op"]], vs)
        if c == "Sub":
            x = self.build(t["arg"])
            subs = OrderedDict()
            for k, v in t["subs"]:
                if v["c"] == "Num":
                    val = vals.scalar_to_float(v["v"])
                    if v["dt"] == 0 and self.real_num_as_tensor:
                        subs[k] = Tensor(np.array(float(val)))
                    else:
                        subs[k] = int(val) if v["dt"] != 0 else float(val)
                elif v["c"] == "Var" and self.rename_as_str:
                    subs[k] = v["name"]
                else:
                    subs[k] = self.build(v)
            if self.subs_pair_order == "reversed" and len(subs) > 1 and isinstance(x, Funsor):
                # f(**kwargs) re-sorts the pairs by f.inputs; a substitution is a MAP, so the same
                # pairs handed to Subs in another order must denote the same thing
                from funsor.terms import Subs as _Subs, to_funsor as _to_funsor
                pairs = tuple((k, _to_funsor(v, x.inputs[k])) for k, v in reversed(list(subs.items()))
                              if k in x.inputs)
                return _Subs(x, pairs) if pairs else x
            return x(**subs)
        if c == "Slice":
            return Slice(t["name"], t["start"], t["stop"], t["step"], t["dt"])
        if c == "Stack":
            return Stack(t["name"], tuple(self.build(p) for p in t["parts"]))
        if c == "Cat":
            return Cat(t["name"], tuple(self.build(p) for p in t["parts"]), t["pn"])
        if c == "Lam":
            e = self.build(t["expr"])
            return Lambda(Variable(t["var"][0], dom_of(t["var"][1])), e)
        if c == "Indep":
            f = self.build(t["fn"])
            return Independent(f, t["rv"], t["bv"], t["dv"])
        if c == "Align":
            return self.build(t["arg"]).align(tuple(t["names"]))
        if c == "Con":
            from funsor.cnf import Contraction
            terms = tuple(self.build(x) for x in t["terms"])
            vs = frozenset(Variable(n, dom_of(d)) for n, d in t["vars"])
            return Contraction(ASSOC[t["red"]], ASSOC[t["bin"]], vs, *terms)
        if c == "Integ":
            from funsor.integrate import Integrate
            m = self.build(t["measure"])
            f = self.build(t["integrand"])
            vs = frozenset(Variable(n, dom_of(d)) for n, d in t["vars"])
            return Integrate(m, f, vs)
        if c == "Delta":
            from funsor.delta import Delta
            def point(p):
                if p["c"] == "Num" and self.delta_point_as_tensor:
                    v = vals.scalar_to_float(p["v"])
                    if p["dt"] == 0:
                        return Tensor(np.array(float(v)))
                    return Tensor(np.array(int(v)), OrderedDict(), p["dt"])
                return self.build(p)
            terms = tuple((n, (point(p), self.build(ld))) for n, p, ld in t["terms"])
            return Delta(terms)
        raise NotImplementedError(c)

    rename_as_str = False
    subs_pair_order = "call"      # "reversed": build Subs(f, pairs) with the pairs in reverse input order
    real_num_as_tensor = False
    leaf_shift = 0.0
    delta_point_as_tensor = False  # a Number point raises NotImplementedError in Delta.eager_subs (astype of a python bool)
    index_style = "plain"         # how a basic index is spelled: plain | ellipsis

    def index_variant(self, idx, rank):
        return index_variant(idx, rank, self.index_style)
    leaf_cache = None
    gauss_form = "white_vec"      # which constructor parametrisation to use for Gauss leaves

    def gaussian(self, t):
        """Gauss leaf -> funsor.gaussian.Gaussian(white_vec, prec_sqrt, inputs)"""
        from funsor.gaussian import Gaussian
        ins = OrderedDict((n, dom_of(d)) for n, d in t["ins"])
        batch = tuple(d["dt"] for _, d in t["ins"] if d["dt"] > 0 and not d["sh"])
        dim = sum(int(np.prod(d["sh"])) if d["sh"] else 1 for _, d in t["ins"] if d["dt"] == 0)
        rank = t["rank"]
        S = np.array([vals.scalar_to_float(s) for s in t["S"]], dtype=np.float64).reshape(batch + (dim, rank))
        w = np.array([vals.scalar_to_float(s) for s in t["w"]], dtype=np.float64).reshape(batch + (rank,))
        if self.watch is not None:
            self.watch.add_array(S, "prec_sqrt")
            self.watch.add_array(w, "white_vec")
        return Gaussian(white_vec=w, prec_sqrt=S, inputs=ins)
