"""Serialiser: a real funsor object -> the specification's term AST (JSON form).

It copies `_ast_values` field by field (DESIGN.md 3.3); it never evaluates
anything.  Anything it cannot represent exactly raises `Unrepresentable` and
the caller skips-and-counts the event (never rounds silently)."""
import numpy as np

import funsor
from funsor import ops
from funsor.cnf import Contraction
from funsor.delta import Delta
from funsor.tensor import Tensor
from funsor.terms import (Align, Binary, Cat, Funsor, Independent, Lambda, Number, Reduce,
                          Slice, Stack, Subs, Unary, Variable)

from . import vals
from .fbuild import ASSOC_NAME, NOAXIS, dom_to_spec


class Unrepresentable(Exception):
    pass


UNARY_NAMES = {"neg", "pos", "abs", "exp", "log", "reciprocal", "sqrt", "invert", "log1p", "expm1"}
BINARY_NAMES = {"add", "sub", "mul", "truediv", "max", "min", "logaddexp", "pow", "floordiv",
                "mod", "eq", "ne", "lt", "le", "gt", "ge", "and", "or", "xor", "safesub",
                "safediv", "matmul"}
OPNAME_FIX = {"and_": "and", "or_": "or", "null": "nullop"}
REDUCTIONS = {"sum", "prod", "amax", "amin", "all", "any", "logsumexp"}
MAX_ELEMS = 4096


def op_name(op):
    n = getattr(op, "name", None) or getattr(op, "__name__", None) or type(op).__name__
    return OPNAME_FIX.get(n, n)


def dom_spec(d):
    s = dom_to_spec(d)
    if s is None:
        raise Unrepresentable("domain %s" % (d,))
    return s


def scalar(x, log_hint=False):
    if isinstance(x, (bool, np.bool_)):
        return vals.R(int(x))
    if isinstance(x, (int, np.integer)):
        if abs(int(x)) > vals.MAXI:
            raise Unrepresentable("big int")
        return vals.R(int(x))
    s = vals.float_to_scalar(x)
    if s is None:
        s = vals.float_to_scalar(x, log_domain=True)
    if s is None:
        raise Unrepresentable("float %r" % (x,))
    return s


def data_scalars(a):
    a = np.asarray(a)
    if a.size > MAX_ELEMS:
        raise Unrepresentable("array too large")
    if a.dtype == bool or np.issubdtype(a.dtype, np.integer):
        return [scalar(int(x)) for x in a.reshape(-1)]
    return [scalar(float(x)) for x in a.reshape(-1)]


def norm_index(index, shape):
    """numpy basic index -> parts for the leading axes (ints and slices only)"""
    if not isinstance(index, tuple):
        index = (index,)
    if any(p is Ellipsis or p is None for p in index):
        raise Unrepresentable("ellipsis/None index")
    parts = []
    for p, n in zip(index, shape):
        if isinstance(p, (int, np.integer)):
            i = int(p) + (n if p < 0 else 0)
            parts.append({"k": "int", "i": i})
        elif isinstance(p, slice):
            start, stop, step = p.indices(n)
            if step <= 0:
                raise Unrepresentable("negative step")
            cnt = max(0, (stop - start + step - 1) // step)
            if cnt == 0:
                raise Unrepresentable("empty slice")
            parts.append({"k": "slice", "start": start, "step": step, "n": cnt})
        else:
            raise Unrepresentable("index part %r" % (p,))
    return parts


def varlist(vs):
    return sorted([[v.name, dom_spec(v.output)] for v in vs], key=lambda p: p[0])


def op_record(op, arg_shape=None):
    n = op_name(op)
    if isinstance(op, ops.ReductionOp):
        if n not in REDUCTIONS:
            raise Unrepresentable("reduction op %s" % n)
        axis = op.defaults.get("axis", None)
        if axis is not None and not isinstance(axis, int):
            raise Unrepresentable("tuple axis")
        return {"n": n, "p": [NOAXIS if axis is None else int(axis), 1 if op.defaults.get("keepdims", False) else 0]}
    if isinstance(op, ops.ReshapeOp):
        return {"n": "reshape", "p": [int(s) for s in op.defaults["shape"]]}
    if isinstance(op, ops.GetsliceOp):
        return {"n": "getslice", "p": norm_index(op.defaults["index"], arg_shape)}
    if isinstance(op, ops.GetitemOp):
        return {"n": "getitem", "p": [int(op.defaults["offset"])]}
    if n in UNARY_NAMES or n in BINARY_NAMES:
        return {"n": n, "p": []}
    raise Unrepresentable("op %s" % n)


def assoc_name(op):
    if op in ASSOC_NAME:
        return ASSOC_NAME[op]
    raise Unrepresentable("assoc op %s" % op_name(op))


def to_ast(f):
    if isinstance(f, Variable):
        return {"c": "Var", "name": f.name, "dom": dom_spec(f.output)}
    if isinstance(f, Number):
        dt = dom_spec(f.output)["dt"]
        return {"c": "Num", "v": scalar(f.data), "dt": dt}
    if isinstance(f, Tensor):
        o = dom_spec(f.output)
        ins = []
        for k, d in f.inputs.items():
            s = dom_spec(d)
            if s["dt"] <= 0 or s["sh"]:
                raise Unrepresentable("tensor input domain")
            ins.append([k, s["dt"]])
        return {"c": "Ten", "ins": ins, "dt": o["dt"], "sh": o["sh"], "data": data_scalars(f.data)}
    if isinstance(f, Slice):
        name, start, stop, step, dtype = f._ast_values
        return {"c": "Slice", "name": name, "start": start, "stop": stop, "step": step, "dt": dtype}
    if isinstance(f, Unary):
        return {"c": "Un", "op": op_record(f.op, f.arg.output.shape), "arg": to_ast(f.arg)}
    if isinstance(f, Binary):
        return {"c": "Bin", "op": op_record(f.op), "l": to_ast(f.lhs), "r": to_ast(f.rhs)}
    if isinstance(f, Reduce):
        return {"c": "Red", "op": assoc_name(f.op), "arg": to_ast(f.arg), "vars": varlist(f.reduced_vars)}
    if isinstance(f, Subs):
        return {"c": "Sub", "arg": to_ast(f.arg), "subs": [[k, to_ast(v)] for k, v in f.subs.items()]}
    if isinstance(f, Stack):
        return {"c": "Stack", "name": f.name, "parts": [to_ast(p) for p in f.parts]}
    if isinstance(f, Cat):
        return {"c": "Cat", "name": f.name, "parts": [to_ast(p) for p in f.parts], "pn": f.part_name}
    if isinstance(f, Lambda):
        return {"c": "Lam", "var": [f.var.name, dom_spec(f.var.output)], "expr": to_ast(f.expr)}
    if isinstance(f, Independent):
        return {"c": "Indep", "fn": to_ast(f.fn), "rv": f.reals_var, "bv": f.bint_var, "dv": f.diag_var}
    if isinstance(f, Align):
        return {"c": "Align", "arg": to_ast(f.arg), "names": list(f.names)}
    if isinstance(f, Contraction):
        return {"c": "Con", "red": assoc_name(f.red_op), "bin": assoc_name(f.bin_op),
                "vars": varlist(f.reduced_vars), "terms": [to_ast(t) for t in f.terms]}
    if isinstance(f, Delta):
        return {"c": "Delta", "terms": [[n, to_ast(p), to_ast(ld)] for n, (p, ld) in f.terms]}
    if type(f).__name__ == "Integrate":
        return {"c": "Integ", "measure": to_ast(f.log_measure), "integrand": to_ast(f.integrand),
                "vars": varlist(f.reduced_vars)}
    if type(f).__name__ == "Gaussian":
        ins = [[k, dom_spec(d)] for k, d in f.inputs.items()]
        return {"c": "Gauss", "ins": ins, "rank": int(f.prec_sqrt.shape[-1]),
                "S": data_scalars(f.prec_sqrt), "w": data_scalars(f.white_vec)}
    raise Unrepresentable("class %s" % type(f).__name__)


def declared(f):
    """the declared type of a funsor, in spec form"""
    return {"ins": [[k, dom_spec(d)] for k, d in f.inputs.items()], "out": dom_spec(f.output)}
