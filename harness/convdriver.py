"""C19 S->C driver: replay the cases emitted by spec/Convert.tla into the real library.

Every record is {tag, t: case, exp: expectation}.  The case says which public call to make
(to_funsor / to_data / Tensor.align / align_tensor(s) / align of a lazy term, a Contraction,
a Delta, a Gaussian / Tensor.materialize); the expectation was computed by TLC from the
DENOTATIONAL definitions of Convert.tla.  This module only builds the arguments, calls the
API, reads the observable result (.inputs, .output, arrays through numpy indexing) and
compares.  Arrays are position coded (element at flat offset k is k+1), as in the spec.
"""
import itertools
import json
import multiprocessing as mp
import os
import signal
import traceback
from collections import Counter, OrderedDict

import numpy as np

import funsor
from funsor.domains import Array, Bint, Real, Reals
from funsor.interpretations import lazy, normalize
from funsor.tensor import Tensor, align_tensor, align_tensors
from funsor.terms import Funsor, Number

from . import compare, fbuild, tlc, vals

funsor.set_backend("numpy")

STEP_TIMEOUT = 30
DTYPES = ("real", "bint")


# ---------------------------------------------------------------------------
# helpers

def prod(xs):
    n = 1
    for x in xs:
        n *= x
    return n


def iota(shape, dtype, start=1):
    n = prod(shape)
    return np.arange(start, start + n, dtype=np.float64 if dtype == "real" else np.int64).reshape(tuple(shape))


def out_domain(ev, dtype, n):
    """output domain for event shape ev; bounded integers need a bound above the largest code"""
    ev = tuple(ev)
    if dtype == "real":
        return Reals[ev] if ev else Real
    return Array[n + 1, ev] if ev else Bint[n + 1]


def tensor_of(ins, ev, dtype, start=1):
    sizes = tuple(s for _, s in ins)
    shape = sizes + tuple(ev)
    n = prod(shape)
    data = iota(shape, dtype, start)
    inputs = OrderedDict((name, Bint[s]) for name, s in ins)
    return Tensor(data, inputs, "real" if dtype == "real" else n + start), data


def flat_list(a):
    return np.asarray(a).reshape(-1).tolist()


class Verdicts:
    """collects the verdicts of one record"""

    def __init__(self, rec):
        self.rec = rec
        self.fam = rec["t"]["c"]
        self.out = []
        self.stats = Counter()

    def ok(self, clause, n=1):
        self.stats[clause] += n

    def note(self, what, n=1):
        self.stats["note:" + what] += n

    def bad(self, clause, sub, detail):
        self.out.append({"status": "mismatch", "clause": clause, "sub": str(sub), "detail": detail})

    def declined(self, clause, why):
        self.stats["declined:%s:%s" % (clause, why)] += 1


def same_array(v, clause, sub, got, want, what):
    """exact comparison of an ndarray with an expected {sh, v} (integers)"""
    got = np.asarray(got)
    if list(got.shape) != list(want["sh"]):
        v.bad(clause + "_shape", sub, {"what": what, "got": list(got.shape), "want": want["sh"]})
        return False
    g = flat_list(got)
    if [float(x) for x in g] != [float(w) for w in want["v"]]:
        v.bad(clause + "_value", sub, {"what": what, "got": g[:64], "want": want["v"][:64]})
        return False
    v.ok(clause)
    return True


# ---------------------------------------------------------------------------
# to_funsor / to_data

def check_to_funsor(v, f, expf, out, sub, what):
    """f = to_funsor(...): a Tensor with the expected inputs (as a map), output and value at
    every name assignment; values are read with numpy indexing only"""
    if not isinstance(f, Tensor):
        v.bad("to_funsor_type", sub, {"what": what, "got": type(f).__name__})
        return False
    want_ins = {n: s for n, s in expf["ins"]}
    got_ins = {n: (d.size if isinstance(d.dtype, int) and not d.shape else str(d)) for n, d in f.inputs.items()}
    if got_ins != want_ins:
        v.bad("to_funsor_inputs", sub, {"what": what, "got": [[n, str(d)] for n, d in f.inputs.items()],
                                        "want": expf["ins"]})
        return False
    if f.output != out:
        v.bad("to_funsor_output", sub, {"what": what, "got": str(f.output), "want": str(out)})
        return False
    data = np.asarray(f.data)
    want_shape = tuple(d.size for d in f.inputs.values()) + tuple(expf["out"])
    if tuple(data.shape) != want_shape:
        v.bad("to_funsor_data_shape", sub, {"what": what, "got": list(data.shape), "want": list(want_shape)})
        return False
    names = [n for n, _ in expf["ins"]]
    got_names = list(f.inputs)
    for k, pt in enumerate(itertools.product(*[range(s) for _, s in expf["ins"]])):
        asg = dict(zip(names, pt))
        got = flat_list(data[tuple(asg[n] for n in got_names)])
        if got != expf["tab"][k]:
            v.bad("to_funsor_value", sub, {"what": what, "at": asg, "got": got, "want": expf["tab"][k]})
            return False
    v.ok("to_funsor")
    if got_names != names:
        v.note("to_funsor_input_order_differs_from_model")
    return True


def key_orders(d):
    """the same mapping with its keys inserted in different orders (a dim <-> name map is a
    set of pairs; the result may not depend on dict insertion order) - found by a seeded fault"""
    items = list(d.items())
    seen, out = set(), []
    for cand in (items, items[::-1], items[1:] + items[:1], sorted(items, key=lambda kv: str(kv[1]))):
        key = tuple(cand)
        if key not in seen:
            seen.add(key)
            out.append(dict(cand))
    return out


def do_pack(v, t, exp):
    sh, e = tuple(t["sh"]), t["e"]
    n = prod(sh)
    ev = sh[len(sh) - e:]
    d2n = {d: name for d, name in t["d2n"]}
    for dtype in DTYPES:
        x = iota(sh, dtype)
        out = out_domain(ev, dtype, n)
        variants = [("explicit", out)]
        if t["auto"] and dtype == "real":
            variants.append(("auto", None))      # output=None: event shape derived from the leftmost name
        for vn, o, d2n_k in [(vn, o, (k, dk)) for vn, o in variants for k, dk in enumerate(key_orders(d2n))]:
            sub = "%s/%s" % (dtype, vn) + ("/keyorder%d" % d2n_k[0] if d2n_k[0] else "")
            try:
                f = funsor.to_funsor(x, o, dict(d2n_k[1]))
            except Exception as ex:  # noqa
                if t["valid"]:
                    v.bad("to_funsor_raises", sub, {"error": "%s: %s" % (type(ex).__name__, str(ex)[:200])})
                else:
                    v.ok("to_funsor_rejects_invalid")
                continue
            if not t["valid"]:
                v.bad("to_funsor_accepts_invalid", sub,
                      {"got": [[k, str(d)] for k, d in getattr(f, "inputs", {}).items()],
                       "data_shape": list(np.shape(getattr(f, "data", ())))})
                continue
            if not check_to_funsor(v, f, exp["f"], out, sub, "to_funsor(x, %s, d2n)" % ("output" if o is not None else "None")):
                continue
            n2d = {name: d for name, d in exp["n2d"]}
            try:
                y = funsor.to_data(f, key_orders(n2d)[-1])
            except Exception as ex:  # noqa
                v.bad("to_data_raises", sub, {"error": "%s: %s" % (type(ex).__name__, str(ex)[:200])})
                continue
            # TLC proved: exp.back has x's contents and x's shape minus leading size-1 batch dims
            if same_array(v, "roundtrip_to_data", sub, y, exp["back"], "to_data(to_funsor(x), inverse map)"):
                if flat_list(y) != flat_list(x):
                    v.bad("roundtrip_contents", sub, {"got": flat_list(y)[:64]})


def do_unpack(v, t, exp):
    ev = tuple(t["out"])
    n2d = {name: d for name, d in t["n2d"]}
    d2n = {d: name for d, name in exp["d2n"]}
    for dtype, (ko, n2d_k) in [(dt, kv) for dt in DTYPES for kv in enumerate(key_orders(n2d))]:
        f, data = tensor_of(t["ins"], ev, dtype)
        if ko:
            dtype = "%s/keyorder%d" % (dtype, ko)
        try:
            y = funsor.to_data(f, dict(n2d_k))
        except Exception as ex:  # noqa
            v.bad("to_data_raises", dtype, {"error": "%s: %s" % (type(ex).__name__, str(ex)[:200])})
            continue
        if not same_array(v, "to_data", dtype, y, exp["y"], "to_data(f, n2d)"):
            continue
        out = out_domain(ev, dtype.split("/")[0], data.size)
        try:
            f2 = funsor.to_funsor(y, out, key_orders(d2n)[ko % len(key_orders(d2n))])
        except Exception as ex:  # noqa
            v.bad("to_funsor_raises", dtype + "/back", {"error": "%s: %s" % (type(ex).__name__, str(ex)[:200])})
            continue
        check_to_funsor(v, f2, exp["f"], out, dtype + "/back", "to_funsor(to_data(f, n2d), inverse map)")


# ---------------------------------------------------------------------------
# Tensor.align, align_tensor, align_tensors

def do_align(v, t, exp):
    ev = tuple(t["out"])
    names = tuple(t["names"])
    for dtype in DTYPES:
        f, data = tensor_of(t["ins"], ev, dtype)
        before = [(k, d) for k, d in f.inputs.items()]
        try:
            r = f.align(names)
        except Exception as ex:  # noqa
            v.bad("align_raises", "tensor/" + type(ex).__name__, {"error": str(ex)[:200]})
            continue
        if not isinstance(r, Tensor):
            v.bad("align_type", dtype, {"got": type(r).__name__})
            continue
        got_ins = [[k, d.size] for k, d in r.inputs.items()]
        if got_ins != exp["ins"]:
            v.bad("align_inputs_order", "tensor", {"got": got_ins, "want": exp["ins"]})
            continue
        if r.output != f.output:
            v.bad("align_output", "tensor", {"got": str(r.output), "want": str(f.output)})
            continue
        rd = np.asarray(r.data)
        want_shape = tuple(s for _, s in exp["ins"]) + ev
        if tuple(rd.shape) != want_shape:
            v.bad("align_data_shape", "tensor", {"got": list(rd.shape), "want": list(want_shape)})
            continue
        # value at every named point (numpy indexing by the result's own input order)
        got_names = list(r.inputs)
        enames = [n for n, _ in exp["ins"]]
        bad = False
        for k, pt in enumerate(itertools.product(*[range(s) for _, s in exp["ins"]])):
            asg = dict(zip(enames, pt))
            got = flat_list(rd[tuple(asg[n] for n in got_names)])
            if got != exp["tab"][k]:
                v.bad("align_value", "tensor", {"at": asg, "got": got, "want": exp["tab"][k]})
                bad = True
                break
        if bad:
            continue
        # layout: .data is the expected table laid out in the new order
        if flat_list(rd) != [x for row in exp["tab"] for x in row]:
            v.bad("align_data_layout", "tensor", {"got": flat_list(rd)[:64]})
            continue
        if [(k, d) for k, d in f.inputs.items()] != before or flat_list(f.data) != flat_list(data):
            v.bad("align_mutates_argument", "tensor", {})
            continue
        v.ok("tensor_align")


def do_atensor(v, t, exp):
    ev = tuple(t["out"])
    new_inputs = OrderedDict((n, Bint[s]) for n, s in t["newins"])
    for dtype in DTYPES:
        f, _ = tensor_of(t["ins"], ev, dtype)
        try:
            y = align_tensor(new_inputs, f, expand=bool(t["expand"]))
        except Exception as ex:  # noqa
            v.bad("align_tensor_raises", type(ex).__name__, {"error": str(ex)[:200]})
            continue
        same_array(v, "align_tensor", dtype, y, exp["y"], "align_tensor(new_inputs, x, expand=%s)" % t["expand"])


def do_atensors(v, t, exp):
    fs = [tensor_of(ts["ins"], tuple(ts["out"]), "real")[0] for ts in t["ts"]]
    try:
        inputs, arrays = align_tensors(*fs)
    except Exception as ex:  # noqa
        v.bad("align_tensors_raises", type(ex).__name__, {"error": str(ex)[:200]})
        return
    got = [[k, d.size] for k, d in inputs.items()]
    if got != exp["ins"]:
        v.bad("align_tensors_inputs", "order", {"got": got, "want": exp["ins"]})
        return
    for k, (y, want) in enumerate(zip(arrays, exp["ys"])):
        same_array(v, "align_tensors", "arg%d" % k, y, want, "align_tensors(x0, x1)[%d]" % k)


# ---------------------------------------------------------------------------
# align of lazy terms, Contractions, Deltas; materialize; Gaussian

INTERP = {"lazy": lazy, "con": normalize, "delta": None, "mat": lazy}


def build_term(fam, ast):
    b = fbuild.Builder()
    interp = INTERP[fam]
    if interp is None:
        return b.build(ast)
    with interp:
        return b.build(ast)


def check_projection(v, r, exp, clause, sub, ordered):
    bad = compare.check_inputs_exact(r, exp, ordered=ordered)
    if bad:
        v.bad(clause + "_" + bad, sub, {"got": [[k, str(d)] for k, d in r.inputs.items()],
                                        "want": [[n, d] for n, d in exp["ins"]]})
        return False
    if not compare.output_matches(r, exp):
        v.bad(clause + "_output", sub, {"got": str(r.output), "want": exp["out"]})
        return False
    st, cl, det = compare.compare_values(r, exp)
    if st == "mismatch":
        v.bad(clause + "_" + str(cl), sub, det)
        return False
    if st != "agree":
        v.declined(clause, "%s/%s" % (st, cl))
        return False
    v.ok(clause)
    return True


def do_term(v, t, exp):
    fam, k, names = t["c"], t["k"], tuple(t["names"])
    f = build_term(fam, t["term"])
    v.note("built:%s:%s" % (fam, type(f).__name__))
    interps = [("default", None)] + ([(fam, INTERP[fam])] if INTERP[fam] is not None else [])
    for iname, interp in interps:
        try:
            if interp is None:
                r = f.align(names)
            else:
                with interp:
                    r = f.align(names)
        except Exception as ex:  # noqa
            v.bad("align_raises", "%s%d:%s" % (fam, k, type(ex).__name__),
                  {"interp": iname, "error": str(ex)[:200], "model_predicts_error": t["modelerr"],
                   "inputs": list(f.inputs), "names": list(names)})
            continue
        v.note("aligned:%s:%s" % (fam, type(r).__name__))
        check_projection(v, r, exp, "align", "%s%d/%s" % (fam, k, iname), ordered=True)


def do_mat(v, t, exp):
    f = build_term("mat", t["term"])
    proto = Tensor(np.zeros(()))
    try:
        r = proto.materialize(f)
    except Exception as ex:  # noqa
        v.bad("materialize_raises", "mat%d:%s" % (t["k"], type(ex).__name__), {"error": str(ex)[:200]})
        return
    v.note("materialized:%s" % type(r).__name__)
    check_projection(v, r, exp, "materialize", "mat%d" % t["k"], ordered=False)


def do_gauss(v, t, exp):
    from funsor.gaussian import Gaussian
    names = tuple(t["names"])
    inputs = OrderedDict((n, fbuild.dom_of(d)) for n, d in t["ins"])
    g = Gaussian(white_vec=vals.arr_to_np(t["wv"]), prec_sqrt=vals.arr_to_np(t["ps"]), inputs=inputs)
    if not isinstance(g, Gaussian):
        v.declined("gauss", "constructor returned %s" % type(g).__name__)
        return
    try:
        r = g.align(names)
    except Exception as ex:  # noqa
        v.bad("align_raises", "gauss%d:%s" % (t["k"], type(ex).__name__), {"error": str(ex)[:200]})
        return
    sub = "gauss%d" % t["k"]
    bad = compare.check_inputs_exact(r, exp, ordered=True)
    if bad:
        v.bad("align_" + bad, sub, {"got": [[k, str(d)] for k, d in r.inputs.items()], "want": exp["ins"]})
        return
    if isinstance(r, Gaussian):
        for nm, want in (("white_vec", exp["wv"]), ("prec_sqrt", exp["ps"])):
            got = np.asarray(getattr(r, nm))
            w = vals.arr_to_np(want)
            if got.shape != w.shape or not vals.close(got, w):
                v.bad("align_data_layout", sub, {"field": nm, "got_shape": list(got.shape), "want_shape": list(w.shape),
                                                 "got": flat_list(got)[:48], "want": flat_list(w)[:48]})
                return
    # value at every sample point
    for k, pt in enumerate(compare.env_points(exp)):
        subs = {n: (x if isinstance(x, int) else Tensor(np.array(x))) for n, x in pt.items()}
        try:
            got = r(**subs)
        except Exception as ex:  # noqa
            v.declined("gauss_value", type(ex).__name__)
            return
        if not isinstance(got, (Tensor, Number)) or got.inputs:
            v.declined("gauss_value", "lazy")
            return
        want = vals.arr_to_np(exp["tab"][k])
        if not vals.close(np.asarray(got.data), want):
            v.bad("align_value", sub, {"at": compare._env_json(pt), "got": flat_list(got.data), "want": want.tolist()})
            return
    v.ok("gauss_align")


HANDLERS = {"pack": do_pack, "unpack": do_unpack, "align": do_align, "atensor": do_atensor,
            "atensors": do_atensors, "lazy": do_term, "con": do_term, "delta": do_term,
            "mat": do_mat, "gauss": do_gauss}


def nontrivial(t):
    """does the case move anything: more than one element and a non-identity request"""
    c = t["c"]
    if c == "pack":
        return prod(t["sh"]) > 1 and bool(t["d2n"])
    if c == "unpack":
        return len(t["ins"]) > 0
    if c == "align":
        return list(t["names"]) not in ([], [n for n, _ in t["ins"]][:len(t["names"])])
    if c == "atensor":
        return t["newins"] != t["ins"]
    if c == "atensors":
        return t["ts"][0]["ins"] != t["ts"][1]["ins"]
    if c in ("lazy", "con", "delta", "gauss"):
        return len(t["names"]) > 1
    return True


def replay_record(rec):
    """-> (violations, stats Counter)"""
    v = Verdicts(rec)
    HANDLERS[rec["t"]["c"]](v, rec["t"], rec["exp"])
    return v.out, v.stats


# ---------------------------------------------------------------------------
# sharded replay

class _Timeout(Exception):
    pass


def _alarm(signum, frame):
    raise _Timeout()


def _init():
    signal.signal(signal.SIGALRM, _alarm)


def _work(lines):
    viols, stats, machinery, samples = [], Counter(), [], []
    n_rec = n_nontrivial = 0
    seen_fams = set()
    for line in lines:
        try:
            rec = tlc.parse_line(line)
        except Exception as ex:  # noqa
            machinery.append({"clause": "parse", "detail": str(ex)})
            continue
        if rec is None:
            continue
        n_rec += 1
        fam = rec["t"]["c"]
        stats["records:" + fam] += 1
        if nontrivial(rec["t"]):
            n_nontrivial += 1
            if len(line) < 900 and len(samples) < 2 and rec["t"].get("valid", True) and fam not in seen_fams:
                seen_fams.add(fam)
                samples.append(rec)
        signal.alarm(STEP_TIMEOUT)
        try:
            out, st = replay_record(rec)
        except _Timeout:
            machinery.append({"clause": "timeout", "detail": json.dumps(rec["t"])[:300]})
            continue
        except Exception:  # noqa
            machinery.append({"clause": "harness_exception",
                              "detail": traceback.format_exc()[-1200:] + json.dumps(rec["t"])[:300]})
            continue
        finally:
            signal.alarm(0)
        for k, n in st.items():
            stats[("" if k.startswith(("note:", "declined:")) else "eval:") + k] += n
        for o in out:
            o["fam"] = fam
            o["weight"] = len(line)
            o["record"] = rec if len(line) < 20000 else {"tag": rec.get("tag"), "t": rec["t"]}
            viols.append(o)
    return viols, stats, machinery, samples, n_rec, n_nontrivial


class ConvReplay:
    def __init__(self, procs=16, chunk=96):
        self.procs = procs
        self.chunk = chunk
        self.violations = []
        self.stats = Counter()
        self.machinery = []
        self.samples = []
        self.records = 0
        self.nontrivial = 0
        self.tlc_runs = []

    def run(self, module, cfg, workers=16, timeout=1500, lines=None):
        """stream TLC's records (or the given iterable of raw lines) through the worker pool"""
        run = None
        if lines is None:
            run = tlc.TLCRun(module, cfg=cfg, workers=workers, timeout=timeout)
            lines = run.raw_lines()
        seen = set()
        pool = mp.Pool(self.procs, initializer=_init)     # fork: workers inherit PYTHONPATH / VERIF_REPO
        pending = []
        try:
            batch = []
            for line in lines:
                h = hash(line)
                if h in seen:
                    continue
                seen.add(h)
                batch.append(line)
                if len(batch) >= self.chunk:
                    pending.append(pool.apply_async(_work, (batch,)))
                    batch = []
                while len(pending) > 6 * self.procs:
                    self._absorb(pending.pop(0).get())
            if batch:
                pending.append(pool.apply_async(_work, (batch,)))
            for p in pending:
                self._absorb(p.get())
        finally:
            pool.terminate()
            pool.join()
        if run is not None:
            self.tlc_runs.append({"module": module, "cfg": cfg, "distinct": run.distinct, "generated": run.generated,
                                  "ok": run.ok, "error": run.error, "wall_s": round(run.wall, 1)})
            if not run.ok:
                self.machinery.append({"clause": "tlc", "detail": run.error or "\n".join(run.output_tail[-30:])})
        return run

    def _absorb(self, res):
        viols, stats, machinery, samples, n_rec, n_nt = res
        self.violations.extend(viols)
        self.stats.update(stats)
        self.machinery.extend(machinery)
        for smp in samples:
            if len(self.samples) < 6 and smp["t"]["c"] not in {x["t"]["c"] for x in self.samples}:
                self.samples.append(smp)
        self.records += n_rec
        self.nontrivial += n_nt

    def grouped_violations(self):
        """one violation per (clause, family, sub-signature): the smallest failing case, with the
        number of instances; sig is the canonical text of that minimal case"""
        groups = OrderedDict()
        for o in self.violations:
            groups.setdefault((o["clause"], o["fam"], o["sub"]), []).append(o)
        outs = []
        for (clause, fam, sub), items in groups.items():
            m = min(items, key=lambda o: (o["weight"], json.dumps(o["record"]["t"], sort_keys=True)))
            t = m["record"]["t"]
            brief = {k: x for k, x in t.items() if k not in ("term", "wv", "ps")}
            outs.append({"clause": clause, "sig": "%s:%s %s" % (fam, sub, json.dumps(brief, sort_keys=True)),
                         "detail": dict(m["detail"] or {}, instances=len(items)), "record": m["record"],
                         "family": fam})
        return outs
