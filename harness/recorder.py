"""Recorder: runtime wrappers (no source hooks) that log every rule firing of
the exact interpretations as one event {interp, rule, lhs AST, rhs AST}."""
import gc
import hashlib
import json
from collections import Counter

from funsor.interpretations import DispatchedInterpretation, reflect
from funsor.terms import Funsor

from . import fast

EXACT = {"eager", "normalize", "lazy", "sequential"}


_INTERPS = None


def _interp_names():
    global _INTERPS
    if _INTERPS is None:
        _INTERPS = _find_interps()
    return _INTERPS


def _find_interps():
    import funsor.optimizer as opt
    names = {}
    for obj in gc.get_objects():
        if isinstance(obj, DispatchedInterpretation):
            names[id(obj)] = (obj, obj.__name__)
    names[id(opt.unfold_base)] = (opt.unfold_base, "unfold")
    names[id(opt.optimize_base)] = (opt.optimize_base, "optimize")
    return [(o, n) for o, n in names.values() if n in EXACT or n in ("unfold", "optimize")]


class RuleRecorder:
    def __init__(self, per_rule_cap=400):
        self.events = []
        self.skipped = Counter()
        self.fired = Counter()
        self.seen = set()
        self.cap = per_rule_cap
        self._orig = []
        self.depth = 0

    def __enter__(self):
        for interp, name in _interp_names():
            orig = interp.dispatch
            self._orig.append((interp, orig))
            interp.dispatch = self._wrap_dispatch(orig, name)
        return self

    def __exit__(self, *a):
        for interp, orig in self._orig:
            interp.dispatch = orig
        self._orig = []

    def _wrap_dispatch(self, orig, iname):
        rec = self

        def dispatch(cls, *args):
            fn = orig(cls, *args)

            def fired(*fargs):
                result = fn(*fargs)
                if result is not None and isinstance(result, Funsor):
                    rec._log(iname, fn, cls, fargs, result)
                return result
            return fired
        return dispatch

    def _log(self, iname, fn, cls, args, result):
        rule = "%s.%s:%s" % (getattr(fn, "__module__", "?"), getattr(fn, "__qualname__", getattr(fn, "__name__", "?")),
                             getattr(getattr(fn, "__code__", None), "co_firstlineno", 0))
        self.fired[rule] += 1
        if self.fired[rule] > self.cap:
            self.skipped["cap"] += 1
            return
        try:
            lhs_f = reflect.interpret(cls, *args)
            if lhs_f is result:
                return
            lhs = fast.to_ast(lhs_f)
            g = self.ground(result)
            rhs = fast.to_ast(result) if g is None else None
        except fast.Unrepresentable as e:
            self.skipped["unrepresentable:" + str(e).split(" ")[0] + " " + str(e).split(" ")[-1][:24]] += 1
            return
        except Exception as e:  # noqa
            self.skipped["reflect_failed:" + type(e).__name__] += 1
            return
        key = hashlib.blake2b(json.dumps([rule, lhs], sort_keys=True).encode(), digest_size=12).hexdigest()
        if key in self.seen:
            return
        self.seen.add(key)
        if g is not None:
            self.events.append({"kind": "project", "interp": iname, "rule": rule, "t": lhs, "lhs": lhs, "_rhs": g})
        else:
            self.events.append({"kind": "deneq", "interp": iname, "rule": rule, "lhs": lhs, "rhs": rhs})

    @staticmethod
    def ground(result):
        """a ground result (Tensor / Number): kept as floats, compared by the harness with
        tolerance against the table TLC computes for the lhs"""
        import numpy as np
        from funsor.tensor import Tensor
        from funsor.terms import Number
        if isinstance(result, Tensor):
            if result.data.size > fast.MAX_ELEMS:
                raise fast.Unrepresentable("array too large")
            return {"ins": [[k, fast.dom_spec(d)] for k, d in result.inputs.items()],
                    "out": fast.dom_spec(result.output),
                    "data": np.asarray(result.data, dtype=np.float64).reshape(-1).tolist()}
        if isinstance(result, Number):
            return {"ins": [], "out": fast.dom_spec(result.output), "data": [float(result.data)]}
        return None
