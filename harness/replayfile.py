"""`bin/check CNN --replay file`: re-execute one stored violation.  The expectation is
re-asked from TLC (oracle-batch through Judge.tla `project`), never taken from the file."""
import importlib
import json

from . import judge


def _print(res):
    bad = 0
    for r in res:
        if r.get("status", "").startswith("_"):
            continue
        print("  %s clause=%s detail=%s" % (r.get("status"), r.get("clause"), json.dumps(r.get("detail"), default=str)[:300]))
        if r.get("status") == "mismatch":
            bad += 1
    return bad


def replay_term(path, mode_path, prop):
    d = json.load(open(path))
    if d.get("engine") == "judge" and "event" in d:
        return replay_event(d, prop, path)
    term = d.get("term")
    if term is None or "c" not in term:
        print("replay file has no term; re-run the check instead")
        return 2
    jr = judge.JudgeRun()
    v = jr.judge([{"id": 1, "kind": "project", "t": term}])
    if jr.error or 1 not in v:
        print("MACHINERY-ERROR oracle: %s" % jr.error)
        return 2
    exp = v[1]["exp"]
    exp["core"] = d.get("exp", {}).get("core", False)
    mod, fn = mode_path.rsplit(":", 1)
    mode = getattr(importlib.import_module(mod), fn)
    rec = {"tag": d.get("tag"), "t": term, "exp": exp}
    for k in ("plus", "times", "adj"):
        if k in d.get("term", {}):
            rec[k] = d["term"][k]
    bad = _print(mode(rec))
    if bad:
        print("VIOLATION property=%s replay=%s" % (prop, path))
        return 1
    print("%s replay: ok" % prop)
    return 0


def replay_event(d, prop, path):
    from . import compare
    e = dict(d["event"])
    e["id"] = 1
    jr = judge.JudgeRun()
    v = jr.judge([e])
    if jr.error or 1 not in v:
        print("MACHINERY-ERROR judge: %s" % jr.error)
        return 2
    v = v[1]
    if e["kind"] == "project":
        st, cl, det = compare.compare_ground(e["_rhs"], v["exp"])
        ok = st != "mismatch"
        print("  %s clause=%s detail=%s" % (st, cl, json.dumps(det, default=str)[:300]))
    else:
        ok = v["ok"]
        print("  verdict=%s" % json.dumps(v)[:400])
    if not ok:
        print("VIOLATION property=%s replay=%s" % (prop, path))
        return 1
    print("%s replay: ok" % prop)
    return 0
