"""Projector: read the public state of a real funsor and compare it with the
projection the specification emitted (inputs, output domain, value table).

Only numpy indexing is used to read values out of a Tensor; lazy results are
probed by binding every input of the expected input space (`f(**point)`).
"""
import itertools
from collections import OrderedDict

import numpy as np

from funsor.tensor import Tensor
from funsor.terms import Funsor, Number

from . import vals
from .fbuild import dom_of, dom_to_spec


def env_points(exp):
    """Row-major enumeration of the expected input space, exactly as Sem!EnvSeq."""
    axes = []
    for k, (name, d) in enumerate(exp["ins"]):
        if d["dt"] > 0 and not d["sh"]:
            axes.append([(name, i) for i in range(d["dt"])])
        elif d["dt"] == 0:
            axes.append([(name, vals.arr_to_np(p)) for p in exp["pts"][k]])
        else:
            axes.append([])
    return [dict(pt) for pt in itertools.product(*axes)]


def data_of(r):
    if isinstance(r, Tensor):
        return np.asarray(r.data)
    if isinstance(r, Number):
        return np.asarray(r.data)
    return None


def check_inputs_subset(r, exp):
    """inputs of an evaluated result: among the expected ones, same domains; an
    expected input may be missing only if the value does not depend on it."""
    want = {n: d for n, d in exp["ins"]}
    for n, dom in r.inputs.items():
        if n not in want:
            return "extra_input:%s" % n
        if dom_to_spec(dom) != want[n]:
            return "input_domain:%s" % n
    for n in exp["dep"]:
        if n not in r.inputs:
            return "missing_input:%s" % n
    return None


def check_inputs_exact(r, exp, ordered=False):
    got = [(n, dom_to_spec(d)) for n, d in r.inputs.items()]
    want = [(n, d) for n, d in exp["ins"]]
    if ordered:
        return None if got == want else "inputs_order"
    return None if dict(got) == dict(want) and len(got) == len(want) else "inputs_exact"


def compare_values(r, exp, max_points=None):
    """-> (status, clause, detail).  status: agree | declined_lazy | declined_error | mismatch"""
    pts = env_points(exp)
    expected = exp["tab"]
    if isinstance(r, (Tensor, Number)):
        bad = check_inputs_subset(r, exp)
        if bad:
            return ("mismatch", bad, None)
        if all(isinstance(v, int) for pt in pts[:1] for v in pt.values()) or not pts:
            data = data_of(r)
            names = list(r.inputs)
            for k, pt in enumerate(pts):
                try:
                    got = data[tuple(pt[n] for n in names)] if names else data
                except IndexError:
                    return ("mismatch", "shape", {"env": _env_json(pt)})
                want = vals.arr_to_np(expected[k])
                if np.shape(got) != want.shape:
                    return ("mismatch", "event_shape", {"got": list(np.shape(got)), "want": list(want.shape)})
                if not vals.close(got, want):
                    return ("mismatch", "value", {"env": _env_json(pt), "got": np.asarray(got, dtype=float).tolist(),
                                                  "want": want.tolist()})
            return ("agree", None, None)
    # lazy (or a tensor that still has real inputs to bind): probe by substitution
    n_ok = 0
    for k, pt in enumerate(pts):
        subs = {}
        for n, v in pt.items():
            if n in r.inputs:
                subs[n] = v if isinstance(v, int) else Tensor(np.array(v, dtype=np.float64))
        try:
            g = r(**subs) if subs else r
        except Exception as e:  # noqa
            return ("declined_error", type(e).__name__, str(e)[:200])
        if not isinstance(g, (Tensor, Number)) or g.inputs:
            return ("declined_lazy", type(g).__name__, None)
        got = data_of(g)
        want = vals.arr_to_np(expected[k])
        if np.shape(got) != want.shape:
            return ("mismatch", "event_shape", {"got": list(np.shape(got)), "want": list(want.shape)})
        if not vals.close(got, want):
            return ("mismatch", "value", {"env": _env_json(pt), "got": np.asarray(got, dtype=float).tolist(),
                                          "want": want.tolist()})
        n_ok += 1
    bad = None
    want_dom = {m: d for m, d in exp["ins"]}
    for n in r.inputs:
        if n not in want_dom:
            bad = "extra_input:%s" % n
        elif dom_to_spec(r.inputs[n]) != want_dom[n]:
            bad = "input_domain:%s" % n           # a lazy result too must declare the right domains
    if bad:
        return ("mismatch", bad, None)
    return ("agree", None, None)


def _env_json(pt):
    return {n: (v if isinstance(v, int) else np.asarray(v).tolist()) for n, v in pt.items()}


def output_matches(r, exp):
    return dom_to_spec(r.output) == exp["out"]


def compare_ground(g, exp):
    """g: {"ins": [[name, dom]], "out": dom, "data": floats} recorded from a Tensor/Number;
    exp: projection computed by TLC.  -> (status, clause, detail)"""
    from funsor.tensor import Tensor as T
    from collections import OrderedDict as OD
    if not exp.get("defined", True):
        return ("skipped_undefined", None, None)
    sizes = [d["dt"] for _, d in g["ins"]]
    arr = np.array(g["data"], dtype=np.float64).reshape(tuple(sizes) + tuple(g["out"]["sh"]))
    r = T(arr, OD((n, dom_of(d)) for n, d in g["ins"]))
    return compare_values(r, exp)
