"""Common check plumbing: verdicts, known findings, replay files, evidence."""
import json
import os
import re
import sys
import time

from . import tlc

VERIF = tlc.VERIF
EVIDENCE = os.path.join(VERIF, "evidence")
REPLAYS = os.path.join(VERIF, "build", "replay")
FINDINGS = os.path.join(VERIF, "known_findings.json")


def seed():
    try:
        return int(os.environ.get("VERIF_SEED", "0"))
    except ValueError:
        return 0


def load_findings(prop):
    if not os.path.exists(FINDINGS):
        return []
    with open(FINDINGS) as f:
        data = json.load(f)
    def applies(e):
        pr = e.get("property")
        return prop == pr or (isinstance(pr, list) and prop in pr)
    return [e for e in data.get("findings", []) if applies(e) and e.get("status") == "open"]


def matches(entry, viol):
    m = entry.get("match", {})
    for field, pat in m.items():
        v = viol.get(field)
        if v is not None and not isinstance(v, str):
            v = json.dumps(v, default=str)
        if v is None or not re.search(pat, v):
            return False
    return True


class Outcome:
    def __init__(self, prop, tier):
        self.prop = prop
        self.tier = tier
        self.t0 = time.time()
        self.violations = []     # dicts with clause / sig / detail / term / exp ...
        self.machinery = []
        self.coverage = {}
        self.assumptions = []
        self.notes = []

    def add_replay(self, rp, engine):
        for m in rp.minimal_mismatches():
            if m.get("prop") in (None, self.prop):
                v = dict(m)
                v["engine"] = engine
                self.violations.append(v)
        self.machinery.extend(rp.machinery)

    def finish(self, level="model_checking"):
        os.makedirs(EVIDENCE, exist_ok=True)
        os.makedirs(REPLAYS, exist_ok=True)
        known = load_findings(self.prop)
        hit = {}
        fresh = []
        for v in self.violations:
            for e in known:
                if matches(e, v):
                    hit.setdefault(e["id"], [e, 0])
                    hit[e["id"]][1] += 1
                    break
            else:
                fresh.append(v)
        for eid, (e, n) in sorted(hit.items()):
            print("KNOWN-FINDING: property=%s %s (%s; %d instance(s) this run)" % (self.prop, eid, e["what"], n))
        # one replay file / VIOLATION line per distinct (clause, sig)
        seen = set()
        n_viol = 0
        for v in fresh:
            k = (v.get("clause"), v.get("sig"), v.get("engine"))
            if k in seen:
                continue
            seen.add(k)
            n_viol += 1
            if n_viol <= 20:
                name = "%s-%s.json" % (self.prop, re.sub(r"[^A-Za-z0-9]+", "_", "%s_%s" % (v.get("clause"), v.get("sig")))[:80])
                path = os.path.join(REPLAYS, name)
                with open(path, "w") as f:
                    json.dump({"property": self.prop, **{k2: v[k2] for k2 in v if k2 not in ("kids",)}}, f, indent=1, default=str)
                print("VIOLATION property=%s replay=%s" % (self.prop, path))
                print("  clause=%s sig=%s detail=%s" % (v.get("clause"), v.get("sig"), json.dumps(v.get("detail"), default=str)[:300]))
        cov = dict(self.coverage)
        cov.setdefault("samples", [])
        ev = {
            "property_id": self.prop,
            "tier": self.tier,
            "seed": seed(),
            "level": level,
            "coverage": cov,
            "assumptions": self.assumptions,
            "wall_s": round(time.time() - self.t0, 2),
            "violations": n_viol,
            "known_findings_hit": {k: n for k, (e, n) in hit.items()},
            "machinery_errors": [str(m.get("clause")) + ": " + str(m.get("detail"))[:300] for m in self.machinery[:5]],
        }
        if not os.environ.get("VERIF_NO_EVIDENCE"):     # calibration runs on scratch copies
            with open(os.path.join(EVIDENCE, self.prop + ".json"), "w") as f:
                json.dump(ev, f, indent=1, default=str)
        if self.machinery:
            for m in self.machinery[:5]:
                print("MACHINERY-ERROR %s: %s" % (m.get("clause"), str(m.get("detail"))[:1500]))
            if not n_viol:
                return 2
        print("%s %s: %s in %.1fs" % (self.prop, self.tier, "VIOLATIONS=%d" % n_viol if n_viol else "ok", time.time() - self.t0))
        return 1 if n_viol else 0


def replay_coverage(rp, rule):
    return {
        "states": rp.states,
        "transitions": rp.transitions,
        "traces_validated_against_impl": rp.records,
        "evaluations": sum(rp.counts.values()),
        "distinct_nontrivial": rp.nontrivial,
        "rule": rule,
        "samples": rp.samples[:5],
        "verdicts": dict(rp.counts),
        "verdicts_by_lens": {str(k): dict(v) for k, v in rp.by_tag.items()},
        "declines": {"%s/%s" % k: n for k, n in rp.sigs.most_common(12)},
        "tlc_runs": rp.tlc_runs,
        "exhaustive": all(r["ok"] and not r["simulate"] for r in rp.tlc_runs),
    }
