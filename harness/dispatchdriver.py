"""C16 driver: everything Python does for spec/Dispatch.tla.

Python only *executes and records*; every decision is taken by TLC:

  record(tier)        builds the type table / pool from the live registries and sample
                      objects, records the three-valued truth tables of
                      `deep_issubclass(a, b)` and of `issubclass(typing_wrap(a),
                      typing_wrap(b))` (what multipledispatch really evaluates), records
                      instance facts and dispatch events, and writes one ndjson file that
                      spec/Dispatch.tla reads (header line, axiom lines, event lines).
  replay_machine()    S->C: executes the DispatchCache behaviours printed by TLC against
                      the real dispatchers (dispatch / clear cache / cold restart).
  reregister()        re-registers every registry into fresh PartialDispatchers in
                      seeded permutations that keep the relative order of comparable
                      signatures (comparability is computed by TLC from the recorded
                      relation) and dispatches every recorded argument tuple again.

funsor is imported from whatever PYTHONPATH says (never hard-coded), so the same code
runs against a scratch copy of the library with a seeded fault.
"""
import collections
import gc
import itertools
import json
import random
import typing

import numpy as np
import typing_extensions

import funsor

funsor.set_backend("numpy")

import funsor.adjoint  # noqa: E402,F401
import funsor.approximations  # noqa: E402,F401
import funsor.cnf  # noqa: E402,F401
import funsor.constant  # noqa: E402,F401
import funsor.delta  # noqa: E402,F401
import funsor.factory  # noqa: E402,F401
import funsor.gaussian  # noqa: E402,F401
import funsor.integrate  # noqa: E402,F401
import funsor.interpretations as finterp  # noqa: E402
import funsor.joint  # noqa: E402,F401
import funsor.montecarlo  # noqa: E402,F401
import funsor.optimizer  # noqa: E402,F401
import funsor.recipes  # noqa: E402,F401
import funsor.sum_product  # noqa: E402,F401
from funsor import ops  # noqa: E402
from funsor.domains import Bint, Real, Reals  # noqa: E402
from funsor.registry import PartialDefault, PartialDispatcher  # noqa: E402
from funsor.tensor import Tensor  # noqa: E402
from funsor.terms import (  # noqa: E402
    Binary, Funsor, Lambda, Number, Reduce, Slice, Stack, Subs, Unary, Variable)
from funsor.typing import (  # noqa: E402
    GenericTypeMeta, _RuntimeSubclassCheckMeta, deep_isinstance, deep_issubclass, deep_type,
    typing_wrap)
from multipledispatch.variadic import isvariadic  # noqa: E402

FIVE = ["eager_base", "normalize_base", "lazy_base", "sequential_base", "moment_matching_base"]


# ---------------------------------------------------------------------------
# type expressions -> flat table of homogeneous nodes {k, n, o, c, a}
#   k  kind: any | nom | cls | tup0 | tup | vtup | fset0 | fset | union | wrap | other
#   n  name (for humans and for the known-findings regexes)
#   o  cls: id of the origin class node (itself when unparametrised), else 0
#   c  id of the node whose python class carries the __mro__ (nom: itself, cls: origin,
#      tuple kinds: builtin tuple, frozenset kinds: builtin frozenset), else 0
#   a  ids of the component types

def _qual(tp):
    mod = getattr(tp, "__module__", "?")
    q = getattr(tp, "__qualname__", getattr(tp, "__name__", repr(tp)))
    return q if mod == "builtins" else "%s.%s" % (mod, q)


class TypeTable:
    def __init__(self):
        self.nodes = []          # index = id - 1
        self.pytype = []         # the python type object of each node
        self._ids = {}
        self.tuple_id = self.intern(tuple)
        self.frozenset_id = self.intern(frozenset)
        self.object_id = self.intern(object)

    def __len__(self):
        return len(self.nodes)

    def _new(self, key, tp, k, n, o=0, c=0, a=()):
        self.nodes.append({"k": k, "n": n, "o": o, "c": c, "a": list(a)})
        self.pytype.append(tp)
        i = len(self.nodes)
        if o == -1:
            self.nodes[-1]["o"] = i
        if c == -1:
            self.nodes[-1]["c"] = i
        self._ids[key] = i
        return i

    def intern(self, tp):
        key = ("wrap", id(tp)) if isinstance(tp, _RuntimeSubclassCheckMeta) else tp
        try:
            if key in self._ids:
                return self._ids[key]
        except TypeError:
            key = ("unhashable", id(tp))
            if key in self._ids:
                return self._ids[key]
        if tp is typing.Any:
            return self._new(key, tp, "any", "Any")
        if tp is tuple:
            return self._new(key, tp, "tup0", "tuple", c=-1)
        if tp is frozenset:
            return self._new(key, tp, "fset0", "frozenset", c=-1)
        if isinstance(tp, _RuntimeSubclassCheckMeta):
            if not tp.__args__:
                return self._new(key, tp, "nom", _qual(tp), c=-1)
            x = self.intern(tp.__args__[0])
            return self._new(key, tp, "wrap", "typing_wrap[%s]" % self.show(x), a=[x])
        if isinstance(tp, GenericTypeMeta):
            if not tp.__args__:
                return self._new(key, tp, "cls", _qual(tp), o=-1, c=-1)
            o = self.intern(tp.__origin__)
            a = [self.intern(x) for x in tp.__args__]
            return self._new(key, tp, "cls", "%s[%s]" % (_qual(tp.__origin__), ", ".join(map(self.show, a))),
                             o=o, c=o, a=a)
        if isinstance(tp, type) and typing_extensions.get_origin(tp) is None:
            return self._new(key, tp, "nom", _qual(tp), c=-1)
        origin = typing_extensions.get_origin(tp)
        args = typing_extensions.get_args(tp)
        if tp is typing.Tuple:
            return self._new(key, tp, "tup0", "typing.Tuple", c=self.tuple_id)
        if tp is typing.FrozenSet:
            return self._new(key, tp, "fset0", "typing.FrozenSet", c=self.frozenset_id)
        if origin is tuple and args:
            if args[-1] is Ellipsis and len(args) == 2:
                x = self.intern(args[0])
                return self._new(key, tp, "vtup", "Tuple[%s, ...]" % self.show(x), c=self.tuple_id, a=[x])
            if Ellipsis not in args:
                a = [self.intern(x) for x in args]
                return self._new(key, tp, "tup", "Tuple[%s]" % ", ".join(map(self.show, a)), c=self.tuple_id, a=a)
        if origin is frozenset and len(args) == 1:
            x = self.intern(args[0])
            return self._new(key, tp, "fset", "FrozenSet[%s]" % self.show(x), c=self.frozenset_id, a=[x])
        if origin is typing.Union:
            a = [self.intern(x) for x in args]
            return self._new(key, tp, "union", "Union[%s]" % ", ".join(map(self.show, a)), a=a)
        return self._new(key, tp, "other", repr(tp))

    def show(self, i):
        n = self.nodes[i - 1]["n"]
        for pre in ("funsor.terms.", "funsor.tensor.", "funsor.ops.op.", "funsor.ops.", "funsor.cnf.", "funsor.delta.",
                    "funsor.gaussian.", "funsor.domains.", "funsor.constant.", "funsor.", "numpy."):
            n = n.replace(pre, "")
        return n

    def components(self, i):
        """all ids reachable from i (including i)"""
        out, todo = [], [i]
        while todo:
            j = todo.pop()
            if j in out:
                continue
            out.append(j)
            todo.extend(self.nodes[j - 1]["a"])
        return out

    def mro_pairs(self):
        """(a, b) with class(b) in class(a).__mro__, over the class-carrying nodes;
        virtual ABC parents (abc.register) are recorded separately"""
        import abc
        carriers = [i + 1 for i, n in enumerate(self.nodes) if n["c"] == i + 1]
        pairs, virtual = [], []
        for a in carriers:
            ca = self.pytype[a - 1]
            for b in carriers:
                cb = self.pytype[b - 1]
                if cb in ca.__mro__:
                    pairs.append([a, b])
                elif isinstance(cb, abc.ABCMeta) and not isinstance(cb, GenericTypeMeta):
                    try:
                        if abc.ABCMeta.__subclasscheck__(cb, ca):
                            virtual.append([a, b])
                    except TypeError:
                        pass
        return pairs, virtual


# ---------------------------------------------------------------------------
# registries

class Reg:
    def __init__(self, name, dispatcher):
        self.name = name
        self.d = dispatcher
        self.sigs = list(dispatcher.funcs.items())     # registration order (dict order)


def _stateful_subclasses(c):
    for s in c.__subclasses__():
        yield s
        yield from _stateful_subclasses(s)


_PROBE = []
PROBE_LATE = (2, 7)      # FrozenSet[str] and Tuple[int, str]: registered late in the machine


def probe_registry():
    """A registry of the library's own PartialDispatcher class whose patterns discriminate on
    DEEP structure (element types of frozensets and tuples).  The library registers only bare
    `frozenset` / `tuple` patterns, so a dispatcher that keys its cache more coarsely than it
    matches is invisible on the library's registries; this one makes cache-state and
    first-use-order dependence observable (found by a seeded fault)."""
    if not _PROBE:
        d = PartialDispatcher(name="verif_probe")
        sigs = [(object,), (frozenset,), (typing.FrozenSet[str],), (typing.FrozenSet[int],),
                (typing.FrozenSet[typing.Tuple[str, int]],), (tuple,), (typing.Tuple[int, ...],),
                (typing.Tuple[int, str],), (typing.Tuple[str, ...],)]
        for k, sg in enumerate(sigs):
            d.add(sg, _ProbeRule(k))
        _PROBE.append(d)
    return _PROBE[0]


class _ProbeRule:
    def __init__(self, k):
        self.k = k
        self.__name__ = "probe_rule_%d" % k

    def __call__(self, *args):
        return self.k


def collect_registries(tier):
    """name -> PartialDispatcher for every keyed registry of the interpretations and
    every op dispatcher (the same PartialDispatcher machinery)."""
    keyed = collections.OrderedDict()
    for n in FIVE:
        keyed[n[:-5]] = getattr(finterp, n).registry
    for o in gc.get_objects():
        if isinstance(o, finterp.DispatchedInterpretation) and o.__name__ not in keyed:
            keyed.setdefault(o.__name__, o.registry)
    for s in _stateful_subclasses(finterp.StatefulInterpretation):
        keyed.setdefault(s.__name__, s.registry)
    regs = []
    for n, r in keyed.items():
        for key, d in r.registry.items():
            regs.append(Reg("%s/%s" % (n, getattr(key, "__name__", str(key))), d))
    seen = {id(r.d) for r in regs}
    opd = []
    for o in gc.get_objects():
        if isinstance(o, PartialDispatcher) and id(o) not in seen and getattr(o, "funcs", None):
            owner = [c for c in gc.get_referrers(o) if isinstance(c, dict) and c.get("dispatcher") is o]
            if owner:
                opd.append(Reg("ops/%s" % o.name, o))
                seen.add(id(o))
    opd = [r for r in opd if r.d is not probe_registry()]
    opd.sort(key=lambda r: r.name)
    return regs + opd + [Reg("probe/deep", probe_registry())]


def sig_parts(sig):
    """(fixed component types, variadic tail types) of a registered signature"""
    if sig and isvariadic(sig[-1]):
        return list(sig[:-1]), list(sig[-1].variadic_type)
    return list(sig), []


def unwrap(tp):
    if isinstance(tp, _RuntimeSubclassCheckMeta) and tp.__args__:
        return tp.__args__[0]
    return tp


# ---------------------------------------------------------------------------
# sample objects

def _tensor(shape, names, sizes):
    rng = np.random.RandomState(len(shape) + 7 * len(names))
    inputs = collections.OrderedDict((n, Bint[s]) for n, s in zip(names, sizes))
    return Tensor(np.asarray(rng.rand(*(tuple(sizes) + tuple(shape)))), inputs)


def handmade_objects():
    """a few dozen objects whose deep_type joins the pool"""
    from funsor.cnf import Contraction
    from funsor.delta import Delta
    from funsor.gaussian import Gaussian
    from funsor.interpretations import reflect
    from funsor.terms import Align, Independent, Tuple as FTuple
    out = []
    t0 = _tensor((), (), ())
    ti = _tensor((), ("i",), (2,))
    tij = _tensor((3,), ("i", "j"), (2, 3))
    vi = Variable("i", Bint[2])
    vr = Variable("r", Real)
    vv = Variable("v", Reals[3])
    n1, n2 = Number(1.5), Number(2, 3)
    g = Gaussian(white_vec=np.zeros((1,)), prec_sqrt=np.ones((1, 1)), inputs=collections.OrderedDict(r=Real))
    dl = Delta("r", Number(0.5), Number(0.0))
    out += [t0, ti, tij, vi, vr, vv, n1, n2, g, dl]
    with reflect:
        out += [
            Unary(ops.neg, vr), Unary(ops.exp, vr), Unary(ops.neg, g), Unary(ops.exp, g), Unary(ops.log, ti),
            Binary(ops.add, ti, vi), Binary(ops.add, ti, n1), Binary(ops.mul, vr, vr), Binary(ops.sub, g, ti),
            Binary(ops.add, dl, g), Binary(ops.getitem, tij, vi),
            Reduce(ops.add, ti, frozenset({vi})), Reduce(ops.logaddexp, g, frozenset({vr})),
            Reduce(ops.mul, Binary(ops.add, ti, vi), frozenset({vi})),
            Subs(Binary(ops.add, ti, vr), (("r", n1),)), Subs(vr, (("r", vr),)),
            Contraction(ops.add, ops.mul, frozenset({vi}), ti, tij),
            Contraction(ops.logaddexp, ops.add, frozenset({vr}), ti, g),
            Contraction(ops.null, ops.add, frozenset(), n1, g),
            Contraction(ops.null, ops.add, frozenset(), dl, ti, g),
            Contraction(ops.null, ops.add, frozenset(), g, Unary(ops.neg, g)),
            Contraction(ops.null, ops.mul, frozenset(), ti, vr),
            Lambda(vi, ti), Stack("k", (ti, ti)), Slice("s", 0, 2, 1, 2), Align(ti, ("i",)),
            Independent(Binary(ops.add, _tensor((), ("k",), (2,)), Variable("x_k", Real)), "x", "k", "x_k"),
            FTuple((n1, ti)),
            funsor.constant.Constant((("x", Real),), ti),
            funsor.constant.Constant((("x", Real),), Unary(ops.neg, vr)),
            Subs(g, (("r", vr),)),
        ]
    out += [
        1, 2.5, "a", None, np.ones(2), slice(0, 2), Bint[3], Real, Reals[2],
        (), (1,), (1, "a"), (1, 2, 3), ("a", (2.5,)), (("i", Bint[2]),), (ti, tij), (n1, ti), (ti, g), (dl, ti, g),
        (g, Unary(ops.neg, g)),
        frozenset(), frozenset({vi}), frozenset({vi, vr}), frozenset({"a", "b"}), frozenset({1}),
        frozenset({1, 2}), frozenset({("a", 1)}), frozenset({2.5}), ("a",), ("a", "b"), (2.5,),
        ops.add, ops.mul, ops.logaddexp, ops.neg, ops.exp, ops.null, ops.getitem, ops.max, ops.sub,
    ]
    return out


def op_instances():
    """one instance of every op class that can be instantiated with defaults or one small argument"""
    out = []
    for n in sorted(dir(ops)):
        c = getattr(ops, n)
        if isinstance(c, ops.Op):
            out.append(c)
        elif isinstance(c, type) and issubclass(c, ops.Op) and n.endswith("Op"):
            for a in ((), (0,), ((2,),)):
                try:
                    out.append(c(*a))
                    break
                except Exception:  # noqa
                    pass
    return out


class _Timeout(BaseException):
    pass


class _time_limit:
    """wall-clock limit for one call into the library (main thread only)"""

    def __init__(self, seconds):
        self.seconds = seconds

    def _fire(self, *a):
        raise _Timeout()

    def __enter__(self):
        import signal
        self._old = signal.signal(signal.SIGALRM, self._fire)
        # repeating: an exception raised inside a weakref callback or __del__ is swallowed
        signal.setitimer(signal.ITIMER_REAL, self.seconds, 0.25)

    def __exit__(self, *a):
        import signal
        signal.setitimer(signal.ITIMER_REAL, 0)
        signal.signal(signal.SIGALRM, self._old)
        return False


def random_expressions(n, rng):
    """evaluate ~n small random expressions under several interpretations; only the
    dispatch events they trigger matter (exceptions are ignored and counted)"""
    from funsor.interpretations import eager, lazy, moment_matching, normalize, reflect, sequential
    from funsor.interpreter import reinterpret
    from funsor.optimizer import apply_optimizer
    from funsor.delta import Delta
    from funsor.gaussian import Gaussian
    interps = [eager, lazy, normalize, sequential, moment_matching, reflect]
    un = [ops.neg, ops.exp, ops.log, ops.abs, ops.sigmoid, ops.sqrt, ops.reciprocal, ops.log1p]
    bi = [ops.add, ops.mul, ops.sub, ops.truediv, ops.max, ops.min, ops.logaddexp, ops.pow, ops.lt, ops.eq]
    red = [ops.add, ops.mul, ops.logaddexp, ops.max, ops.min]
    errors = collections.Counter()

    def leaf():
        c = rng.randrange(9)
        if c == 0:
            return Number(rng.choice([0.0, 1.0, 0.5, 2.0]))
        if c == 1:
            return Number(rng.randrange(2), 2)
        if c == 2:
            return _tensor((), ("i",), (2,))
        if c == 3:
            return _tensor((), ("i", "j"), (2, 3))
        if c == 4:
            return _tensor((3,), ("j",), (3,))
        if c == 5:
            return Variable(rng.choice(["i", "j"]), Bint[2] if rng.random() < .5 else Bint[3])
        if c == 6:
            return Variable("r", Real)
        if c == 7:
            return Gaussian(white_vec=np.zeros((1,)), prec_sqrt=np.ones((1, 1)),
                            inputs=collections.OrderedDict(r=Real))
        return Delta("r", Number(0.5), Number(0.0)) if rng.random() < .5 else _tensor((), (), ())

    def build(depth):
        if depth == 0 or rng.random() < .2:
            return leaf()
        c = rng.randrange(7)
        if c == 0:
            return Unary(rng.choice(un), build(depth - 1))
        if c in (1, 2):
            return Binary(rng.choice(bi), build(depth - 1), build(depth - 1))
        if c == 3:
            x = build(depth - 1)
            names = sorted(x.inputs) if isinstance(x, Funsor) else []
            if not names:
                return x
            return x.reduce(rng.choice(red), rng.choice(names))
        if c == 4:
            x = build(depth - 1)
            names = sorted(x.inputs) if isinstance(x, Funsor) else []
            if not names:
                return x
            k = rng.choice(names)
            dom = x.inputs[k]
            if dom.dtype == "real":
                v = rng.choice([Number(0.5), Variable("r2", Real), _tensor((), ("i",), (2,))])
            else:
                v = rng.choice([Number(0, dom.size), Variable("k", dom), 1 % dom.size])
            return x(**{k: v})
        if c == 5:
            x = build(depth - 1)
            if isinstance(x, Funsor) and x.output.shape:
                return x[rng.randrange(x.output.shape[0])]
            return x
        return Lambda(Variable("i", Bint[2]), build(depth - 1))

    def one(interp):
        with interp:
            x = build(rng.randrange(1, 4))
        if interp is lazy or interp is reflect:
            c = rng.randrange(3)
            if c == 0:
                reinterpret(x)
            elif c == 1:
                with normalize:
                    reinterpret(x)
            else:
                apply_optimizer(x)

    done = 0
    for _ in range(n):
        if errors["_Timeout"] >= 3:
            break          # the library loops (a broken dispatcher can do that): stop exploring
        try:
            with _time_limit(5.0):
                one(rng.choice(interps))
            done += 1
        except (Exception, _Timeout) as e:  # noqa
            errors[type(e).__name__] += 1
    return done, dict(errors)


class Observer:
    """wraps PartialDispatcher.partial_call (class attribute: every registry and every op
    reaches it) and remembers (dispatcher, args, chosen function)"""

    def __init__(self, cap_per_key=3):
        self.seen = {}
        self.total = 0
        self.cap = cap_per_key

    def __enter__(self):
        self._orig = PartialDispatcher.partial_call
        orig, obs = self._orig, self

        def partial_call(self, *args):
            fn = orig(self, *args)
            obs.total += 1
            try:
                key = (id(self), tuple(map(deep_type, args)))
                if key not in obs.seen:
                    obs.seen[key] = (self, args, fn)
            except Exception:  # noqa
                pass
            return fn

        PartialDispatcher.partial_call = partial_call
        return self

    def __exit__(self, *a):
        PartialDispatcher.partial_call = self._orig


# ---------------------------------------------------------------------------
# recording

def three(f, *a):
    try:
        return 1 if f(*a) else 0
    except TypeError:
        return 2
    except RecursionError:
        return 2


class Recording:
    pass


def record(tier, seed, path):
    rng = random.Random(seed)
    T = TypeTable()
    regs = collect_registries(tier)
    rec = Recording()
    rec.T, rec.regs = T, regs

    # ---- registered signatures -> type ids (bare: typing_wrap is re-applied when the
    # dispatch-level relation is recorded, exactly as PartialDispatcher.add does)
    sig_comp = []              # component ids in first-seen order
    reg_sigs = []
    for r in regs:
        rs = []
        for sig, fn in r.sigs:
            fixed, var = sig_parts(sig)
            f = [T.intern(unwrap(x)) for x in fixed]
            v = [T.intern(unwrap(x)) for x in var]
            for i in f + v:
                if i not in sig_comp:
                    sig_comp.append(i)
            rs.append({"f": f, "v": v})
        reg_sigs.append(rs)
    five_comp = []
    for r, rs in zip(regs, reg_sigs):
        if r.name.split("/")[0] + "_base" in FIVE:
            for s in rs:
                for i in s["f"] + s["v"]:
                    if i not in five_comp:
                        five_comp.append(i)

    # ---- objects: handmade + harvested from observed dispatches
    n_expr = 250 if tier == "quick" else 1500
    with Observer() as obs:
        hand = handmade_objects()
        done, errors = random_expressions(n_expr, rng)
    rec.expr_done, rec.expr_errors, rec.dispatch_calls_observed = done, errors, obs.total
    observed = list(obs.seen.values())

    # ---- pool: signature components (+ closure), wrapped forms of a few, deep_type of
    # the sample objects; E = every other argument type that only needs the columns of
    # the signature components
    budget = 150 if tier == "quick" else 330
    pool = []

    def add(i):
        if i not in pool:
            pool.append(i)

    for i in (T.tuple_id, T.frozenset_id, T.object_id, T.intern(typing.Any), T.intern(typing.Tuple),
              T.intern(typing.FrozenSet)):
        add(i)
    for i in (five_comp if tier == "quick" else sig_comp):
        add(i)
    for i in list(pool):
        for j in T.components(i):
            add(j)
    for tp in (typing.Any, frozenset, ops.AddOp, str, typing.Tuple[Tensor, ...], Funsor):
        add(T.intern(typing_wrap(tp)))
    # generalisations of the precise types of sample terms that carry a PARAMETRISED frozenset /
    # tuple in a class-parameter position (the library's own patterns only use bare frozenset):
    # a term must be an instance of them (found by a seeded fault that typed frozenset arguments
    # as bare `frozenset` at construction)
    from funsor.cnf import Contraction as _Con
    for tp in (Reduce[ops.Op, Funsor, typing.FrozenSet[Variable]],
               Reduce[ops.AddOp, Tensor, typing.FrozenSet[Variable]],
               Reduce[ops.AssociativeOp, Funsor, typing.FrozenSet[Funsor]],
               _Con[ops.Op, ops.Op, typing.FrozenSet[Variable], typing.Tuple[Funsor, ...]],
               _Con[ops.AddOp, ops.MulOp, typing.FrozenSet[Variable], typing.Tuple[Tensor, Tensor]],
               Subs[Funsor, typing.Tuple[typing.Tuple[str, Funsor], ...]],
               # frozensets whose ELEMENT type is itself parametrised (covariance must look inside)
               typing.FrozenSet[typing.Tuple[int, str]], typing.FrozenSet[typing.Tuple[str, str]],
               typing.FrozenSet[typing.Union[int, str]], typing.FrozenSet[int], typing.FrozenSet[str],
               typing.FrozenSet[typing.Tuple[int, ...]]):
        try:
            add(T.intern(tp))
        except Exception:  # noqa
            pass
    if tier == "quick":
        for i in sig_comp:
            if len(pool) < budget - 45:
                add(i)
    sample_objs = []
    for x in hand:
        try:
            i = T.intern(deep_type(x))
        except Exception:  # noqa
            continue
        if len(pool) < budget or i in pool:
            add(i)
            sample_objs.append(x)
    harvested = []
    for d, args, fn in observed:
        for x in args:
            harvested.append(x)
    rng.shuffle(harvested)
    for x in harvested:
        if len(pool) >= budget:
            break
        try:
            i = T.intern(deep_type(x))
        except Exception:  # noqa
            continue
        if i not in pool:
            add(i)
            sample_objs.append(x)
    if tier != "quick":
        for i in list(pool):
            for j in T.components(i):
                if len(pool) < budget + 60:
                    add(j)
    rec.pool = pool

    # ---- dispatch events: synthesised argument tuples for every registered signature
    library = collections.OrderedDict()
    for x in hand + harvested + op_instances():
        try:
            library.setdefault((type(x).__name__, T.intern(deep_type(x))), x)
        except Exception:  # noqa
            pass
    library = list(library.values())
    events, unsynth, synth_ok = [], [], 0
    ev_seen = set()

    def add_event(ri, args, fn, how, target=None):
        try:
            tids = tuple(T.intern(deep_type(x)) for x in args)
        except Exception:  # noqa
            return False
        if (ri, tids) in ev_seen:
            return True
        ev_seen.add((ri, tids))
        events.append({"reg": ri, "args": list(tids), "_args": args, "_fn": fn, "how": how, "target": target})
        return True

    by_comp = {}

    def candidates(cid):
        if cid not in by_comp:
            tp = typing_wrap(T.pytype[cid - 1])
            found = []
            for x in library:
                try:
                    if issubclass(typing_wrap(deep_type(x)), tp):
                        found.append(x)
                except TypeError:
                    pass
            # most specific looking first, at most three
            by_comp[cid] = found[:3]
        return by_comp[cid]

    reg_index = {id(r.d): k for k, r in enumerate(regs)}
    for ri, (r, rs) in enumerate(zip(regs, reg_sigs)):
        for si, s in enumerate(rs):
            cols = [candidates(c) for c in s["f"]]
            tails = [[]]
            if s["v"]:
                vc = [x for c in s["v"] for x in candidates(c)]
                tails = [[], vc[:1], vc[:2]] if vc else [[]]
            if any(not c for c in cols):
                unsynth.append("%s#%d" % (r.name, si))
                continue
            n_here = 0
            for combo in itertools.islice(itertools.product(*cols), 4):
                for tail in tails:
                    args = tuple(combo) + tuple(tail)
                    try:
                        fn = r.d.partial_call(*args)
                    except NotImplementedError:
                        fn = None
                    except TypeError as e:
                        events.append({"reg": ri, "args": [], "_args": args, "_fn": None, "how": "raised",
                                       "target": si, "error": str(e)[:100]})
                        continue
                    add_event(ri, args, fn, "synth", si)
                    n_here += 1
            synth_ok += 1 if n_here else 0
    for d, args, fn in observed:
        ri = reg_index.get(id(d))
        if ri is not None:
            add_event(ri, args, fn, "observed")
    raised = [e for e in events if e["how"] == "raised"]
    events = [e for e in events if e["how"] != "raised"]
    cap = 2500 if tier == "quick" else 12000
    if len(events) > cap:
        keep = [e for e in events if e["how"] == "synth"]
        rest = [e for e in events if e["how"] != "synth"]
        rng.shuffle(rest)
        events = keep + rest[:max(0, cap - len(keep))]
    for e in events:
        r = regs[e["reg"]]
        e["chosen"] = [k + 1 for k, (sig, fn) in enumerate(r.sigs) if fn is e["_fn"]]
    rec.events, rec.unsynth, rec.synth_ok, rec.raised = events, unsynth, synth_ok, raised

    # ---- the recorded relations are computed last (the type table still grows)
    # ---- instance facts: objects as trees, deep_type, deep_isinstance against the pool
    objs = []
    oid = {}

    def obj(x, depth=0):
        k = id(x)
        if k in oid:
            return oid[k]
        if isinstance(x, Funsor):
            kids = [obj(y, depth + 1) for y in x._ast_values]
            node = {"k": "term", "c": T.intern(type(x).__origin__ if type(x).__args__ else type(x)), "a": kids}
        elif type(x) is tuple:
            node = {"k": "tuple", "c": T.tuple_id, "a": [obj(y, depth + 1) for y in x]}
        elif type(x) is frozenset:
            node = {"k": "fset", "c": T.frozenset_id, "a": [obj(y, depth + 1) for y in x]}
        else:
            node = {"k": "atom", "c": T.intern(type(x)), "a": []}
        objs.append(node)
        oid[k] = len(objs)
        rec._keep.append(x)
        return len(objs)

    rec._keep = []
    P = pool
    pyt = T.pytype
    members = []
    for x in sample_objs:
        t = T.intern(deep_type(x))
        if t not in P:
            continue
        o = obj(x)
        inst = [three(deep_isinstance, x, pyt[j - 1]) for j in P]
        members.append({"o": o, "t": t, "yes": [j for j, v in zip(P, inst) if v == 1],
                        "un": [j for j, v in zip(P, inst) if v == 2]})
    rec.members = members

    # ---- the recorded relations; every table is indexed by type id (empty row = not
    # in the table's domain, the domains are given separately)
    P = pool
    pyt = T.pytype
    N = len(T)
    wrapped = {i: typing_wrap(pyt[i - 1]) for i in range(1, N + 1)}
    E = []
    for e in events:
        for i in e["args"]:
            if i not in E:
                E.append(i)
    cols = sig_comp

    def table(dom, columns, val):
        up, un = [[] for _ in range(N)], [[] for _ in range(N)]
        for i in dom:
            for j in columns:
                v = val(i, j)
                if v == 1:
                    up[i - 1].append(j)
                elif v == 2:
                    un[i - 1].append(j)
        return up, un

    deep_up, deep_un = table(P, P, lambda i, j: three(deep_issubclass, pyt[i - 1], pyt[j - 1]))
    disp_up, disp_un = table(P, P, lambda i, j: three(issubclass, wrapped[i], wrapped[j]))
    rowdom = sorted(set(E) | set(cols))
    arg_up, arg_un = table(rowdom, cols, lambda i, j: three(issubclass, wrapped[i], wrapped[j]))
    mro, virtual = T.mro_pairs()
    header = {
        "kind": "header", "id": 1,
        "types": T.nodes,
        "mro": mro, "virtual": virtual,
        "pool": P,
        "deep_up": deep_up, "deep_un": deep_un, "disp_up": disp_up, "disp_un": disp_un,
        "ext": rowdom, "cols": cols, "arg_up": arg_up, "arg_un": arg_un,
        "regs": [{"name": r.name, "sigs": rs} for r, rs in zip(regs, reg_sigs)],
        "objs": objs, "members": [{"o": m["o"], "t": m["t"], "yes": m["yes"], "un": m["un"]} for m in members],
        "machine": [], "maxlen": 4 if tier == "quick" else 5,
        "tuple_id": T.tuple_id, "frozenset_id": T.frozenset_id, "object_id": T.object_id,
        "any_id": T.intern(typing.Any),
    }
    rec.header = header
    lines = [header]
    for name in AXIOMS:
        lines.append({"kind": "axiom", "id": len(lines) + 1, "name": name})
    for e in events:
        e["id"] = len(lines) + 1
        lines.append({"kind": "dispatch", "id": e["id"], "reg": e["reg"] + 1, "args": e["args"], "chosen": e["chosen"]})
    rec.lines = lines
    rec.path = path
    write(rec)
    return rec


def write(rec):
    with open(rec.path, "w") as f:
        for ln in rec.lines:
            f.write(json.dumps(ln) + "\n")


AXIOMS = ["sizes", "refl_deep", "refl_disp", "trans_deep", "trans_disp", "wrap_agree", "laws_deep", "laws_disp",
          "member_recorded", "member_model", "comparable"]


# ---------------------------------------------------------------------------
# names for reports

def sig_text(rec, ri, si):
    """registered signature si (1-based, registration order) of registry ri (0-based)"""
    T = rec.T
    s = rec.header["regs"][ri]["sigs"][si - 1]
    parts = [T.show(i) for i in s["f"]]
    if s["v"]:
        parts.append("*" + "|".join(T.show(i) for i in s["v"]))
    return "(" + ", ".join(parts) + ")"


def fn_text(fn):
    if isinstance(fn, PartialDefault):
        return "<default>"
    f = getattr(fn, "func", fn)
    return getattr(f, "__name__", None) or repr(fn)[:60]


# ---------------------------------------------------------------------------
# S->C: the DispatchCache machine

def choose_machine(rec, tier, ok_ids):
    """registries with many signatures, argument tuples (events the judge accepted) spread
    over distinct chosen functions, most matches first"""
    n_reg, n_tup = (5, 3) if tier == "quick" else (10, 4)
    per_reg = collections.defaultdict(list)
    for k, e in enumerate(rec.events):
        if e["id"] in ok_ids and e["args"]:
            per_reg[e["reg"]].append(k)
    nsig = {ri: len(rec.header["regs"][ri]["sigs"]) for ri in per_reg}
    five = {n[:-5] for n in FIVE}
    ranked = sorted(per_reg, key=lambda ri: (-nsig[ri], ri))
    interp = [ri for ri in ranked if rec.regs[ri].name.split("/")[0] in five]
    other = [ri for ri in ranked if ri not in interp]
    n_other = 1 if tier == "quick" else 2
    probe = [ri for ri in ranked if rec.regs[ri].name == "probe/deep"]
    other = [ri for ri in other if ri not in probe]
    chosen = interp[:n_reg - n_other] + other[:n_other] + probe
    machine = []
    for ri in chosen:
        byfn = collections.OrderedDict()
        for k in sorted(per_reg[ri], key=lambda k: -ok_ids[rec.events[k]["id"]]):
            byfn.setdefault(id(rec.events[k]["_fn"]), []).append(k)
        pick = []
        for lst in itertools.zip_longest(*byfn.values()):
            pick += [k for k in lst if k is not None]
        pick = pick[:(n_tup + 1 if ri in probe else n_tup)]
        # late registration (probe registry only): these signatures are added by a Register
        # action after some dispatches - Dispatcher.add must drop the cached choices
        late = []
        if ri in probe:
            late = [k + 1 for k, (sig, fn) in enumerate(rec.regs[ri].sigs)
                    if getattr(fn, "k", None) in PROBE_LATE]
        machine.append({"reg": ri + 1, "tuples": [rec.events[k]["args"] for k in pick], "_events": pick,
                        "late": late})
    rec.machine = machine
    rec.header["machine"] = [{"reg": m["reg"], "tuples": m["tuples"], "late": m["late"]} for m in machine]
    write(rec)
    return machine


def _cold(d):
    d._cache.clear()
    try:
        del d._ordering
    except AttributeError:
        pass
    deep_issubclass.cache_clear()


def replay_machine(rec, records):
    """records: what spec/Dispatch.tla printed under Dispatch.cfg.  Executes every
    behaviour against the real dispatcher; the function selected at every Dispatch step
    must be the one registered for the signature the model resolved."""
    import warnings
    res = {}
    behaviours = []
    for r in records:
        if r is None:
            continue
        if r.get("kind") == "resolve":
            res[r["m"]] = r["res"]
        elif r.get("kind") == "behaviour":
            behaviours.append(r)
    out = {"behaviours": 0, "steps": 0, "dispatch_steps": 0, "mismatches": [], "not_unique": [], "samples": []}
    for m, rs in res.items():
        mach = rec.machine[m - 1]
        for t, cand in enumerate(rs):
            if len(cand) != 1:
                out["not_unique"].append({"reg": mach["reg"] - 1, "args": mach["tuples"][t], "resolved": cand})
    seen_bad = set()
    with warnings.catch_warnings():
        warnings.simplefilter("ignore")
        for b in behaviours:
            mach = rec.machine[b["m"] - 1]
            reg = rec.regs[mach["reg"] - 1]
            d = reg.d
            if mach.get("late"):
                # a fresh dispatcher of the library's class with the not-late signatures registered
                d = PartialDispatcher(name=reg.name)
                for k, (sig, fn) in enumerate(reg.sigs):
                    if k + 1 not in mach["late"]:
                        d.add(tuple(unwrap(x) for x in sig), fn)
            _cold(d)
            out["behaviours"] += 1
            for step in b["log"]:
                out["steps"] += 1
                if step["a"] == "c":
                    d._cache.clear()
                elif step["a"] == "f":
                    _cold(d)
                elif step["a"] == "r":
                    sig, fn = reg.sigs[step["t"] - 1]
                    d.add(tuple(unwrap(x) for x in sig), fn)
                else:
                    out["dispatch_steps"] += 1
                    args = rec.events[mach["_events"][step["t"] - 1]]["_args"]
                    try:
                        fn = d.partial_call(*args)
                    except NotImplementedError:
                        fn = None
                    want = reg.sigs[step["r"] - 1][1] if step["r"] else None
                    if fn is not want:
                        key = (mach["reg"], step["t"], step["r"])
                        if key not in seen_bad:
                            seen_bad.add(key)
                            out["mismatches"].append({
                                "reg": mach["reg"] - 1, "t": step["t"], "model_sig": step["r"], "got": fn_text(fn),
                                "want": fn_text(want), "log": b["log"]})
            if len(out["samples"]) < 3:
                out["samples"].append({"registry": reg.name, "log": b["log"]})
    return out


# ---------------------------------------------------------------------------
# registration order

def order_preserving_permutation(n, comparable, rng):
    """a random permutation of 1..n that keeps the relative order of every comparable pair"""
    preds = collections.defaultdict(set)
    for i, j in comparable:
        preds[max(i, j)].add(min(i, j))
    placed, order, rest = set(), [], list(range(1, n + 1))
    while rest:
        ready = [k for k in rest if preds[k] <= placed]
        k = rng.choice(ready)
        rest.remove(k)
        placed.add(k)
        order.append(k)
    return order


class _Marker:
    """stands for 'the rule registered for signature k' in a fresh dispatcher"""

    def __init__(self, k):
        self.k = k


def reregister(rec, comparable, n_perm, seed):
    """comparable[r] = pairs (i, j) of signature indices of registry r that TLC found
    comparable under the recorded relation.  Fresh dispatchers get one marker per
    signature, so the selected signature is observed exactly."""
    import warnings
    rng = random.Random(seed + 1)
    out = {"registries": 0, "permutations": 0, "dispatches": 0, "moved": 0, "mismatches": [], "skipped": 0}
    per_reg = collections.defaultdict(list)
    for e in rec.events:
        per_reg[e["reg"]].append(e)

    def build(reg, order):
        fresh = PartialDispatcher(name=reg.name)
        for k in order:
            fresh.add(reg.sigs[k - 1][0], _Marker(k))
        return fresh

    def pick(fresh, e):
        types = tuple(map(typing_wrap, map(deep_type, e["_args"])))
        m = fresh.dispatch(*types)
        return m.k if m is not None else 0

    with warnings.catch_warnings():
        warnings.simplefilter("ignore")
        for ri, reg in enumerate(rec.regs):
            evs = per_reg.get(ri)
            if not evs or len(reg.sigs) < 2:
                continue
            if any(len(sig) == 0 for sig, fn in reg.sigs):
                out["skipped"] += 1
                continue
            out["registries"] += 1
            n = len(reg.sigs)
            base = build(reg, list(range(1, n + 1)))
            k0 = {}
            seen_bad = set()
            for e in evs:
                k0[e["id"]] = k = pick(base, e)
                out["dispatches"] += 1
                if (reg.sigs[k - 1][1] if k else None) is not e["_fn"]:
                    out["mismatches"].append({"reg": ri, "args": e["args"], "was": min(e["chosen"] or [0]), "now": k,
                                              "order": "as registered, fresh dispatcher", "was_fn": fn_text(e["_fn"]),
                                              "now_fn": fn_text(reg.sigs[k - 1][1]) if k else "none"})
            for p in range(n_perm):
                order = order_preserving_permutation(n, comparable[ri], rng)
                out["moved"] += sum(1 for a, b in zip(order, range(1, n + 1)) if a != b)
                fresh = build(reg, order)
                out["permutations"] += 1
                for e in evs:
                    k = pick(fresh, e)
                    out["dispatches"] += 1
                    if (reg.sigs[k - 1][1] if k else None) is not e["_fn"]:
                        key = (k0[e["id"]], k)
                        if key not in seen_bad:
                            seen_bad.add(key)
                            out["mismatches"].append({"reg": ri, "args": e["args"], "was": k0[e["id"]], "now": k,
                                                      "order": order, "was_fn": fn_text(e["_fn"]),
                                                      "now_fn": fn_text(reg.sigs[k - 1][1]) if k else "none"})
    return out
