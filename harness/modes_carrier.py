"""Carrier filter shared by C02/C03/C08 (no funsor import)."""


def ops_in(t, acc):
    """all op names occurring in an AST"""
    if isinstance(t, dict):
        c = t.get("c")
        if c in ("Un", "Bin"):
            acc.add(t["op"]["n"])
        elif c == "Red":
            acc.add(t["op"])
        elif c == "Con":
            acc.add(t["red"])
            acc.add(t["bin"])
        for v in t.values():
            ops_in(v, acc)
    elif isinstance(t, list):
        for v in t:
            ops_in(v, acc)
    return acc


def _neg(s):
    return s[0] == "NI" or (s[0] == "R" and s[1] < 0) or (s[0] == "L" and s[1] < s[2])


def has_negative_leaf(t):
    if isinstance(t, dict):
        if t.get("c") == "Ten":
            return any(_neg(s) for s in t["data"])
        if t.get("c") == "Num":
            return _neg(t["v"])
        if t.get("c") == "Un" and t["op"]["n"] in ("neg", "log"):
            return True
        if t.get("c") == "Bin" and t["op"]["n"] in ("sub", "safesub"):
            return True
        return any(has_negative_leaf(v) for v in t.values())
    if isinstance(t, list):
        return any(has_negative_leaf(v) for v in t)
    return False


def in_carrier(*terms):
    """within the carrier on which the semirings are declared: non-negative data where
    max or min is paired with mul"""
    names = set()
    for t in terms:
        ops_in(t, names)
    if names & {"max", "min", "amax", "amin"} and names & {"mul", "prod", "pow", "truediv", "reciprocal"}:
        return not any(has_negative_leaf(t) for t in terms if t is not None)
    return True

