"""Carrier filter shared by C02/C03/C08 (no funsor import)."""


def ops_in(t, acc):
    """all op names occurring in an AST"""
    if isinstance(t, dict):
        c = t.get("c")
        if c in ("Un", "Bin"):
            acc.add(t["op"]["n"])
        elif c == "Red":
            acc.add(t["op"])
        elif c == "Con":
            acc.add(t["red"])
            acc.add(t["bin"])
        for v in t.values():
            ops_in(v, acc)
    elif isinstance(t, list):
        for v in t:
            ops_in(v, acc)
    return acc


def _neg(s):
    return s[0] == "NI" or (s[0] == "R" and s[1] < 0) or (s[0] == "L" and s[1] < s[2])


def has_negative_leaf(t):
    if isinstance(t, dict):
        if t.get("c") == "Ten":
            return any(_neg(s) for s in t["data"])
        if t.get("c") == "Num":
            return _neg(t["v"])
        if t.get("c") == "Var" and t["dom"]["dt"] == 0:
            return True      # a free real input ranges over negative values too
        if t.get("c") == "Un" and t["op"]["n"] in ("neg", "log"):
            return True
        if t.get("c") == "Bin" and t["op"]["n"] in ("sub", "safesub"):
            return True
        return any(has_negative_leaf(v) for v in t.values())
    if isinstance(t, list):
        return any(has_negative_leaf(v) for v in t)
    return False


def in_carrier(*terms):
    """within the carrier on which the semirings are declared: non-negative data where
    max or min is paired with mul"""
    names = set()
    for t in terms:
        ops_in(t, names)
    if names & {"max", "min", "amax", "amin"} and names & {"mul", "prod", "pow", "truediv", "reciprocal"}:
        return not any(has_negative_leaf(t) for t in terms if t is not None)
    return True



def free_names(t):
    """free input names of an AST (used only to classify violations for known findings,
    never for a verdict)"""
    c = t["c"]
    if c == "Var":
        return {t["name"]}
    if c in ("Num",):
        return set()
    if c == "Ten":
        return {n for n, _ in t["ins"]}
    if c == "Gauss":
        return {n for n, _ in t["ins"]}
    if c == "Slice":
        return {t["name"]}
    if c == "Un":
        return free_names(t["arg"])
    if c == "Bin":
        return free_names(t["l"]) | free_names(t["r"])
    if c == "Red":
        return free_names(t["arg"]) - {n for n, _ in t["vars"]}
    if c == "Sub":
        a = free_names(t["arg"])
        out = a - {k for k, _ in t["subs"]}
        for k, v in t["subs"]:
            if k in a:
                out |= free_names(v)
        return out
    if c == "Stack":
        return {t["name"]} | set().union(*[free_names(p) for p in t["parts"]])
    if c == "Cat":
        return (set().union(*[free_names(p) for p in t["parts"]]) - {t["pn"]}) | {t["name"]}
    if c == "Lam":
        return free_names(t["expr"]) - {t["var"][0]}
    if c == "Indep":
        return (free_names(t["fn"]) - {t["bv"], t["dv"]}) | {t["rv"]}
    if c == "Con":
        return set().union(*[free_names(x) for x in t["terms"]]) - {n for n, _ in t["vars"]}
    if c == "Align":
        return free_names(t["arg"])
    if c == "Delta":
        out = set()
        for n, p, ld in t["terms"]:
            out |= {n} | free_names(p) | free_names(ld)
        return out
    if c == "Integ":
        return (free_names(t["measure"]) | free_names(t["integrand"])) - {n for n, _ in t["vars"]}
    return set()


def reduces_absent_var(t):
    """True iff the root of t reduces a variable that its body does not have free"""
    c = t.get("c")
    if c == "Red":
        return any(n not in free_names(t["arg"]) for n, _ in t["vars"])
    if c == "Con":
        body = set().union(*[free_names(x) for x in t["terms"]])
        return any(n not in body for n, _ in t["vars"])
    return False


def shared_binder_feature(t):
    """True iff a subterm that binds a variable (a reduction / contraction with reduced
    variables, a Lambda, a Cat) occurs at two different positions of t: funsor cons-hashes
    the two occurrences to ONE object, so both carry the same mangled bound name."""
    import json as _json
    seen = {}
    found = [False]

    def binds(x):
        c = x.get("c")
        return (c == "Red") or (c == "Con" and x["vars"]) or c in ("Lam", "Cat", "Integ")

    def walk(x):
        if isinstance(x, dict):
            if "c" in x and binds(x):
                k = _json.dumps(x, sort_keys=True)
                seen[k] = seen.get(k, 0) + 1
                if seen[k] > 1:
                    found[0] = True
            for v in x.values():
                walk(v)
        elif isinstance(x, list):
            for v in x:
                walk(v)
    walk(t)
    return found[0]


def nested_same_binder_feature(t):
    """True iff a reduction / contraction binds a name that a reduction / contraction nested
    INSIDE it binds again (shadowing): (sum_k y[k]) * x[i,k] summed over k"""
    def bound(x):
        if x.get("c") == "Red" or (x.get("c") == "Con" and x.get("vars")):
            return {n for n, _ in x["vars"]}
        return set()

    def walk(x, outer):
        if isinstance(x, dict):
            here = bound(x) if "c" in x else set()
            if here & outer:
                return True
            return any(walk(v, outer | here) for v in x.values())
        if isinstance(x, list):
            return any(walk(v, outer) for v in x)
        return False
    return walk(t, set())


def identity_subs_feature(t):
    """True iff some substitution maps an input to the variable of the same name (f(k='k'))"""
    if isinstance(t, dict):
        if t.get("c") == "Sub" and any(v.get("c") == "Var" and v.get("name") == k for k, v in t["subs"]):
            return True
        return any(identity_subs_feature(v) for v in t.values())
    if isinstance(t, list):
        return any(identity_subs_feature(v) for v in t)
    return False


def rename_onto_input_feature(t):
    """True iff a substitution renames an input of a tensor leaf onto a variable that is itself
    an (unsubstituted) input of that leaf: x(i='k') on x[i, k] - the diagonal"""
    if isinstance(t, dict):
        if t.get("c") == "Sub" and isinstance(t.get("arg"), dict) and t["arg"].get("c") == "Ten":
            keys = {k for k, _ in t["subs"]}
            kept = {n for n, _ in t["arg"]["ins"]} - keys
            if any(v.get("c") == "Var" and v.get("name") in kept for _, v in t["subs"]):
                return True
        return any(rename_onto_input_feature(v) for v in t.values())
    if isinstance(t, list):
        return any(rename_onto_input_feature(v) for v in t)
    return False
