"""S->C: stream the behaviours TLC emits from a TermMachine lens into the real
library, sharded over worker processes.

Each emitted record is {tag, t (term AST), exp (projection)}.  A *mode* says how
to execute the term and which clauses of which property to evaluate.
"""
import hashlib
import json
import multiprocessing as mp
import os
import signal
import sys
import time
import traceback
from collections import Counter, defaultdict

from . import tlc

STEP_TIMEOUT = 20


class StepTimeout(BaseException):
    """raised by the per-record alarm; a BaseException so that a mode's own `except Exception`
    (funsor errors are declines) cannot swallow it"""


def _alarm(signum, frame):
    raise StepTimeout()


def term_sig(t, depth=2):
    """Short structural signature of a term: class:op(children...) to `depth`."""
    c = t.get("c")
    if c in ("Un", "Bin"):
        head = "%s:%s" % (c, t["op"]["n"])
    elif c == "Red":
        head = "Red:%s" % t["op"]
    elif c == "Con":
        head = "Con:%s.%s" % (t["red"], t["bin"])
    else:
        head = c
    if depth == 0:
        return head
    kids = children(t)
    if not kids:
        return head
    return head + "(" + ",".join(term_sig(k, depth - 1) for k in kids) + ")"


def children(t):
    c = t.get("c")
    if c == "Un":
        return [t["arg"]]
    if c == "Bin":
        return [t["l"], t["r"]]
    if c in ("Red", "Align"):
        return [t["arg"]]
    if c == "Sub":
        return [t["arg"]] + [v for _, v in t["subs"]]
    if c in ("Stack", "Cat"):
        return list(t["parts"])
    if c == "Lam":
        return [t["expr"]]
    if c == "Indep":
        return [t["fn"]]
    if c == "Con":
        return list(t["terms"])
    if c == "Delta":
        return [x for _, p, ld in t["terms"] for x in (p, ld)]
    if c == "Integ":
        return [t["measure"], t["integrand"]]
    return []


def key_of(t):
    return hashlib.blake2b(json.dumps(t, sort_keys=True).encode(), digest_size=12).hexdigest()


def node_count(t):
    return 1 + sum(node_count(k) for k in children(t))


_MODE = None


def _init(mode_path, env):
    global _MODE
    os.environ.update(env)
    sys.path.insert(0, tlc.VERIF)
    import importlib
    mod, fn = mode_path.rsplit(":", 1)
    _MODE = getattr(importlib.import_module(mod), fn)
    signal.signal(signal.SIGALRM, _alarm)


def _work(lines):
    out = []
    for line in lines:
        try:
            rec = tlc.parse_line(line)
        except Exception as e:
            out.append({"status": "machinery", "clause": "parse", "detail": str(e)})
            continue
        if rec is None:
            continue
        signal.alarm(STEP_TIMEOUT)
        try:
            res = _MODE(rec)
        except StepTimeout:
            res = [{"status": "declined_timeout", "clause": "timeout"}]
        except Exception:
            res = [{"status": "machinery", "clause": "harness_exception",
                    "detail": traceback.format_exc()[-1500:]}]
        finally:
            signal.alarm(0)
        if "t" in rec:
            t = rec["t"]
            k = key_of(t)
            kids = [key_of(c) for c in children(t)]
            sig, head = term_sig(t), term_sig(t, 0)
            kidheads = "|".join(term_sig(c, 0) for c in children(t))
            n, leaf = node_count(t), not kids
        else:   # a problem record of an algorithm engine (no single term)
            t = {x: rec[x] for x in rec if x != "exp"}
            k, kids, sig, head, kidheads = key_of(t), [], rec.get("sig", rec.get("tag")), rec.get("tag"), ""
            n, leaf = 3, False
        for r in res:
            if r["status"].startswith("_"):
                continue
            r.setdefault("key", k)
            r.setdefault("kids", kids)
            r.setdefault("sig", sig)
            r.setdefault("head", head)
            r.setdefault("kidheads", kidheads)
            r.setdefault("tag", rec.get("tag"))
            if r["status"] in ("mismatch", "machinery"):
                if "c" in t:
                    from .modes_carrier import shared_binder_feature
                    r.setdefault("shared_binder", "yes" if shared_binder_feature(t) else "no")
                r.setdefault("term", t)
                r.setdefault("exp", rec.get("exp"))
        out.append({"status": "_rec", "key": k, "leaf": leaf, "n": n,
                    "sample": t if len(line) < 1500 else None})
        out.extend(res)
    return out


class Replay:
    """Runs lenses through TLC and replays what they emit with `mode`.

    mode: "package.module:function"; function(record) -> list of verdict dicts
    {status: agree|declined_*|mismatch|machinery, prop?, clause, detail}."""

    def __init__(self, mode, procs=16, env=None, chunk=64):
        self.mode = mode
        self.procs = procs
        self.env = env or {}
        self.chunk = chunk
        self.counts = Counter()
        self.by_tag = defaultdict(Counter)
        self.mismatches = []
        self.machinery = []
        self.states = 0
        self.transitions = 0
        self.records = 0
        self.nontrivial = 0
        self.samples = []
        self.tlc_runs = []
        self.sigs = Counter()
        self.events = []
        self.fired = Counter()
        self.skipped = Counter()

    def run_lens(self, module, cfg=None, workers=16, simulate=None, timeout=900, limit=None, cache=None):
        """cache: path of a file holding the lens's emitted lines (written on first use) so that
        several replays of one check run (different environments) share one TLC run."""
        if limit is not None and workers == 16 and not simulate:
            # a limited run takes a PREFIX of TLC's output: with one worker the breadth-first order
            # (hence the prefix) is the same in every run; with 16 it was not, and a clean-tree
            # violation surfaced only now and then (DESIGN.md 0.4)
            workers = 1
        run = tlc.TLCRun(module, cfg=cfg, workers=workers, simulate=simulate, timeout=timeout)
        if cache is not None and os.path.exists(cache + ".stats"):
            with open(cache + ".stats") as f:
                st = json.load(f)
            run.distinct, run.generated, run.ok, run.error = st["distinct"], st["generated"], st["ok"], st["error"]
            run.raw_lines = lambda: open(cache)
        elif cache is not None:
            inner = run.raw_lines

            def tee():
                with open(cache, "w") as f:
                    for line in inner():
                        f.write(line)
                        yield line
                with open(cache + ".stats", "w") as f:
                    json.dump({"distinct": run.distinct, "generated": run.generated, "ok": run.ok, "error": run.error}, f)
            run.raw_lines = tee
        seen = set()
        pool = mp.Pool(self.procs, initializer=_init, initargs=(self.mode, self.env))
        pending = []
        try:
            batch = []
            for_lines = run.raw_lines()
            n_lines = 0
            for line in for_lines:
                h = hashlib.blake2b(line.encode(), digest_size=12).digest()
                if h in seen:
                    continue
                seen.add(h)
                batch.append(line)
                n_lines += 1
                if len(batch) >= self.chunk:
                    pending.append(pool.apply_async(_work, (batch,)))
                    batch = []
                while len(pending) > 4 * self.procs:
                    self._absorb(pending.pop(0).get())
                if limit and n_lines >= limit:
                    if hasattr(for_lines, "close"):
                        for_lines.close()
                    break
            if batch:
                pending.append(pool.apply_async(_work, (batch,)))
            for p in pending:
                self._absorb(p.get())
        finally:
            pool.terminate()
            pool.join()
        # a run stopped at `limit` never prints TLC's totals: the emitted (distinct) states seen
        # are a lower bound of what TLC generated
        self.states += max(run.distinct, len(seen))
        self.transitions += max(run.generated, len(seen))
        self.tlc_runs.append({"module": module, "cfg": cfg or module, "distinct": run.distinct,
                              "generated": run.generated, "ok": run.ok, "error": run.error,
                              "wall_s": round(run.wall, 1), "simulate": simulate})
        if not run.ok and not (limit and n_lines >= limit):
            self.machinery.append({"clause": "tlc", "detail": run.error or "\n".join(run.output_tail[-30:])})
        return run

    def _absorb(self, results):
        for r in results:
            st = r["status"]
            if st == "_event":
                self.events.append(r["event"])
                continue
            if st == "_stats":
                for k, n in r["fired"].items():
                    self.fired[k] += n
                for k, n in r["skipped"].items():
                    self.skipped[k] += n
                continue
            if st == "_rec":
                self.records += 1
                if not r["leaf"]:
                    self.nontrivial += 1
                if r.get("sample") is not None and len(self.samples) < 6 and r["n"] >= 3:
                    self.samples.append(r["sample"])
                continue
            self.counts[st] += 1
            self.by_tag[r.get("tag")][st] += 1
            if st == "mismatch":
                self.mismatches.append(r)
            elif st == "machinery":
                self.machinery.append(r)
            elif st.startswith("declined"):
                self.sigs[(st, r.get("clause"))] += 1

    def minimal_mismatches(self):
        """mismatches none of whose direct subterms mismatched on the same clause family"""
        bad = defaultdict(set)
        for m in self.mismatches:
            bad[m.get("prop")].add(m["key"])
        return [m for m in self.mismatches
                if not any(k in bad[m.get("prop")] for k in m.get("kids", []))]


def run_many(mode, specs, env=None, parallel=4, chunk=64):
    """Run several lenses side by side (threads; each with its own worker pool) and merge.
    specs: list of dicts(module=, cfg=, limit=, simulate=, timeout=)."""
    from concurrent.futures import ThreadPoolExecutor
    procs_each = max(2, 16 // parallel)

    def one(spec):
        rp = Replay(mode, procs=procs_each, env=env, chunk=chunk)
        rp.run_lens(spec["module"], cfg=spec.get("cfg"), workers=1 if spec.get("limit") else procs_each,
                    limit=spec.get("limit"),
                    simulate=spec.get("simulate"), timeout=spec.get("timeout", 900))
        return rp
    with ThreadPoolExecutor(parallel) as ex:
        parts = list(ex.map(one, specs))
    out = Replay(mode, env=env)
    for rp in parts:
        out.counts.update(rp.counts)
        for k, v in rp.by_tag.items():
            out.by_tag[k].update(v)
        out.mismatches.extend(rp.mismatches)
        out.machinery.extend(rp.machinery)
        out.states += rp.states
        out.transitions += rp.transitions
        out.records += rp.records
        out.nontrivial += rp.nontrivial
        out.samples.extend(rp.samples[:2])
        out.tlc_runs.extend(rp.tlc_runs)
        out.sigs.update(rp.sigs)
        out.events.extend(rp.events)
        out.fired.update(rp.fired)
        out.skipped.update(rp.skipped)
    return out
