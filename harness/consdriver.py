"""C07 driver: executes behaviours of spec/ConsCache.tla in CPython (S->C) and records
runs as ndjson events for spec/Trace_ConsCache.tla (C->S).

Python only performs the public API call an action names, looks at what a user can look
at (`is` between references it holds, weakref liveness, len() of the intern tables) and
compares with the observation TLC printed.  It keeps no model of the tables.

Two ways of dropping a reference:
  limbo  (S->C replay)  Drop / Free move the object to a hidden list that is emptied by
         the next Collect.  CPython then behaves like the spec's weak table whose garbage
         stays until the collector runs, so the observation after every action is
         determined (this also reaches the "resurrected by a lookup before it was
         collected" paths that reference counting alone never takes).
  native (C->S random runs) references are really deleted; what has been reclaimed after
         an action is decided by CPython and inferred by TLC.
"""
import gc
import json
import os
import pickle
import random
import sys
import traceback
import weakref

_LAB = None


def full_collect():
    """gc.collect() to a fixpoint: one pass frees a cyclic object (a domain, a type) only
    after the table key that mentioned it has gone, which happens in the pass before"""
    for _ in range(6):
        if not gc.collect():
            break


class Skip(Exception):
    """the behaviour needs something CPython did not give us (a recycled address)"""


class Lab:
    """funsor imported once per process; recipes and tables of one lens (a process serves
    one lens only, so that what one lens leaves in shared caches cannot shift the other's
    baseline)."""

    def __init__(self, lens):
        self.lens = lens
        import numpy as np
        import funsor

        funsor.set_backend("numpy")
        from funsor import ops
        from funsor.cnf import Contraction
        from funsor.domains import Array, ArrayType, Bint, Product, ProductDomain, Reals
        from funsor.interpretations import eager, lazy, normalize, reflect
        from funsor.interpreter import reinterpret
        from funsor.tensor import Tensor
        from funsor.terms import Binary, Funsor, Number, Reduce, Unary, Variable

        self.np = np
        self.funsor_file = funsor.__file__
        self.reinterpret = reinterpret
        self.Funsor = Funsor
        self.reflect = reflect
        self.interp = {"eager": eager, "lazy": lazy, "reflect": reflect, "normalize": normalize}
        B2, B3 = Bint[2], Bint[3]        # kept: the terms lens does not track domains
        self._keep = (B2, B3)

        def TA(s):
            return Tensor(s[0], {"i": Bint[2]})

        def TB(s):
            return Tensor(s[1], {"i": Bint[2]})

        # Spellings of one constant: structural equality of Number(0.5) does not depend on whether
        # the datum arrives as a python float or as a numpy scalar (an element taken out of an
        # array).  The spec has ONE key for NUM; the driver alternates the spelling per call
        # (found by a seeded fault that keyed numpy scalars by identity).
        self._num_calls = 0
        half = np.array([0.5, 0.25])

        def NUMv():
            self._num_calls += 1
            k = self._num_calls % 3
            return 0.5 if k == 0 else (np.float64(0.5) if k == 1 else half[0])

        self.term_recipes = {
            "VX": lambda s: Variable("x", Bint[3]),
            "TA": TA,
            "TB": TB,
            "NUM": lambda s: Number(NUMv()),
            "BXN": lambda s: Binary(ops.add, Variable("x", Bint[3]), Number(NUMv())),
            "BIN": lambda s: Binary(ops.add, TA(s), TB(s)),
            "RED": lambda s: Reduce(ops.add, TA(s), frozenset({Variable("i", Bint[2])})),
        }
        self.term_tables = [c._cons_cache for c in (Variable, Number, Tensor, Binary, Reduce, Contraction)]
        self.term_classes = ["Variable", "Number", "Tensor", "Binary", "Reduce", "Contraction"]

        sl = slice(0, 2, 1)
        self.intern_recipes = {
            "Bint7": lambda s: Bint[7],
            "Arr7": lambda s: Array[7, ()],
            "Reals57": lambda s: Reals[5, 7],
            "ArrR57": lambda s: Array["real", (5, 7)],
            "Reals5": lambda s: Reals[5],
            "Bint72": lambda s: Bint[7, 2],
            "Prod": lambda s: Product[Bint[7], Reals[5, 7]],
            "Getitem1": lambda s: ops.GetitemOp(1),
            "Getitem1kw": lambda s: ops.GetitemOp(offset=1),
            "Getitem2": lambda s: ops.GetitemOp(2),
            "ReshapeT": lambda s: ops.ReshapeOp((2, 3)),
            "ReshapeL": lambda s: ops.ReshapeOp([2, 3]),
            "Reshape32": lambda s: ops.ReshapeOp((3, 2)),
            "Sum0F": lambda s: ops.SumOp(0, False),
            "Sum0": lambda s: ops.SumOp(0),
            "Sum0kw": lambda s: ops.SumOp(axis=0, keepdims=False),
            "Sum0T": lambda s: ops.SumOp(0, True),
            "SliceT": lambda s: ops.GetsliceOp((sl,)),
            "SliceB": lambda s: ops.GetsliceOp(slice(0, 2, 1)),
            "SliceKw": lambda s: ops.GetsliceOp(index=slice(0, 2, 1)),
            "TyBinAdd": lambda s: Binary[ops.AddOp, Tensor, Tensor],
            "TyBinAddL": lambda s: Binary[tuple([ops.AddOp, Tensor, Tensor])],
            "TyBinGet": lambda s: Binary[ops.GetitemOp, Variable, Number],
            "TyRed": lambda s: Reduce[ops.MulOp, Variable, frozenset],
        }
        self.intern_tables = [ArrayType._type_cache, ProductDomain._type_cache, ops.GetitemOp._instance_cache,
                              ops.ReshapeOp._instance_cache, ops.SumOp._instance_cache,
                              ops.GetsliceOp._instance_cache, Binary._type_cache, Reduce._type_cache]
        self.intern_classes = ["ArrayType", "ProductDomain", "GetitemOp", "ReshapeOp", "SumOp", "GetsliceOp",
                               "BinaryT", "ReduceT"]
        # terms built through PARAMETRISED ops over array domains nothing else uses: the op instance,
        # the operand / result domains and the parametrised term type must die with the term.
        # "_w*" are the same constructions with other parameters (another op instance, other
        # domains), used for warming only, so that the instances the recipes make are never
        # touched before a behaviour starts.
        def xg(a, b):
            return lambda s: Variable("x", Reals[a, b])[:, Variable("j", Bint[b])]

        self.opterm_recipes = {
            "XG": xg(13, 11),                                                    # Binary(GetitemOp(1), x, j)
            "XS": lambda s: Variable("x", Reals[13, 11]).sum(1, True),           # Unary(SumOp(1, True), x)
            "XR": lambda s: Variable("x", Reals[13, 11]).reshape((11, 13)),      # Unary(ReshapeOp((11, 13)), x)
            "G1": lambda s: ops.GetitemOp(1),
            "DX": lambda s: Reals[13, 11],
            "_wXG": lambda s: Variable("x", Reals[17, 19, 23])[:, :, Variable("j", Bint[23])],
            "_wXS": lambda s: Variable("x", Reals[17, 19, 23]).sum(2, True),
            "_wXR": lambda s: Variable("x", Reals[17, 19, 23]).reshape((23, 19, 17)),
            "_wG": lambda s: ops.GetitemOp(3),
            "_wD": lambda s: Reals[17, 19, 29],
        }
        self.opterm_tables = [Variable._cons_cache, Binary._cons_cache, Unary._cons_cache, ArrayType._type_cache,
                              ops.GetitemOp._instance_cache, ops.SumOp._instance_cache,
                              ops.ReshapeOp._instance_cache, Binary._type_cache, Unary._type_cache]
        self.opterm_classes = ["Variable", "Binary", "Unary", "ArrayType", "GetitemOp", "SumOp", "ReshapeOp",
                               "BinaryT", "UnaryT"]

        # warm every code path once so that one-off caches (dispatch tables, lazily created
        # types) are filled before the baseline is taken, then park all of it in the
        # permanent generation: gc.collect() afterwards only looks at what a behaviour made
        for lens in (self.lens,):
            r = Run(self, lens, "limbo")
            for name in self.recipes(lens):
                if lens == "opterms" and not name.startswith("_w"):
                    continue
                for i in ([""] if lens == "interned" or name in ("_wG", "_wD") else self.interp):
                    try:
                        r.act({"a": "Construct", "r": name, "i": i, "h": 0, "s": 0, "ad": 0})
                    except Exception:
                        pass
            for h in range(1, len(r.handles) + 1):
                try:
                    term = isinstance(r.handles[h - 1], Funsor)
                    if term:
                        r.act({"a": "Reflect", "r": "", "i": "", "h": h, "s": 0, "ad": 0})
                    r.act({"a": "Pickle", "r": "", "i": "reflect" if term else "", "h": h, "s": 0, "ad": 0})
                except Exception:
                    pass
            r.close()
        full_collect()
        gc.freeze()

    def recipes(self, lens):
        return {"terms": self.term_recipes, "interned": self.intern_recipes, "opterms": self.opterm_recipes}[lens]

    def tables(self, lens):
        return {"terms": self.term_tables, "interned": self.intern_tables, "opterms": self.opterm_tables}[lens]

    def classes(self, lens):
        return {"terms": self.term_classes, "interned": self.intern_classes, "opterms": self.opterm_classes}[lens]


def lab(lens):
    global _LAB
    if _LAB is None:
        _LAB = Lab(lens)
    assert _LAB.lens == lens, "one lens per process"
    return _LAB


class Run:
    """one behaviour executed against the real library"""

    RECYCLE_TRIES = 200

    def __init__(self, lab_, lens, mode):
        self.lab = lab_
        self.lens = lens
        self.mode = mode
        np = lab_.np
        self.handles = []          # strong references (None once dropped)
        self.wr = []               # weakref per handle
        self.limbo = []
        self.arr_wr = []           # weakref per array that ever sat in a slot
        self.nfresh = 0
        self.recycled = 0
        self.addr_of = {}          # spec address label / observed address class -> id()
        full_collect()
        self.base = [len(t) for t in lab_.tables(lens)]
        if lens == "terms":
            self.slots = [np.array([1.0, 2.0]), np.array([3.0, 4.0])]
            for k, a in enumerate(self.slots):
                self.arr_wr.append(weakref.ref(a))
                self.addr_of[k + 1] = id(a)
        else:
            self.slots = [None, None]

    # -- actions -------------------------------------------------------------------
    def _push(self, obj):
        self.handles.append(obj)
        self.wr.append(weakref.ref(obj))

    def _new_array(self):
        self.nfresh += 1
        return self.lab.np.array([10.0 * self.nfresh + 5.0, 10.0 * self.nfresh + 6.0])

    def act(self, a):
        """perform one action; returns the observed address class of an allocation (or 0)"""
        L = self.lab
        kind = a["a"]
        if kind == "Construct":
            fn = L.recipes(self.lens)[a["r"]]
            if a["i"]:
                with L.interp[a["i"]]:
                    obj = fn(self.slots)
            else:
                obj = fn(self.slots)
            self._push(obj)
            if self.lens == "terms" and a["i"] == "eager" and a["r"] in ("BIN", "RED"):
                return self._class_of(id(obj.data))
        elif kind == "Drop":
            obj = self.handles[a["h"] - 1]
            self.handles[a["h"] - 1] = None
            if self.mode == "limbo":
                self.limbo.append(obj)
            del obj
        elif kind == "Collect":
            del self.limbo[:]
            full_collect()
        elif kind == "Pickle":
            obj = self.handles[a["h"] - 1]
            if a["i"]:
                with L.interp[a["i"]]:
                    new = pickle.loads(pickle.dumps(obj))
            else:
                new = pickle.loads(pickle.dumps(obj))
            self._push(new)
        elif kind == "Reflect":
            obj = self.handles[a["h"] - 1]
            with L.reflect:
                new = L.reinterpret(obj)
            self._push(new)
        elif kind == "Free":
            arr = self.slots[a["s"] - 1]
            self.slots[a["s"] - 1] = None
            if self.mode == "limbo":
                self.limbo.append(arr)
            del arr
        elif kind == "Alloc":
            arr = self._alloc(a["ad"])
            self.slots[a["s"] - 1] = arr
            self.arr_wr.append(weakref.ref(arr))
            return self._class_of(id(arr))
        else:
            raise ValueError(kind)
        return 0

    def _class_of(self, ident):
        for k, v in self.addr_of.items():
            if v == ident:
                return k
        k = max(self.addr_of) + 1 if self.addr_of else 1
        self.addr_of[k] = ident
        return k

    def _alloc(self, label):
        """an array at the address the spec chose: a label used before means THAT id again"""
        if self.mode == "native" or not label:
            return self._new_array()
        rejects = []
        try:
            if label in self.addr_of:
                want = self.addr_of[label]
                for _ in range(self.RECYCLE_TRIES):
                    arr = self._new_array()
                    if id(arr) == want:
                        self.recycled += 1
                        return arr
                    rejects.append(arr)
                raise Skip("address not recycled")
            used = set(self.addr_of.values())
            for _ in range(self.RECYCLE_TRIES):
                arr = self._new_array()
                if id(arr) not in used:
                    self.addr_of[label] = id(arr)
                    return arr
                rejects.append(arr)
            raise Skip("no fresh address")
        finally:
            del rejects

    # -- observation ---------------------------------------------------------------
    def observe(self, collect=True):
        if collect and self.mode == "limbo":
            full_collect()         # flushes cyclic temporaries only: garbage the spec knows sits in limbo
        objs = [w() for w in self.wr]
        ids = {}
        ident = []
        for o in objs:
            if o is None:
                ident.append(0)
            else:
                ident.append(ids.setdefault(id(o), len(ids) + 1))
        obs = {
            "ident": ident,
            "held": [0 if h is None else 1 for h in self.handles],
            "alive": [0 if o is None else 1 for o in objs],
            "arrs": [0 if w() is None else 1 for w in self.arr_wr],
            "sizes": [len(t) - b for t, b in zip(self.lab.tables(self.lens), self.base)],
        }
        del objs
        return obs

    def close(self):
        """drop everything, collect: the tables must be as before the behaviour"""
        del self.handles[:]
        del self.limbo[:]
        self.slots = [None, None]
        full_collect()
        alive = [k + 1 for k, w in enumerate(self.wr) if w() is not None]
        arrs = [k + 1 for k, w in enumerate(self.arr_wr) if w() is not None]
        sizes = [len(t) - b for t, b in zip(self.lab.tables(self.lens), self.base)]
        return alive, arrs, sizes


def compare(obs, exp):
    """first clause on which the observation differs from what TLC expects"""
    n = len(exp["held"])
    if len(obs["held"]) != n:
        return "handle_count", {"want": n, "got": len(obs["held"])}
    if obs["held"] != exp["held"]:
        return "held", {"want": exp["held"], "got": obs["held"]}
    live = [h for h in range(n) if exp["alive"][h] and obs["alive"][h]]
    for x in range(len(live)):
        for y in range(x + 1, len(live)):
            i, j = live[x], live[y]
            if (exp["ident"][i] == exp["ident"][j]) != (obs["ident"][i] == obs["ident"][j]):
                return "is_matrix", {"handles": [i + 1, j + 1], "want_identical": exp["ident"][i] == exp["ident"][j],
                                     "got_identical": obs["ident"][i] == obs["ident"][j]}
    if obs["alive"] != exp["alive"]:
        return "alive", {"want": exp["alive"], "got": obs["alive"]}
    if obs["arrs"] != exp["arrs"]:
        return "array_alive", {"want": exp["arrs"], "got": obs["arrs"]}
    if obs["sizes"] != exp["sizes"]:
        return "table_size", {"want": exp["sizes"], "got": obs["sizes"]}
    return None, None


def act_str(a):
    k = a["a"]
    if k == "Construct":
        return "Construct(%s,%s)" % (a["r"], a["i"]) if a["i"] else "Construct(%s)" % a["r"]
    if k in ("Drop", "Reflect"):
        return "%s(%d)" % (k, a["h"])
    if k == "Pickle":
        return "Pickle(%d,%s)" % (a["h"], a["i"]) if a["i"] else "Pickle(%d)" % a["h"]
    if k == "Free":
        return "Free(%d)" % a["s"]
    if k == "Alloc":
        return "Alloc(%d,@%d)" % (a["s"], a["ad"])
    return k


def hist_str(acts):
    return ";".join(act_str(a) for a in acts)


def _kind(o):
    if o is None:
        return "dead"
    name = type(o).__name__.split("[")[0]
    if name == "Contraction":
        name += "/%d" % len(o.terms)
    return name


def what_of(run, a):
    """class of the object the action works on / returned (for signatures)"""
    try:
        if a["a"] in ("Pickle", "Reflect", "Drop"):
            return _kind(run.wr[a["h"] - 1]())
        if a["a"] == "Construct" and run.handles and run.handles[-1] is not None:
            return _kind(run.handles[-1])
    except Exception:
        pass
    return ""


def replay_record(lens, rec, log=None):
    """execute one TLC behaviour {acts, obs}; returns (status, violation or None, steps)"""
    L = lab(lens)
    run = Run(L, lens, "limbo")
    acts, exps = rec["acts"], rec["obs"]
    steps = 0
    viol = None
    status = "ok"
    if log is not None:
        log.append({"a": "Reset", "mode": "limbo", "r": "", "i": "", "h": 0, "s": 0, "ad": 0, "on": ""})
    try:
        for k, a in enumerate(acts):
            what = what_of(run, a) if a["a"] != "Construct" else ""
            try:
                cls = run.act(a)
            except Skip as e:
                status = "skip:" + str(e)
                break
            except Exception as e:
                viol = {"clause": "raises", "sig": "%s|%s" % (act_str(a), hist_str(acts[:k + 1])),
                        "detail": {"error": repr(e)[:300], "trace": traceback.format_exc()[-600:]},
                        "history": hist_str(acts[:k + 1]), "step": k + 1, "lens": lens, "action": act_str(a),
                        "on": what}
                status = "violation"
                break
            steps += 1
            obs = run.observe()
            if log is not None:
                e = dict(a)
                e["ad"] = cls if a["a"] == "Alloc" else 0
                e["on"] = what or what_of(run, a)
                e.update(obs)
                log.append(e)
            clause, det = compare(obs, exps[k])
            if clause:
                if a["a"] == "Construct":
                    what = what_of(run, a)
                viol = {"clause": clause, "sig": "%s|%s" % (act_str(a), hist_str(acts[:k + 1])), "detail": det,
                        "history": hist_str(acts[:k + 1]), "step": k + 1, "lens": lens, "action": act_str(a),
                        "on": what, "want": exps[k], "got": obs, "acts": acts[:k + 1], "exps": exps[:k + 1]}
                status = "violation"
                break
    finally:
        alive, arrs, sizes = run.close()
    replay_record.recycled = run.recycled
    if status == "ok" and (alive or arrs or any(sizes)):
        viol = {"clause": "weak_final", "sig": "final|%s" % hist_str(acts),
                "detail": {"handles_still_alive": alive, "arrays_still_alive": arrs, "table_growth": sizes},
                "history": hist_str(acts), "step": len(acts) + 1, "lens": lens, "action": "DropAll;Collect", "on": ""}
        status = "violation"
    return status, viol, steps


def native_run(lens, rng, length, log):
    """a random run with real deletion, recorded for Trace_ConsCache (no expectations here)"""
    L = lab(lens)
    run = Run(L, lens, "native")
    names = sorted(n for n in L.recipes(lens) if not n.startswith("_"))
    plain = ("G1", "DX")          # opterms recipes that are not built under an interpretation
    log.append({"a": "Reset", "mode": "native", "r": "", "i": "", "h": 0, "s": 0, "ad": 0, "on": ""})
    hidden = 0
    try:
        for _ in range(length):
            held = [h + 1 for h, o in enumerate(run.handles) if o is not None]
            choices = ["Construct"] * 4 + ["Collect"]
            terms_held = [h for h in held if isinstance(run.handles[h - 1], L.Funsor)]
            if held:
                choices += ["Drop"] * 3 + ["Pickle"]
                if terms_held:
                    choices += ["Reflect"]
            if lens == "terms":
                choices += ["Free"] if run.slots[0] is not None else ["Alloc"] * 3
            k = rng.choice(choices)
            a = {"a": k, "r": "", "i": "", "h": 0, "s": 0, "ad": 0}
            if k == "Construct":
                ok = [n for n in names if not (lens == "terms" and run.slots[0] is None and n in ("TA", "BIN", "RED"))]
                a["r"] = rng.choice(ok)
                if lens == "terms" or (lens == "opterms" and a["r"] not in plain):
                    a["i"] = rng.choice(["eager", "lazy", "reflect", "normalize"])
            elif k == "Drop":
                a["h"] = rng.choice(held)
            elif k == "Reflect":
                a["h"] = rng.choice(terms_held)
            elif k == "Pickle":
                a["h"] = rng.choice(held)
                o = run.handles[a["h"] - 1]
                if isinstance(o, L.Funsor):
                    leaf = type(o).__name__.split("[")[0] in ("Variable", "Number", "Tensor")
                    a["i"] = rng.choice(["eager", "lazy", "reflect", "normalize"] if leaf else ["lazy", "reflect"])
                elif not _picklable(o):
                    del o
                    continue
                del o
            elif k in ("Free", "Alloc"):
                a["s"] = 1
            if len(run.handles) >= 20 and k in ("Construct", "Pickle", "Reflect"):
                continue
            on = what_of(run, a) if k != "Construct" else ""
            cls = run.act(a)
            e = dict(a)
            e["ad"] = cls
            if cls and hidden < 2 and rng.random() < 0.3:
                e["ad"] = 0        # the address this allocation landed on is left for TLC to infer
                hidden += 1
            e["on"] = on or what_of(run, a)
            e.update(run.observe(collect=False))
            log.append(e)
    finally:
        run.close()


def native_replay(lens, acts, log):
    """re-execute a recorded history with real deletion and record it again"""
    run = Run(lab(lens), lens, "native")
    log.append({"a": "Reset", "mode": "native", "r": "", "i": "", "h": 0, "s": 0, "ad": 0, "on": ""})
    try:
        for a in acts:
            a = {k: a[k] for k in ("a", "r", "i", "h", "s", "ad")}
            on = what_of(run, a) if a["a"] != "Construct" else ""
            cls = run.act(a)
            e = dict(a)
            e["ad"] = cls
            e["on"] = on or what_of(run, a)
            e.update(run.observe(collect=False))
            log.append(e)
    finally:
        run.close()


def _picklable(o):
    try:
        pickle.dumps(o)
        return True
    except Exception:
        return False


def nontrivial(rec):
    """TLC expects two handles to be one object, or something to have been reclaimed, or
    the history pickles / reinterprets / re-allocates"""
    if any(a["a"] in ("Pickle", "Reflect", "Alloc") for a in rec["acts"]):
        return True
    for o in rec["obs"]:
        live = [x for x, al in zip(o["ident"], o["alive"]) if al]
        if len(set(live)) < len(live) or 0 in o["alive"] or 0 in o["arrs"]:
            return True
    return False


# -- worker entry points (multiprocessing) ---------------------------------------------

def work_replay(job):
    """job = (lens, [json lines or dicts], want_log)"""
    lens, recs, want_log = job
    out = {"records": 0, "steps": 0, "skips": {}, "violations": [], "log": [], "funsor": None, "samples": []}
    try:
        L = lab(lens)
        out["funsor"] = L.funsor_file
        for rec in recs:
            log = [] if want_log else None
            status, viol, steps = replay_record(lens, rec, log)
            out["records"] += 1
            out["steps"] += steps
            out["recycled"] = out.get("recycled", 0) + replay_record.recycled
            out["nontrivial"] = out.get("nontrivial", 0) + (1 if nontrivial(rec) else 0)
            if status.startswith("skip"):
                out["skips"][status] = out["skips"].get(status, 0) + 1
            elif viol is not None:
                if len(out["violations"]) < 200:
                    out["violations"].append(viol)
                out["nviol"] = out.get("nviol", 0) + 1
            if want_log and log and not status.startswith("skip"):
                out["log"].extend(log)
            if len(out["samples"]) < 2 and len(rec["acts"]) >= 3:
                out["samples"].append(hist_str(rec["acts"]))
    except Exception:
        out["error"] = traceback.format_exc()[-1500:]
    return out


def work_native(job):
    lens, seed, runs, length = job
    out = {"log": [], "runs": 0}
    try:
        rng = random.Random(seed)
        for _ in range(runs):
            native_run(lens, rng, length, out["log"])
            out["runs"] += 1
    except Exception:
        out["error"] = traceback.format_exc()[-1500:]
    return out
