------------------------------ MODULE PspModel ------------------------------
(***************************************************************************)
(* Implementation-shaped model of partial_sum_product                      *)
(* (funsor/sum_product.py:205-341): the ordinal bookkeeping and the        *)
(* leaf-first elimination loop, one action per iteration of the `while`    *)
(* loop.  The factors the model manipulates are L1 TERMS (products,        *)
(* sum-reductions over a group's variables, product-reductions over        *)
(* plates), so "the algorithm is right" is the statement                   *)
(*        Den(product of the results) = Den(Unrolled(problem))             *)
(* which TLC checks for every graph, every eliminate set and EVERY choice  *)
(* of the leaf among the maximal ordinals (the code breaks ties by dict    *)
(* order; the model leaves the choice nondeterministic).  `Intractable`    *)
(* is reached exactly as in the code (the remaining variables' ordinals    *)
(* union to the leaf itself) and then no value is produced.                *)
(*                                                                         *)
(* The same machine validates recorded runs: the harness wraps the module  *)
(* global `_partition` (called once per iteration with the leaf's factors  *)
(* and variables) and logs the input names of the factors and the          *)
(* variables of each call; Trace mode requires every logged call to be an  *)
(* enabled Step of the model from the tracked state.                       *)
(***************************************************************************)
EXTENDS SumProduct

VARIABLES o2f,      \* ordinal (set of eliminated plates) -> sequence of factors [ins, t]
          v2o,      \* eliminated variable -> ordinal
          results,  \* sequence of finished factors
          stage,    \* "run" | "done" | "intractable"
          calls     \* history: the (factor inputs, variables) of each _partition call

mvars == <<g, o2f, v2o, results, stage, calls>>

F(ins, t) == [ins |-> ins, t |-> t]
FIns(p, k) == p.fs[k].vs \cup p.fs[k].ps

Ordinals(p) == SUBSET ElimPlates(p)

InitO2F(p) ==
  [o \in Ordinals(p) |->
     LET ks == SelectSeq([k \in 1..Len(p.fs) |-> k], LAMBDA k : p.fs[k].ps \cap ElimPlates(p) = o)
     IN [j \in 1..Len(ks) |-> F(FIns(p, ks[j]), FactorTerm(p.fs[ks[j]], ks[j]))]]

MInit ==
  /\ g \in Problems
  /\ o2f = InitO2F(g)
  /\ v2o = [v \in SumVars(g) \cap Mentioned(g) |-> Ord(g, v)]
  /\ results = <<>> /\ stage = "run" /\ calls = <<>>

NonEmpty == {o \in DOMAIN o2f : o2f[o] # <<>>}
MaxLeaves == {o \in NonEmpty : \A o2 \in NonEmpty : Cardinality(o2) <= Cardinality(o)}

\* connected components of the bipartite graph between the leaf's factors and its variables
Linked(fs, vs, i, j) == \E v \in vs : v \in fs[i].ins /\ v \in fs[j].ins
RECURSIVE Reach(_, _, _)
Reach(fs, vs, S) ==
  LET S2 == S \cup {j \in 1..Len(fs) : \E i \in S : Linked(fs, vs, i, j)} IN
  IF S2 = S THEN S ELSE Reach(fs, vs, S2)
Components(fs, vs) == {Reach(fs, vs, {i}) : i \in 1..Len(fs)}

SeqOfSet(S) == LET RECURSIVE go(_)
                   go(T) == IF T = {} THEN <<>> ELSE LET x == CHOOSE x \in T : \A y \in T : x <= y IN <<x>> \o go(T \ {x})
               IN go(S)

NamePairs(ns, sz) == LET s == Pick(AllNames, ns) IN [k \in 1..Len(s) |-> <<s[k], BintD(sz)>>]
RedT(op, ns, sz, t) == IF ns = {} THEN t ELSE [c |-> "Red", op |-> op, arg |-> t, vars |-> NamePairs(ns, sz)]
RedVarsT(op, ns, t) == RedT(op, ns, VarSize, t)
RedPlatesT(op, ns, t) == RedT(op, ns, PlateSize, t)

\* the outcome of one group: [kind, f (factor), to (ordinal it moves to)]
GroupOutcome(leaf, fs, comp) ==
  LET idx == SeqOfSet(comp)
      members == [k \in 1..Len(idx) |-> fs[idx[k]]]
      ins == UNION {members[k].ins : k \in 1..Len(members)}
      gvars == {v \in DOMAIN v2o : v2o[v] = leaf /\ v \in ins}
      prod == ProdTerm([k \in 1..Len(members) |-> members[k].t])
      f == F(ins \ gvars, RedVarsT(Plus, gvars, prod))
      remaining == {v \in DOMAIN v2o : v \in f.ins}
      newPlates == UNION {v2o[v] : v \in remaining}
  IN IF remaining = {}
     THEN [kind |-> "result", f |-> F(f.ins \ leaf, RedPlatesT(Times, leaf, f.t)), to |-> {}]
     ELSE IF newPlates = leaf THEN [kind |-> "intractable", f |-> f, to |-> {}]
     ELSE [kind |-> "push", f |-> F(f.ins \ (leaf \ newPlates), RedPlatesT(Times, leaf \ newPlates, f.t)),
           to |-> newPlates]

Step(leaf) ==
  /\ stage = "run" /\ leaf \in MaxLeaves
  /\ LET fs == o2f[leaf]
         lvars == {v \in DOMAIN v2o : v2o[v] = leaf}
         cs == Components(fs, lvars)
         mins == SeqOfSet({CHOOSE m \in c : \A x \in c : m <= x : c \in cs})   \* groups by smallest member
         comps == [k \in 1..Len(mins) |-> CHOOSE c \in cs : mins[k] \in c]
         outs == [k \in 1..Len(comps) |-> GroupOutcome(leaf, fs, comps[k])]
     IN /\ calls' = Append(calls, [fins |-> [k \in 1..Len(fs) |-> fs[k].ins], vars |-> lvars])
        /\ IF \E k \in 1..Len(outs) : outs[k].kind = "intractable"
           THEN stage' = "intractable" /\ UNCHANGED <<o2f, results, v2o>>
           ELSE /\ results' = results \o SelectSeq([k \in 1..Len(outs) |-> outs[k].f],
                                                    LAMBDA x : \E k \in 1..Len(outs) : outs[k].kind = "result" /\ outs[k].f = x)
                /\ o2f' = [o \in DOMAIN o2f |->
                             (IF o = leaf THEN <<>> ELSE o2f[o])
                             \o SelectSeq([k \in 1..Len(outs) |-> outs[k].f],
                                          LAMBDA x : \E k \in 1..Len(outs) : outs[k].kind = "push" /\ outs[k].to = o /\ outs[k].f = x)]
                /\ v2o' = [v \in {u \in DOMAIN v2o : v2o[u] # leaf} |-> v2o[v]]
                /\ stage' = IF \A o \in DOMAIN o2f' : o2f'[o] = <<>> THEN "done" ELSE "run"
  /\ UNCHANGED g

MNext == \E leaf \in Ordinals(g) : Step(leaf)
MSpec == MInit /\ [][MNext]_mvars

FinalTerm ==
  IF results = <<>> THEN [c |-> "Num", v |-> TextbookUnit(Times), dt |-> 0]
  ELSE ProdTerm([k \in 1..Len(results) |-> results[k].t])

\* the algorithm model refines the brute-force unrolling, whatever ties were broken how
Inv_ModelCorrect ==
  stage = "done" =>
    LET a == Ann(FinalTerm)  u == Ann(Unrolled(g)) IN
    /\ Names(a.ti) = Names(u.ti)
    /\ \A k \in 1..Len(EnvSeq(u.ti)) : LET e == EnvSeq(u.ti)[k] IN
         (~HasU(Eval(u, e)) /\ ~HasU(Eval(a, e))) => Eval(a, e) = Eval(u, e)

\* elimination is intractable only where ordinals are incomparable
Inv_IntractableOnlyIfIncomparable == stage = "intractable" => ~Comparable(g)

EmitCalls ==
  stage \in {"done", "intractable"} =>
    PrintT(ToJson([tag |-> Tag, factors |-> [k \in 1..Len(g.fs) |-> FactorTerm(g.fs[k], k)], elim |-> g.elim,
                   plates |-> Range(PlateNames), plus |-> Plus, times |-> Times, outcome |-> stage,
                   ncalls |-> Len(calls), calls |-> calls]))
=============================================================================
