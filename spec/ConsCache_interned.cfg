\* interned domains, parametrised ops, parametrised term types (no arrays, no interpretations)
SPECIFICATION Spec
CONSTANTS
  LensName = "interned"
  KeepAlive = TRUE
  MaxDepth = 3
  EmitDepth = 3
  MaxAlloc = 0
  CollectAlways = FALSE
  InterpMode = "all"
  Focus = {}
  Kinds = {}
  WithEval = FALSE
  NAddrs = 3
  Canon = FALSE
INVARIANT Unique
INVARIANT WeakLive
INVARIANT NoDangling
INVARIANT WeakEmpty
INVARIANT NoStale
INVARIANT Emit
CHECK_DEADLOCK FALSE
