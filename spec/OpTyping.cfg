SPECIFICATION Spec
CONSTANTS
  RealPts <- RP
  MaxRank = 3
  MaxSize = 2
  Tag = "optyping"
INVARIANT Inv_Sound
INVARIANT Emit
CHECK_DEADLOCK FALSE
