------------------------------ MODULE SampleGen ------------------------------
(***************************************************************************)
(* Problems for sampling (C14): a log-density tensor over 1-3 bounded      *)
(* integer inputs (entries log of small integers, some minus infinity),    *)
(* a non-empty subset of inputs to sample, and 0-2 sample (particle)       *)
(* inputs.  Sampling is specified RELATIONALLY (Judge!JudgeSample); this   *)
(* module only enumerates the problems.  Delta problems: a point mass at a *)
(* number / a batched tensor / a lazy expression, with the identities      *)
(* (Delta + f).reduce(logaddexp, v) = f(v = point) + log_density and       *)
(* Integrate(Delta, f, v) = exp(log_density) f(v = point) given as L1      *)
(* terms whose projection is emitted.                                      *)
(***************************************************************************)
EXTENDS Sem, Json
CONSTANTS Tag
VARIABLE g
RP == <<Q(-1, 1), Zero, Q(1, 2), Q(2, 1)>>
Range(s) == {s[k] : k \in 1..Len(s)}
InputPool == << <<"i", 2>>, <<"j", 3>>, <<"k", 2>> >>
BitOf(n) == IF n = "i" THEN 1 ELSE IF n = "j" THEN 2 ELSE 4
HasBit(mask, n) == ((mask \div BitOf(n)) % 2) = 1
InsOf(mask) == SelectSeq(InputPool, LAMBDA q : HasBit(mask, q[1]))
\* patterns 4..7: the support is a single cell at flat offset 6, 7, 10, 5 (when it exists), so
\* that any mis-decoding of the drawn flat index into the sampled variables leaves the support
LeafVal(pat, k) ==
  IF pat = 1 /\ k % 3 = 0 THEN NegInf
  ELSE IF pat = 2 /\ k % 2 = 1 THEN NegInf
  ELSE IF pat = 3 /\ k > 1 THEN NegInf
  ELSE IF pat = 4 /\ k # 7 THEN NegInf
  ELSE IF pat = 5 /\ k # 8 THEN NegInf
  ELSE IF pat = 6 /\ k # 11 THEN NegInf
  ELSE IF pat = 7 /\ k # 6 THEN NegInf
  ELSE MkL(1 + ((k * 3) % 5), 1)
FTerm(mask, pat) ==
  LET ins == InsOf(mask)  n == SeqProd([k \in 1..Len(ins) |-> ins[k][2]]) IN
  [c |-> "Ten", ins |-> ins, dt |-> 0, sh |-> <<>>, data |-> [k \in 1..n |-> LeafVal(pat, k)]]
SampleIns(n) == CASE n = 0 -> <<>> [] n = 1 -> << <<"p", BintD(2)>> >> [] n = 2 -> << <<"p", BintD(2)>>, <<"q", BintD(3)>> >>
Problems ==
  {p \in [mask : 1..7, pat : 0..7, vars : SUBSET {"i", "j", "k"}, ns : 0..2] :
     /\ p.vars # {} /\ p.vars \subseteq {InsOf(p.mask)[k][1] : k \in 1..Len(InsOf(p.mask))}
     \* single-cell patterns only where the cell exists (otherwise the tensor is all -inf)
     /\ p.pat >= 4 => SeqProd([k \in 1..Len(InsOf(p.mask)) |-> InsOf(p.mask)[k][2]]) >= 12 /\ p.ns <= 1}
Init == g \in Problems
Next == UNCHANGED g
Spec == Init /\ [][Next]_g
Emit ==
  LET f == FTerm(g.mask, g.pat)
      a == Ann(f)
  IN PrintT(ToJson([tag |-> Tag, f |-> f,
                    vars |-> SelectSeq(a.ti, LAMBDA q : q[1] \in g.vars),
                    sample_inputs |-> SampleIns(g.ns),
                    sig |-> [mask |-> g.mask, pat |-> g.pat, vars |-> g.vars, ns |-> g.ns]]))
=============================================================================
