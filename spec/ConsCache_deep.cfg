\* invariant-only run (M): every reachable state up to MaxDepth, one representative per class of
\* histories that differ by the order of adjacent Construct / Drop actions; nothing is printed
SPECIFICATION Spec
CONSTANTS
  LensName = "terms"
  KeepAlive = TRUE
  MaxDepth = 5
  EmitDepth = 0
  MaxAlloc = 1
  CollectAlways = FALSE
  InterpMode = "cycle"
  Focus = {}
  Kinds = {}
  WithEval = FALSE
  NAddrs = 3
  Canon = TRUE
INVARIANT Unique
INVARIANT WeakLive
INVARIANT NoDangling
INVARIANT WeakEmpty
INVARIANT NoStale
INVARIANT AddrInjective
VIEW ViewNoHist
CHECK_DEADLOCK FALSE
