SPECIFICATION Spec
CONSTANTS
  RealPts <- RP
  Durations = {1,2,3,5,6,7}
  Sizes = {3}
  MaxPairs = 2
  Plus = "max"
  Times = "add"
  LeafKind = "signed"
  MaxParamT = 6
  Tag = "mk_maxadd_q"
INVARIANT Inv_FoldInputs
INVARIANT Emit
CHECK_DEADLOCK FALSE
