------------------------------- MODULE Convert -------------------------------
(***************************************************************************)
(* C19: conversions array <-> funsor by dim/name maps, re-alignment and    *)
(* materialisation never move data to the wrong name.                      *)
(*                                                                         *)
(* Part 1  DENOTATIONAL definitions (what the public API promises):        *)
(*   ToFunsorDenInputs / ToFunsorDenAt   array -> named function           *)
(*   ToDataDen                           named function -> array           *)
(*   AlignDen (= Sem's "Align" term), AlignTensorDen, MaterializeDen       *)
(* Part 2  IMPLEMENTATION-SHAPED models transcribed from funsor/tensor.py, *)
(*   terms.py, cnf.py, delta.py, gaussian.py (same loops, same index       *)
(*   arithmetic, same sort/permutation/reshape steps).                     *)
(* Part 3  a case machine: every reachable state is one conversion /       *)
(*   alignment case.  The invariants say that on every case the            *)
(*   implementation-shaped model refines the denotational definition and   *)
(*   that pack / unpack are mutually inverse up to size-1 batch            *)
(*   dimensions; Emit prints the case with its expected observable         *)
(*   projection, which harness/convdriver.py replays into the real code.   *)
(*                                                                         *)
(* Arrays are position coded: the element at flat offset k is the integer  *)
(* k+1, so any misplacement changes a value.                               *)
(***************************************************************************)
EXTENDS Sem, Json

CONSTANTS
  MaxRank,        \* pack: array ranks 0..MaxRank
  MaxSize,        \* sizes 1..MaxSize
  MaxEvent,       \* pack: event ranks 0..MaxEvent
  UnpackMaxIns,   \* unpack: funsors with 0..UnpackMaxIns inputs
  UnpackDims,     \* unpack: target dims -1..-UnpackDims
  AlignMaxIns,    \* align: tensors with 0..AlignMaxIns inputs ...
  AlignTopSize,   \* ... sizes 1..AlignTopSize when there are AlignMaxIns inputs
  Families,       \* which case families are generated
  Tag

VARIABLE cs       \* the current case [fam, sh, e, nm, aux]

-----------------------------------------------------------------------------
(* small helpers *)

CRange(s) == {s[k] : k \in 1..Len(s)}
IndexOf(s, x) == CHOOSE j \in 1..Len(s) : s[j] = x
SetMinOf(S) == CHOOSE x \in S : \A y \in S : x <= y
SetMaxOf(S) == CHOOSE x \in S : \A y \in S : x >= y
\* ascending sequence of a set of integers
SortSet(S) == [j \in 1..Cardinality(S) |-> CHOOSE v \in S : Cardinality({u \in S : u < v}) = j - 1]
\* python sorted() of a sequence of pairwise distinct integers
SortAsc(s) == SortSet(CRange(s))
InjSeqs(m, k) == {s \in [1..m -> 1..k] : \A a, b \in 1..m : a # b => s[a] # s[b]}
IntsOf(v) == [k \in 1..Len(v) |-> v[k][2]]
SizesOf(ins) == [k \in 1..Len(ins) |-> ins[k][2]]
SizeOfName(ins, n) == ins[CHOOSE k \in 1..Len(ins) : ins[k][1] = n][2]

Iota(sh) == [sh |-> sh, v |-> [k \in 1..Size(sh) |-> RInt(k)]]
IotaFrom(sh, start) == [sh |-> sh, v |-> [k \in 1..Size(sh) |-> RInt(start + k - 1)]]
TenOf(ins, a, evrank, dt) ==      \* the tensor whose .data is array a
  [c |-> "Ten", ins |-> ins, dt |-> dt, sh |-> SubSeq(a.sh, Len(a.sh) - evrank + 1, Len(a.sh)), data |-> a.v]
IotaTen(ins, sh, dt) ==
  [c |-> "Ten", ins |-> ins, dt |-> dt, sh |-> sh, data |-> Iota(SizesOf(ins) \o sh).v]
DataOf(t) == [sh |-> SizesOf(t.ins) \o t.sh, v |-> t.data]     \* .data of a Ten

ErrTen == [c |-> "Err"]
IsErr(t) == t.c = "Err"

-----------------------------------------------------------------------------
(* Part 1a: array -> funsor, denotationally.                                 *)
(* x an array, e the event rank (the last e dims are the output), d2n a      *)
(* function from negative batch dims to names.  Batch position p (1-based,   *)
(* of b = rank - e) is the negative dim p - b - 1.                           *)

EvShapeOf(x, e) == SubSeq(x.sh, Len(x.sh) - e + 1, Len(x.sh))
BatchShapeOf(x, e) == SubSeq(x.sh, 1, Len(x.sh) - e)
NegDim(p, b) == p - b - 1
NamedAt(x, e, d2n, p) == NegDim(p, Len(x.sh) - e) \in DOMAIN d2n /\ x.sh[p] # 1

\* convertible: a batch dimension without a name must have size 1
ConvValid(x, e, d2n) ==
  \A p \in 1..(Len(x.sh) - e) : NegDim(p, Len(x.sh) - e) \notin DOMAIN d2n => x.sh[p] = 1

\* the inputs of the result: the named batch dims of size # 1 (a SET: the
\* property does not speak about their order)
ToFunsorDenInputs(x, e, d2n) ==
  LET b == Len(x.sh) - e IN
  {<<d2n[NegDim(p, b)], x.sh[p]>> : p \in {q \in 1..b : NamedAt(x, e, d2n, q)}}

\* "the value at a name assignment = x at the index that puts each named
\*  dimension's coordinate at its (negative) batch position and 0 at unnamed or
\*  size-1 batch positions";  asg is a function name -> coordinate
ToFunsorDenAt(x, e, d2n, asg) ==
  LET b == Len(x.sh) - e
      es == EvShapeOf(x, e)
      ev == Size(es)
      idx == [p \in 1..b |-> IF NamedAt(x, e, d2n, p) THEN asg[d2n[NegDim(p, b)]] ELSE 0]
      base == Flat(idx, BatchShapeOf(x, e)) * ev
  IN [sh |-> es, v |-> [j \in 1..ev |-> x.v[base + j]]]

(* Part 1b: funsor -> array, denotationally.  f an ANNOTATED term whose     *)
(* inputs are bounded integers, n2d an injective function name -> negative  *)
(* dim defined (at least) on f's inputs.                                    *)
ToDataDen(f, n2d) ==
  LET ins == f.ti
      k == Len(ins)
      B == IF k = 0 THEN 0 ELSE SetMaxOf({-n2d[ins[j][1]] : j \in 1..k})
      bshape == [p \in 1..B |->
                   IF \E j \in 1..k : n2d[ins[j][1]] = NegDim(p, B)
                   THEN ins[CHOOSE j \in 1..k : n2d[ins[j][1]] = NegDim(p, B)][2].dt ELSE 1]
      es == f.to.sh
      ev == Size(es)
      sh == bshape \o es
  IN [sh |-> sh,
      v |-> [q \in 1..Size(sh) |->
               LET bi == Unflat((q - 1) \div ev, bshape)
                   env == [n \in Names(ins) |-> Scalar(RInt(bi[B + 1 + n2d[n]]))]
               IN Eval(f, env).v[((q - 1) % ev) + 1]]]

InvMap(m) == [n \in {m[d] : d \in DOMAIN m} |-> CHOOSE d \in DOMAIN m : m[d] = n]

(* Part 1c: align_tensor(new_inputs, x, expand), denotationally: an array    *)
(* with one dim per new input (size 1 where x lacks it, unless expanded)     *)
(* that reads x at the coordinates of its own inputs.                        *)
AlignTensorDen(newins, t, expand) ==      \* t annotated Ten, newins << <<name,size>> >>
  LET bshape == [p \in 1..Len(newins) |->
                   IF expand \/ HasName(t.ti, newins[p][1]) THEN newins[p][2] ELSE 1]
      es == t.to.sh
      ev == Size(es)
      sh == bshape \o es
  IN [sh |-> sh,
      v |-> [q \in 1..Size(sh) |->
               LET bi == Unflat((q - 1) \div ev, bshape)
                   env == [n \in Names(t.ti) |->
                             Scalar(RInt(bi[CHOOSE p \in 1..Len(newins) : newins[p][1] = n]))]
               IN Eval(t, env).v[((q - 1) % ev) + 1]]]

(* Part 1d: align and materialize denote the function of their argument;     *)
(* align's inputs are `names` then the rest: exactly Sem's "Align" node.     *)
AlignDen(t, names) == Ann([c |-> "Align", arg |-> t, names |-> names])
MaterializeDen(t) == Ann(t)

-----------------------------------------------------------------------------
(* Part 2a: tensor_to_funsor (funsor/tensor.py), transcribed                 *)

\* `min(-min(dim_to_name.keys()), len(x.shape))` and `x.shape[batch_ndims:]`
AutoEventRank(x, d2n) == Len(x.sh) - IMin(-SetMinOf(DOMAIN d2n), Len(x.sh))

ToFunsorImpl(x, e, d2n, dt) ==
  LET r == Len(x.sh)
      osh == EvShapeOf(x, e)
  IN IF DOMAIN d2n = {}
     THEN \* `if not dim_to_name:` Tensor(x) must have exactly the requested output
          (IF e = r THEN [c |-> "Ten", ins |-> <<>>, dt |-> dt, sh |-> osh, data |-> x.v] ELSE ErrTen)
     ELSE
     LET RECURSIVE pack(_)
         \* for dim, size in zip(range(len(x.shape) - len(output.shape)), x.shape):
         pack(dim) ==
           IF dim >= r - e THEN <<>>
           ELSE LET key == dim + e - r        \* dim + len(output.shape) - len(x.shape)
                    size == x.sh[dim + 1]
                IN (IF key \in DOMAIN d2n /\ size # 1 THEN << <<d2n[key], size>> >> ELSE <<>>)
                   \o pack(dim + 1)
         packed == pack(0)
         shape == SizesOf(packed) \o osh
     IN IF x.sh # shape /\ Size(shape) # Size(x.sh) THEN ErrTen      \* x.reshape(shape) raises
        ELSE [c |-> "Ten", ins |-> packed, dt |-> dt, sh |-> osh, data |-> x.v]

\* what the code accepts (everything else must raise, never return)
ToFunsorAccepts(x, e, d2n) == ConvValid(x, e, d2n) /\ (DOMAIN d2n = {} => e = Len(x.sh))

(* Part 2b: tensor_to_data, transcribed                                      *)
ToDataImpl(t, n2d) ==
  IF DOMAIN n2d = {} \/ t.ins = <<>> THEN [sh |-> t.sh, v |-> t.data]      \* return x.data
  ELSE
  LET k == Len(t.ins)
      data == DataOf(t)                                  \* x.data.reshape(sizes + output.shape)
      unsorted == [j \in 1..k |-> n2d[t.ins[j][1]]]      \* [name_to_dim[name] for name in x.inputs]
      dims == SortAsc(unsorted)                          \* sorted(unsorted_dims)
      perm == [j \in 1..k |-> IndexOf(unsorted, dims[j])] \o [j \in 1..Len(t.sh) |-> k + j]
      pd == Permute(data, perm)
      nb == -dims[1]                                     \* [1] * -min(dims)
      \* for dim, size in zip(dims, data.shape): batch_shape[dim] = size   (python negative index)
      bshape == [p \in 1..nb |->
                   IF \E j \in 1..k : nb + dims[j] + 1 = p
                   THEN pd.sh[CHOOSE j \in 1..k : nb + dims[j] + 1 = p] ELSE 1]
  IN Reshape(pd, bshape \o t.sh)

(* Part 2c: Tensor.align, align_tensor, align_tensors, transcribed           *)
TensorAlignImpl(t, names) ==
  IF names = <<>> \/ names = NameSeq(t.ins) THEN t
  ELSE
  LET newins == [k \in 1..Len(names) |-> <<names[k], SizeOfName(t.ins, names[k])>>]
                \o FilterPairs(t.ins, CRange(names))        \* OrderedDict(names); inputs.update(self.inputs)
      old == NameSeq(t.ins)
      new == NameSeq(newins)
      perm == [j \in 1..Len(new) |-> IndexOf(old, new[j])] \o [j \in 1..Len(t.sh) |-> Len(new) + j]
  IN [c |-> "Ten", ins |-> newins, dt |-> t.dt, sh |-> t.sh, data |-> Permute(DataOf(t), perm).v]

AlignTensorImpl(newins, t, expand) ==
  IF t.ins = newins THEN DataOf(t)
  ELSE
  LET keys == NameSeq(t.ins)
      present == FilterPairs(newins, Names(newins) \ Names(t.ins))   \* k in new_inputs if k in old_inputs
      perm == [j \in 1..Len(present) |-> IndexOf(keys, present[j][1])]
              \o [j \in 1..Len(t.sh) |-> Len(t.ins) + j]
      pd == Permute(DataOf(t), perm)
      rsh == [p \in 1..Len(newins) |->
                IF HasName(t.ins, newins[p][1]) THEN SizeOfName(t.ins, newins[p][1]) ELSE 1] \o t.sh
      rd == Reshape(pd, rsh)
  IN IF expand THEN Broadcast(rd, SizesOf(newins) \o t.sh) ELSE rd

AlignTensorsInputs(ts) == MergeLeft(<<>>, [k \in 1..Len(ts) |-> ts[k].ins])

(* Part 2d: align of lazy terms, Contraction, Delta                          *)
FunsorAlignImpl(t, names) ==     \* Funsor.align (terms.py): lazy Align unless trivial
  IF names = <<>> \/ names = NameSeq(Inputs(t)) THEN t
  ELSE [c |-> "Align", arg |-> t, names |-> names]

RestrictSeq(names, S) == SelectSeq(names, LAMBDA n : n \in S)

ConAlignImpl(t, names) ==        \* Contraction.align (cnf.py); terms are tensors
  LET nt == [k \in 1..Len(t.terms) |->
               TensorAlignImpl(t.terms[k], RestrictSeq(names, Names(t.terms[k].ins)))]
      res == [c |-> "Con", red |-> t.red, bin |-> t.bin, vars |-> t.vars, terms |-> nt]
  IN IF names # NameSeq(Inputs(res)) THEN [c |-> "Align", arg |-> res, names |-> names] ELSE res

DeltaAlignImpl(t, names) ==      \* Delta.align (delta.py)
  LET fresh == [k \in 1..Len(t.terms) |-> t.terms[k][1]] IN
  IF \E k \in 1..Len(names) : names[k] \notin CRange(fresh) THEN ErrTen   \* assert name in self.fresh
  ELSE IF names = <<>> \/ names = fresh THEN t
  ELSE IF \E k \in 1..Len(fresh) : fresh[k] \notin CRange(names) THEN ErrTen   \* names.index raises
  ELSE [c |-> "Delta",
        terms |-> [j \in 1..Len(names) |-> t.terms[IndexOf(fresh, names[j])]]]   \* sorted by names.index

(* Part 2e: Tensor.materialize: substitute an arange for every bounded       *)
(* integer input                                                             *)
ArangeTen(name, n) ==
  [c |-> "Ten", ins |-> << <<name, n>> >>, dt |-> n, sh |-> <<>>, data |-> [k \in 1..n |-> RInt(k - 1)]]

MaterializeImpl(t) ==
  IF t.c \in {"Num", "Ten"} THEN t
  ELSE LET ti == Inputs(t)
           ints == SelectSeq(ti, LAMBDA p : IsBintD(p[2]))
       IN [c |-> "Sub", arg |-> t,
           subs |-> [k \in 1..Len(ints) |-> <<ints[k][1], ArangeTen(ints[k][1], ints[k][2].dt)>>]]

-----------------------------------------------------------------------------
(* Part 2f: Gaussian (not a Sem term): exact-rational denotation and the     *)
(* model of Gaussian.align / align_gaussian.                                 *)
(* g = [ins |-> << <<name, dom>> >> (ordered; bints and reals interleaved),  *)
(*      wv |-> array batch + <<rank>>, ps |-> array batch + <<dim, rank>>]   *)

GIntIns(g) == SelectSeq(g.ins, LAMBDA p : IsBintD(p[2]))
GRealIns(g) == SelectSeq(g.ins, LAMBDA p : ~IsBintD(p[2]))
RECURSIVE GOffsetOf(_, _)
\* offset of real input n inside the concatenated real vector (_compute_offsets)
GOffsetOf(rins, n) ==
  IF Head(rins)[1] = n THEN 0 ELSE Size(Head(rins)[2].sh) + GOffsetOf(Tail(rins), n)
GDim(g) == SeqSum([k \in 1..Len(GRealIns(g)) |-> Size(GRealIns(g)[k][2].sh)])
GRank(g) == g.wv.sh[Len(g.wv.sh)]

RECURSIVE SumScalars(_)
SumScalars(s) == IF s = <<>> THEN Zero ELSE Add(Head(s), SumScalars(Tail(s)))

\* f(x) = -0.5 * || x @ prec_sqrt - white_vec ||^2  at the environment env
GaussAt(g, env) ==
  LET ii == GIntIns(g)
      ri == GRealIns(g)
      bidx == [k \in 1..Len(ii) |-> EnvInt(env, ii[k][1])]
      bflat == Flat(bidx, [k \in 1..Len(ii) |-> ii[k][2].dt])
      dim == GDim(g)
      rank == GRank(g)
      xs == [d \in 1..dim |->
               LET k == CHOOSE j \in 1..Len(ri) :
                          GOffsetOf(ri, ri[j][1]) < d /\ d <= GOffsetOf(ri, ri[j][1]) + Size(ri[j][2].sh)
               IN env[ri[k][1]].v[d - GOffsetOf(ri, ri[k][1])]]
      w(r) == g.wv.v[bflat * rank + r]
      p(d, r) == g.ps.v[bflat * dim * rank + (d - 1) * rank + r]
      resid == [r \in 1..rank |-> Sub(SumScalars([d \in 1..dim |-> Mul(xs[d], p(d, r))]), w(r))]
  IN Scalar(Mul(Q(-1, 2), SumScalars([r \in 1..rank |-> Mul(resid[r], resid[r])])))

GaussAlignInputs(g, names) ==
  [k \in 1..Len(names) |-> <<names[k], Lookup(g.ins, names[k])>>] \o FilterPairs(g.ins, CRange(names))

\* Gaussian.align + align_gaussian: batch dims via align_tensor, rows of prec_sqrt by offsets
GaussAlignImpl(g, names) ==
  IF names = <<>> \/ names = NameSeq(g.ins) THEN g
  ELSE
  LET nins == GaussAlignInputs(g, names)
      ng == [ins |-> nins, wv |-> g.wv, ps |-> g.ps]
      oldi == [k \in 1..Len(GIntIns(g)) |-> <<GIntIns(g)[k][1], GIntIns(g)[k][2].dt>>]
      newi == [k \in 1..Len(GIntIns(ng)) |-> <<GIntIns(ng)[k][1], GIntIns(ng)[k][2].dt>>]
      wv1 == AlignTensorImpl(newi, TenOf(oldi, g.wv, 1, 0), FALSE)
      ps1 == AlignTensorImpl(newi, TenOf(oldi, g.ps, 2, 0), FALSE)
      dim == GDim(g)
      rank == GRank(g)
      oldr == GRealIns(g)
      newr == GRealIns(ng)
      \* new row d (1-based) belongs to real input n at inner position i: copy old row
      srcrow(d) ==
        LET k == CHOOSE j \in 1..Len(newr) :
                   GOffsetOf(newr, newr[j][1]) < d /\ d <= GOffsetOf(newr, newr[j][1]) + Size(newr[j][2].sh)
        IN GOffsetOf(oldr, newr[k][1]) + (d - GOffsetOf(newr, newr[k][1]))
      nb == Size(ps1.sh) \div (dim * rank)
      ps2 == [sh |-> ps1.sh,
              v |-> [q \in 1..Size(ps1.sh) |->
                       LET b0 == (q - 1) \div (dim * rank)
                           d == (((q - 1) \div rank) % dim) + 1
                           r == ((q - 1) % rank) + 1
                       IN ps1.v[b0 * dim * rank + (srcrow(d) - 1) * rank + r]]]
  IN [ins |-> nins, wv |-> wv1, ps |-> ps2]

-----------------------------------------------------------------------------
(* Part 3: the case machine                                                  *)

NameTab == <<"c", "a", "d", "b", "e", "f", "g">>     \* name given to negative dim -k
InNames == <<"q", "p", "s", "r", "u">>               \* names of tensor inputs 1..5
EvShapes == << <<>>, <<2>>, <<1, 3>> >>
ExtraIn == <<"z", 2>>                                \* the extra input of align_tensor cases

Case(fam, sh, e, nm, aux) == [fam |-> fam, sh |-> sh, e |-> e, nm |-> nm, aux |-> aux]

(* ---- base terms of the term families ---- *)
I2 == <<"i", 2>>
J3 == <<"j", 3>>
K2 == <<"k", 2>>
M2 == <<"m", 2>>
Op0(n) == [n |-> n, p |-> <<>>]
V(n, d) == [c |-> "Var", name |-> n, dom |-> d]
TenC(x) == [c |-> "Ten", ins |-> <<>>, dt |-> 0, sh |-> <<>>, data |-> <<x>>]
TenD(ins, xs) == [c |-> "Ten", ins |-> ins, dt |-> 0, sh |-> <<>>, data |-> xs]
CRP == <<Zero, Q(1, 2), RInt(2)>>

LazyTerms == <<
  [c |-> "Bin", op |-> Op0("add"), l |-> IotaTen(<<I2, J3>>, <<>>, 0), r |-> V("v", BintD(3))],
  [c |-> "Bin", op |-> Op0("mul"), l |-> IotaTen(<<J3, I2, K2>>, <<>>, 0), r |-> V("v", BintD(2))],
  [c |-> "Bin", op |-> Op0("add"), l |-> V("v", BintD(3)), r |-> IotaTen(<<I2>>, <<2>>, 0)],
  [c |-> "Bin", op |-> Op0("sub"), l |-> V("x", RealD), r |-> IotaTen(<<J3, I2>>, <<>>, 0)],
  [c |-> "Un", op |-> Op0("neg"),
   arg |-> [c |-> "Bin", op |-> Op0("add"), l |-> IotaTen(<<K2, J3, I2>>, <<>>, 0), r |-> V("v", BintD(3))]],
  [c |-> "Red", op |-> "add", vars |-> << <<"k", BintD(2)>> >>,
   arg |-> [c |-> "Bin", op |-> Op0("mul"), l |-> IotaTen(<<J3, I2, K2>>, <<>>, 0), r |-> V("v", BintD(2))]] >>

ConTerms == <<
  [c |-> "Con", red |-> "add", bin |-> "mul", vars |-> << <<"k", BintD(2)>> >>,
   terms |-> <<IotaTen(<<I2, K2>>, <<>>, 0), IotaTen(<<K2, J3>>, <<>>, 0)>>],
  [c |-> "Con", red |-> "nullop", bin |-> "add", vars |-> <<>>,
   terms |-> <<IotaTen(<<I2, J3>>, <<>>, 0), IotaTen(<<J3, M2>>, <<>>, 0), IotaTen(<<M2, I2>>, <<>>, 0)>>],
  [c |-> "Con", red |-> "add", bin |-> "mul", vars |-> << <<"k", BintD(2)>> >>,
   terms |-> <<IotaTen(<<I2, J3, K2>>, <<>>, 0), IotaTen(<<K2, M2>>, <<>>, 0)>>],
  [c |-> "Con", red |-> "max", bin |-> "add", vars |-> << <<"j", BintD(3)>> >>,
   terms |-> <<IotaTen(<<J3, I2>>, <<2>>, 0), IotaTen(<<M2, J3>>, <<>>, 0)>>],
  [c |-> "Con", red |-> "nullop", bin |-> "mul", vars |-> <<>>,
   terms |-> <<IotaTen(<<I2, J3>>, <<>>, 0), IotaTen(<<M2, <<"n", 2>>>>, <<>>, 0)>>] >>

DeltaTerms == <<
  [c |-> "Delta", terms |-> << <<"x", TenC(Q(1, 2)), TenC(RInt(2))>>, <<"y", TenC(RInt(2)), TenC(Zero)>> >>],
  [c |-> "Delta", terms |-> << <<"x", TenC(Q(1, 2)), TenC(RInt(2))>>, <<"y", TenC(RInt(2)), TenC(Zero)>>,
                              <<"w", TenC(Zero), TenC(Q(1, 2))>> >>],
  \* a batched point: inputs x, i, y
  [c |-> "Delta", terms |-> << <<"x", TenD(<<I2>>, <<Zero, RInt(2)>>), TenC(Q(1, 2))>>,
                              <<"y", TenC(RInt(2)), TenC(Zero)>> >>] >>

MatTerms == <<
  LazyTerms[1], LazyTerms[2], LazyTerms[3], LazyTerms[4],
  [c |-> "Bin", op |-> Op0("mul"), l |-> V("u", BintD(2)), r |-> V("v", BintD(3))],
  V("v", BintD(3)),
  [c |-> "Un", op |-> Op0("neg"),
   arg |-> [c |-> "Bin", op |-> Op0("add"), l |-> IotaTen(<<J3>>, <<2>>, 0), r |-> V("u", BintD(2))]],
  [c |-> "Align", arg |-> LazyTerms[1], names |-> <<"v", "j", "i">>],
  [c |-> "Bin", op |-> Op0("add"), l |-> V("u", BintD(3)), r |-> V("u", BintD(3))],
  LazyTerms[5], LazyTerms[6], ConTerms[1], ConTerms[4],
  [c |-> "Align", arg |-> LazyTerms[2], names |-> <<"v", "k", "i", "j">>] >>

GaussTerms == <<
  [ins |-> << <<"i", BintD(2)>>, <<"x", RealD>>, <<"j", BintD(3)>>, <<"y", Dom(0, <<2>>)>> >>,
   wv |-> IotaFrom(<<2, 3, 2>>, -5), ps |-> IotaFrom(<<2, 3, 3, 2>>, -17)],
  [ins |-> << <<"y", Dom(0, <<2>>)>>, <<"x", RealD>>, <<"i", BintD(2)>> >>,
   wv |-> IotaFrom(<<2, 3>>, 1), ps |-> IotaFrom(<<2, 3, 3>>, -8)] >>

(* ---- per family: decode a case ---- *)

PackB(c) == Len(c.sh) - c.e
PackX(c) == Iota(c.sh)
PackD2N(c) == [d \in c.nm |-> NameTab[-d]]

InsOf(sh) == [j \in 1..Len(sh) |-> <<InNames[j], sh[j]>>]
UnpackT(c) == IotaTen(InsOf(c.sh), EvShapes[c.e], 0)
UnpackN2D(c) == [n \in {InNames[j] : j \in 1..Len(c.sh)} |-> -c.aux[IndexOf(InNames, n)]]

AlignT(c) == IotaTen(InsOf(c.sh), EvShapes[c.e], 0)
AlignNames(c) == [j \in 1..Len(c.aux) |-> InNames[c.aux[j]]]

\* align_tensor: aux is an arrangement of 1..k (x's inputs) and k+1 (the extra input)
ATNewIns(c) ==
  [j \in 1..Len(c.aux) |-> IF c.aux[j] <= Len(c.sh) THEN <<InNames[c.aux[j]], c.sh[c.aux[j]]>> ELSE ExtraIn]
ATExpand(c) == 1 \in c.nm

\* align_tensors: aux = sel1 \o <<0>> \o sel2, selections of the inputs i2, j3, k2
ATSInputs == <<I2, J3, K2>>
ATSSplit(c) == IndexOf(c.aux, 0)
ATSTens(c) ==
  LET s == ATSSplit(c)
      a == SubSeq(c.aux, 1, s - 1)
      b == SubSeq(c.aux, s + 1, Len(c.aux))
  IN <<IotaTen([j \in 1..Len(a) |-> ATSInputs[a[j]]], <<>>, 0),
       IotaTen([j \in 1..Len(b) |-> ATSInputs[b[j]]], EvShapes[c.e], 0)>>

TermOf(c) ==
  CASE c.fam = "lazy" -> LazyTerms[c.e]
    [] c.fam = "con" -> ConTerms[c.e]
    [] c.fam = "delta" -> DeltaTerms[c.e]
    [] c.fam = "mat" -> MatTerms[c.e]
TermNames(c) == LET ns == NameSeq(Inputs(TermOf(c))) IN [j \in 1..Len(c.aux) |-> ns[c.aux[j]]]
GaussNames(c) == LET ns == NameSeq(GaussTerms[c.e].ins) IN [j \in 1..Len(c.aux) |-> ns[c.aux[j]]]

(* ---- transitions ---- *)

IsShape == cs.fam = "shape"

Grow ==
  /\ IsShape /\ Len(cs.sh) < MaxRank
  /\ \E n \in 1..MaxSize : cs' = [cs EXCEPT !.sh = Append(@, n)]

GenPack ==
  /\ IsShape /\ "pack" \in Families
  /\ \E e \in 0..IMin(MaxEvent, Len(cs.sh)) :
       LET b == Len(cs.sh) - e IN
       \E nm \in SUBSET {-p : p \in 1..b}, extra \in BOOLEAN :
         cs' = Case("pack", cs.sh, e, nm \cup (IF extra THEN {-(b + 1)} ELSE {}), <<>>)

GenUnpack ==
  /\ IsShape /\ "unpack" \in Families /\ Len(cs.sh) <= UnpackMaxIns
  /\ \E ev \in 1..Len(EvShapes), dims \in InjSeqs(Len(cs.sh), UnpackDims) :
       cs' = Case("unpack", cs.sh, ev, {}, dims)

AlignShapeOK ==
  /\ Len(cs.sh) <= AlignMaxIns
  /\ Len(cs.sh) = AlignMaxIns => \A j \in 1..Len(cs.sh) : cs.sh[j] <= AlignTopSize

GenAlign ==
  /\ IsShape /\ "align" \in Families /\ AlignShapeOK
  /\ \E ev \in 1..2, m \in 0..Len(cs.sh) :
       \E sel \in InjSeqs(m, Len(cs.sh)) : cs' = Case("align", cs.sh, ev, {}, sel)

GenATensor ==
  /\ IsShape /\ "atensor" \in Families /\ Len(cs.sh) <= 3
  /\ \E ev \in 1..2, extra \in 0..1, expand \in BOOLEAN :
       \E arr \in InjSeqs(Len(cs.sh) + extra, Len(cs.sh) + extra) :
         cs' = Case("atensor", cs.sh, ev, IF expand THEN {1} ELSE {}, arr)

GenATensors ==
  /\ IsShape /\ "atensors" \in Families /\ cs.sh = <<>>
  /\ \E ev \in 1..2, m1 \in 0..3, m2 \in 0..3 :
       \E s1 \in InjSeqs(m1, 3), s2 \in InjSeqs(m2, 3) :
         cs' = Case("atensors", <<>>, ev, {}, s1 \o <<0>> \o s2)

GenTerm(fam, terms, fullonly) ==
  /\ IsShape /\ fam \in Families /\ cs.sh = <<>>
  /\ \E k \in 1..Len(terms) :
       LET n == Len(Inputs(terms[k])) IN
       \E m \in (IF fullonly THEN {n} ELSE 0..n) :
         \E sel \in InjSeqs(m, n) : cs' = Case(fam, <<>>, k, {}, sel)

GenMat ==
  /\ IsShape /\ "mat" \in Families /\ cs.sh = <<>>
  /\ \E k \in 1..Len(MatTerms) : cs' = Case("mat", <<>>, k, {}, <<>>)

GenGauss ==
  /\ IsShape /\ "gauss" \in Families /\ cs.sh = <<>>
  /\ \E k \in 1..Len(GaussTerms) :
       LET n == Len(GaussTerms[k].ins) IN
       \E m \in 0..n : \E sel \in InjSeqs(m, n) : cs' = Case("gauss", <<>>, k, {}, sel)

Next == Grow \/ GenPack \/ GenUnpack \/ GenAlign \/ GenATensor \/ GenATensors
        \* Funsor.align documents `names` as ALL names in a new order; only Tensor.align (and
        \* Gaussian.align, written the same way) also accept a prefix selection
        \/ GenTerm("lazy", LazyTerms, TRUE) \/ GenTerm("con", ConTerms, TRUE)
        \/ GenTerm("delta", DeltaTerms, TRUE) \/ GenMat \/ GenGauss

Init == cs = Case("shape", <<>>, 0, {}, <<>>)
Spec == Init /\ [][Next]_cs

-----------------------------------------------------------------------------
(* theorems, checked on every case *)

\* an annotated tensor t denotes ToFunsorDen(x, e, d2n)
RefinesToFunsorDen(t, x, e, d2n) ==
  LET a == Ann(t)
      es == EnvSeq(a.ti)
  IN /\ {<<t.ins[k][1], t.ins[k][2]>> : k \in 1..Len(t.ins)} = ToFunsorDenInputs(x, e, d2n)
     /\ Cardinality(Names(t.ins)) = Len(t.ins)
     /\ t.sh = EvShapeOf(x, e)
     /\ \A k \in 1..Len(es) :
          Eval(a, es[k]) = ToFunsorDenAt(x, e, d2n, [n \in DOMAIN es[k] |-> EnvInt(es[k], n)])

\* the first batch position that survives a round trip
FirstKept(x, e, d2n) ==
  LET b == Len(x.sh) - e
      S == {p \in 1..b : NamedAt(x, e, d2n, p)}
  IN IF S = {} THEN b + 1 ELSE SetMinOf(S)

Inv_Pack ==
  cs.fam = "pack" =>
    LET x == PackX(cs)  e == cs.e  d2n == PackD2N(cs)
        t == ToFunsorImpl(x, e, d2n, 0)
    IN /\ IsErr(t) <=> ~ToFunsorAccepts(x, e, d2n)          \* rejects exactly the invalid cases
       /\ ~IsErr(t) =>
            /\ RefinesToFunsorDen(t, x, e, d2n)             \* pack refines its denotation
            /\ LET n2d == InvMap(d2n)
                   y == ToDataImpl(t, n2d)
               IN /\ y = ToDataDen(Ann(t), n2d)             \* unpack refines its denotation
                  /\ y.v = x.v                              \* round trip: the same contents ...
                  /\ y.sh = SubSeq(x.sh, FirstKept(x, e, d2n), Len(x.sh))   \* ... up to leading 1s
       /\ (DOMAIN d2n # {} /\ AutoEventRank(x, d2n) = e) =>
            ToFunsorImpl(x, AutoEventRank(x, d2n), d2n, 0) = t

Inv_Unpack ==
  cs.fam = "unpack" =>
    LET t == UnpackT(cs)  n2d == UnpackN2D(cs)
        a == Ann(t)
        y == ToDataImpl(t, n2d)
        e == Len(t.sh)
        d2n == InvMap(n2d)
        t2 == ToFunsorImpl(y, e, d2n, 0)
        es == EnvSeq(a.ti)
    IN /\ y = ToDataDen(a, n2d)
       /\ ToFunsorAccepts(y, e, d2n) /\ ~IsErr(t2)
       /\ RefinesToFunsorDen(t2, y, e, d2n)
       \* back again: the same function, minus the inputs of size 1
       /\ {<<t2.ins[k][1], t2.ins[k][2]>> : k \in 1..Len(t2.ins)}
            = {<<t.ins[k][1], t.ins[k][2]>> : k \in {j \in 1..Len(t.ins) : t.ins[j][2] # 1}}
       /\ \A k \in 1..Len(es) : Eval(Ann(t2), es[k]) = Eval(a, es[k])

SameAsAlignDen(impl, t, names) ==
  LET a == AlignDen(t, names)  i == Ann(impl)
  IN i.ti = a.ti /\ i.to = a.to /\ Table(i) = Table(a)

Inv_Align ==
  cs.fam = "align" => SameAsAlignDen(TensorAlignImpl(AlignT(cs), AlignNames(cs)), AlignT(cs), AlignNames(cs))

Inv_ATensor ==
  cs.fam = "atensor" =>
    LET t == AlignT(cs) IN
    AlignTensorImpl(ATNewIns(cs), t, ATExpand(cs)) = AlignTensorDen(ATNewIns(cs), Ann(t), ATExpand(cs))

Inv_ATensors ==
  cs.fam = "atensors" =>
    LET ts == ATSTens(cs)  ins == AlignTensorsInputs(ts) IN
    \A k \in 1..2 : AlignTensorImpl(ins, ts[k], FALSE) = AlignTensorDen(ins, Ann(ts[k]), FALSE)

Inv_Terms ==
  /\ cs.fam = "lazy" => SameAsAlignDen(FunsorAlignImpl(TermOf(cs), TermNames(cs)), TermOf(cs), TermNames(cs))
  /\ cs.fam = "con" => SameAsAlignDen(ConAlignImpl(TermOf(cs), TermNames(cs)), TermOf(cs), TermNames(cs))
  /\ cs.fam = "delta" =>
       LET i == DeltaAlignImpl(TermOf(cs), TermNames(cs)) IN
       ~IsErr(i) => SameAsAlignDen(i, TermOf(cs), TermNames(cs))
  /\ cs.fam = "mat" =>
       LET t == Ann(TermOf(cs))  m == Ann(MaterializeImpl(TermOf(cs))) IN
       /\ Names(m.ti) = Names(t.ti) /\ \A k \in 1..Len(m.ti) : Lookup(t.ti, m.ti[k][1]) = m.ti[k][2]
       /\ m.to = t.to
       /\ DenEqOver(t, m, t.ti)

\* sample environments of a Gaussian: every batch index x the sample points of the reals
GaussEnvs(ins) == EnvSeq(ins)

Inv_Gauss ==
  cs.fam = "gauss" =>
    LET g == GaussTerms[cs.e]  names == GaussNames(cs)
        i == GaussAlignImpl(g, names)
        es == GaussEnvs(g.ins)
    IN /\ i.ins = GaussAlignInputs(g, names)
       /\ \A k \in 1..Len(es) : GaussAt(i, es[k]) = GaussAt(g, es[k]) /\ ~HasU(GaussAt(g, es[k]))

-----------------------------------------------------------------------------
(* emission *)

PtsOf(ins) ==
  [k \in 1..Len(ins) |->
     IF ins[k][2].dt = 0 THEN [j \in 1..Len(RealPts) |-> RealSample(ins[k][2].sh, j)] ELSE <<>>]

Project(t) ==
  LET tb == Table(t) IN
  [ins |-> t.ti, out |-> t.to, pts |-> PtsOf(t.ti), tab |-> tb, dep |-> DependsOnTab(t.ti, tb)]

IntArr(a) == [sh |-> a.sh, v |-> IntsOf(a.v)]
PairsOfMap(m) == LET ks == SortSet(DOMAIN m) IN [j \in 1..Len(ks) |-> <<ks[j], m[ks[j]]>>]

\* expectation of a to_funsor call, from the DENOTATION; the order of `ins` is the model's
ToFunsorExp(t, x, e, d2n) ==
  LET es == EnvSeq(Ann(t).ti) IN
  [ins |-> t.ins, out |-> EvShapeOf(x, e),
   tab |-> [k \in 1..Len(es) |->
              IntsOf(ToFunsorDenAt(x, e, d2n, [n \in DOMAIN es[k] |-> EnvInt(es[k], n)]).v)]]

PackRec(c) ==
  LET x == PackX(c)  d2n == PackD2N(c)  ok == ToFunsorAccepts(x, c.e, d2n)
      base == [c |-> "pack", sh |-> c.sh, e |-> c.e, d2n |-> PairsOfMap(d2n), valid |-> ok,
               auto |-> DOMAIN d2n # {} /\ AutoEventRank(x, d2n) = c.e]
  IN IF ~ok THEN [t |-> base, exp |-> [none |-> TRUE]]
     ELSE LET t == ToFunsorImpl(x, c.e, d2n, 0)
              n2d == InvMap(d2n)
              names == [j \in 1..Len(PairsOfMap(d2n)) |-> PairsOfMap(d2n)[j][2]]
          IN [t |-> base,
              exp |-> [f |-> ToFunsorExp(t, x, c.e, d2n),
                       n2d |-> [j \in 1..Len(names) |-> <<names[j], n2d[names[j]]>>],
                       back |-> IntArr(ToDataDen(Ann(t), n2d))]]

UnpackRec(c) ==
  LET t == UnpackT(c)  n2d == UnpackN2D(c)
      y == ToDataDen(Ann(t), n2d)
      d2n == InvMap(n2d)
      t2 == ToFunsorImpl(y, Len(t.sh), d2n, 0)
  IN [t |-> [c |-> "unpack", ins |-> t.ins, out |-> t.sh,
             n2d |-> [j \in 1..Len(t.ins) |-> <<t.ins[j][1], n2d[t.ins[j][1]]>>]],
      exp |-> [y |-> IntArr(y), d2n |-> PairsOfMap(d2n), f |-> ToFunsorExp(t2, y, Len(t.sh), d2n)]]

AlignRec(c) ==
  LET t == AlignT(c)  names == AlignNames(c)
      a == AlignDen(t, names)
      tb == Table(a)
  IN [t |-> [c |-> "align", ins |-> t.ins, out |-> t.sh, names |-> names],
      exp |-> [ins |-> [k \in 1..Len(a.ti) |-> <<a.ti[k][1], a.ti[k][2].dt>>],
               tab |-> [k \in 1..Len(tb) |-> IntsOf(tb[k].v)],
               same |-> (names = <<>> \/ names = NameSeq(t.ins))]]

ATensorRec(c) ==
  LET t == AlignT(c) IN
  [t |-> [c |-> "atensor", ins |-> t.ins, out |-> t.sh, newins |-> ATNewIns(c), expand |-> ATExpand(c)],
   exp |-> [y |-> IntArr(AlignTensorDen(ATNewIns(c), Ann(t), ATExpand(c)))]]

ATensorsRec(c) ==
  LET ts == ATSTens(c)  ins == AlignTensorsInputs(ts) IN
  [t |-> [c |-> "atensors", ts |-> [k \in 1..2 |-> [ins |-> ts[k].ins, out |-> ts[k].sh]]],
   exp |-> [ins |-> ins, ys |-> [k \in 1..2 |-> IntArr(AlignTensorDen(ins, Ann(ts[k]), FALSE))]]]

TermRec(c) ==
  LET t == TermOf(c)  names == TermNames(c) IN
  [t |-> [c |-> c.fam, k |-> c.e, term |-> t, names |-> names,
          modelerr |-> (c.fam = "delta" /\ IsErr(DeltaAlignImpl(t, names)))],
   exp |-> Project(AlignDen(t, names))]

MatRec(c) ==
  [t |-> [c |-> "mat", k |-> c.e, term |-> TermOf(c)], exp |-> Project(MaterializeDen(TermOf(c)))]

GaussRec(c) ==
  LET g == GaussTerms[c.e]  names == GaussNames(c)
      nins == GaussAlignInputs(g, names)
      es == GaussEnvs(nins)
      i == GaussAlignImpl(g, names)
  IN [t |-> [c |-> "gauss", k |-> c.e, ins |-> g.ins, wv |-> g.wv, ps |-> g.ps, names |-> names],
      exp |-> [ins |-> nins, pts |-> PtsOf(nins),
               tab |-> [k \in 1..Len(es) |-> GaussAt(g, es[k])],
               wv |-> i.wv, ps |-> i.ps]]

RecOf(c) ==
  CASE c.fam = "pack" -> PackRec(c)
    [] c.fam = "unpack" -> UnpackRec(c)
    [] c.fam = "align" -> AlignRec(c)
    [] c.fam = "atensor" -> ATensorRec(c)
    [] c.fam = "atensors" -> ATensorsRec(c)
    [] c.fam \in {"lazy", "con", "delta"} -> TermRec(c)
    [] c.fam = "mat" -> MatRec(c)
    [] c.fam = "gauss" -> GaussRec(c)

Emit == cs.fam # "shape" => PrintT(ToJson([tag |-> Tag] @@ RecOf(cs)))

=============================================================================
