-------------------------------- MODULE Heap --------------------------------
(***************************************************************************)
(* C20: terms and the arrays behind them are never mutated.                *)
(*                                                                         *)
(* The heap maps every object the harness holds (leaf arrays, operand and  *)
(* result funsors) to the fingerprint of its observable state (inputs,     *)
(* output, data).  The only action is Step: the heap may GROW, it may      *)
(* never change an existing entry - the frame condition                    *)
(*     [][\A o \in DOMAIN heap : o \in DOMAIN heap' /\ heap'[o] = heap[o]]_heap *)
(* A recorded run is one ndjson line per step (all fingerprints after the  *)
(* step); step 0 of a program starts a fresh heap.  TLC validates every    *)
(* line and names the first object whose fingerprint changed.              *)
(***************************************************************************)
EXTENDS Integers, Sequences, FiniteSets, TLC, Json, IOUtils

VARIABLES heap, l

TLog == ndJsonDeserialize(IOEnv.TRACE_FILE)

Out(r) == PrintT(ToJson(r))

\* the abstract action: an append-only step to the new fingerprint map fps
AppendOnly(old, fps) ==
  \A o \in DOMAIN old : o \in DOMAIN fps /\ fps[o] = old[o]

Changed(old, fps) == {o \in DOMAIN old : o \notin DOMAIN fps \/ fps[o] # old[o]}

Judge(e) ==
  IF e.step = 0 \/ AppendOnly(heap, e.fps)
  THEN Out([id |-> e.id, ok |-> TRUE, objects |-> Cardinality(DOMAIN e.fps)])
  ELSE Out([id |-> e.id, ok |-> FALSE, clause |-> "mutated", objects |-> Changed(heap, e.fps)])

Init == heap = [o \in {} |-> 0] /\ l = 1
Next == /\ l <= Len(TLog)
        /\ Judge(TLog[l])
        /\ heap' = TLog[l].fps      \* continue from the logged state so the rest is still examined
        /\ l' = l + 1
Spec == Init /\ [][Next]_<<heap, l>>
=============================================================================
