------------------------------- MODULE Markov -------------------------------
(***************************************************************************)
(* L2: Markov products.  A problem is a transition tensor with a time      *)
(* input of length T (or constant in time), 1-2 pairs of previous/current  *)
(* state variables and an optional batch input.  The ORACLE is the         *)
(* explicit left fold in time order:                                       *)
(*    acc_0 = trans(time = 0)                                              *)
(*    acc_t = (+) over the interior state m of                             *)
(*              acc_{t-1}(curr := m)  (x)  trans(time = t)(prev := m)      *)
(* Each step is an ordinary L1 term (Subs, Binary, Reduce) evaluated by    *)
(* Sem!Eval and materialised as a tensor leaf for the next step, so the    *)
(* oracle is linear in T.                                                  *)
(***************************************************************************)
EXTENDS Sem, Json

CONSTANTS Durations, Sizes, MaxPairs, Plus, Times, LeafKind, Tag

VARIABLE g   \* [T, np, size, batch, timedep]

RP == <<Q(-1, 1), Zero, Q(1, 2), Q(2, 1)>>

\* the second pair's names are chosen so that the previous names and the current names sort
\* in different orders (a pairing by sort position instead of by the step map would differ)
PrevName(k) == IF k = 1 THEN "x_prev" ELSE "a_prev"
CurrName(k) == IF k = 1 THEN "x_curr" ELSE "y_curr"
MidName(k) == IF k = 1 THEN "x_mid" ELSE "y_mid"

LeafValue(k) ==
  CASE LeafKind = "lin" -> RInt((k * 5 + (k \div 3)) % 3)
    [] LeafKind = "signed" -> RInt(((k * 5 + (k \div 3)) % 4) - 1)
    [] LeafKind = "log" -> MkL(1 + ((k * 5 + (k \div 3)) % 2), 1)
    [] LeafKind = "bool" -> RInt((k + (k \div 3)) % 2)

TransIns(p) ==
  (IF p.timedep THEN << <<"time", p.T>> >> ELSE <<>>)
  \o (IF p.batch THEN << <<"b", 2>> >> ELSE <<>>)
  \o [k \in 1..(2 * p.np) |-> IF k % 2 = 1 THEN <<PrevName((k + 1) \div 2), p.size>>
                               ELSE <<CurrName(k \div 2), p.size>>]

Trans(p) ==
  LET ins == TransIns(p)
      n == SeqProd([k \in 1..Len(ins) |-> ins[k][2]])
  IN [c |-> "Ten", ins |-> ins, dt |-> IF LeafKind = "bool" THEN 2 ELSE 0, sh |-> <<>>,
      data |-> [k \in 1..n |-> LeafValue(k)]]

Var(n, sz) == [c |-> "Var", name |-> n, dom |-> BintD(sz)]
NumT(i, sz) == [c |-> "Num", v |-> RInt(i), dt |-> sz]

\* trans at time t with the previous states renamed to the interior names
InstMid(p, t) ==
  [c |-> "Sub", arg |-> Trans(p),
   subs |-> (IF p.timedep THEN << <<"time", NumT(t, p.T)>> >> ELSE <<>>)
            \o [k \in 1..p.np |-> <<PrevName(k), Var(MidName(k), p.size)>>]]

Inst0(p) ==
  IF p.timedep THEN [c |-> "Sub", arg |-> Trans(p), subs |-> << <<"time", NumT(0, p.T)>> >>]
  ELSE Trans(p)

\* a tensor leaf holding the table of an annotated term (same inputs, same order)
Materialize(a) ==
  LET tb == Table(a) IN
  [c |-> "Ten", ins |-> [k \in 1..Len(a.ti) |-> <<a.ti[k][1], a.ti[k][2].dt>>],
   dt |-> a.to.dt, sh |-> <<>>, data |-> [k \in 1..Len(tb) |-> tb[k].v[1]]]

StepTerm(p, acc, t) ==
  [c |-> "Red", op |-> Plus,
   vars |-> [k \in 1..p.np |-> <<MidName(k), BintD(p.size)>>],
   arg |-> [c |-> "Bin", op |-> [n |-> Times, p |-> <<>>],
            l |-> [c |-> "Sub", arg |-> acc,
                   subs |-> [k \in 1..p.np |-> <<CurrName(k), Var(MidName(k), p.size)>>]],
            r |-> InstMid(p, t)]]

RECURSIVE Fold(_, _)
\* the materialised product of the first t+1 factors
Fold(p, t) ==
  IF t = 0 THEN Materialize(Ann(Inst0(p)))
  ELSE Materialize(Ann(StepTerm(p, Fold(p, t - 1), t)))

Problems ==
  {p \in [T : Durations, np : 1..MaxPairs, size : Sizes, batch : BOOLEAN, timedep : BOOLEAN] :
     \* keep the tables small: two pairs only with size 2, large durations only with size 2
     /\ p.np = 2 => p.size <= 2
     /\ p.size >= 3 => p.T <= 7}

Init == g \in Problems
Next == UNCHANGED g
Spec == Init /\ [][Next]_g

Emit ==
  LET o == Ann(Fold(g, g.T - 1))
      tb == Table(o)
  IN TabDefined(tb) =>
     PrintT(ToJson([tag |-> Tag, plus |-> Plus, times |-> Times, T |-> g.T,
                    trans |-> Trans(g), timedep |-> g.timedep,
                    step |-> [k \in 1..g.np |-> <<PrevName(k), CurrName(k)>>],
                    sig |-> [T |-> g.T, np |-> g.np, size |-> g.size, batch |-> g.batch, timedep |-> g.timedep],
                    exp |-> [ins |-> o.ti, out |-> o.to, pts |-> [k \in 1..Len(o.ti) |-> <<>>], tab |-> tb,
                             core |-> FALSE, dep |-> DependsOnTab(o.ti, tb)]]))

\* model-level sanity: the fold's inputs are the batch input, the first prev and the last curr
Inv_FoldInputs ==
  LET o == Ann(Fold(g, g.T - 1)) IN
  Names(o.ti) = (IF g.batch THEN {"b"} ELSE {})
                \cup {PrevName(k) : k \in 1..g.np} \cup {CurrName(k) : k \in 1..g.np}
=============================================================================
