------------------------------- MODULE Markov -------------------------------
(***************************************************************************)
(* L2: Markov products.  A problem is a transition tensor with a time      *)
(* input of length T (or constant in time), 1-2 pairs of previous/current  *)
(* state variables and an optional batch input.  The ORACLE is the         *)
(* explicit left fold in time order:                                       *)
(*    acc_0 = trans(time = 0)                                              *)
(*    acc_t = (+) over the interior state m of                             *)
(*              acc_{t-1}(curr := m)  (x)  trans(time = t)(prev := m)      *)
(* Each step is an ordinary L1 term (Subs, Binary, Reduce) evaluated by    *)
(* Sem!Eval and materialised as a tensor leaf for the next step, so the    *)
(* oracle is linear in T.                                                  *)
(***************************************************************************)
EXTENDS Sem, Json

CONSTANTS Durations, Sizes, MaxPairs, Plus, Times, LeafKind, Tag, MaxParamT

VARIABLE g   \* [T, np, size, batch, timedep, param]

\* sample points of the free real parameter x (positive for the log-valued leaves, where the
\* parameter enters as log x)
RP == IF LeafKind = "log" THEN <<Q(1, 2), One, Q(2, 1), Q(3, 1)>>
      ELSE <<Q(-1, 1), Zero, Q(1, 2), Q(2, 1)>>

\* the second pair's names are chosen so that the previous names and the current names sort
\* in different orders (a pairing by sort position instead of by the step map would differ)
PrevName(k) == IF k = 1 THEN "x_prev" ELSE "a_prev"
CurrName(k) == IF k = 1 THEN "x_curr" ELSE "y_curr"
MidName(k) == IF k = 1 THEN "x_mid" ELSE "y_mid"

LeafValue(k) ==
  CASE LeafKind = "lin" -> RInt((k * 5 + (k \div 3)) % 3)
    [] LeafKind = "signed" -> RInt(((k * 5 + (k \div 3)) % 4) - 1)
    [] LeafKind = "log" -> MkL(1 + ((k * 5 + (k \div 3)) % 2), 1)
    [] LeafKind = "bool" -> RInt((k + (k \div 3)) % 2)

TransIns(p) ==
  (IF p.timedep THEN << <<"time", p.T>> >> ELSE <<>>)
  \o (IF p.batch THEN << <<"b", 2>> >> ELSE <<>>)
  \o [k \in 1..(2 * p.np) |-> IF k % 2 = 1 THEN <<PrevName((k + 1) \div 2), p.size>>
                               ELSE <<CurrName(k \div 2), p.size>>]

Trans(p) ==
  LET ins == TransIns(p)
      n == SeqProd([k \in 1..Len(ins) |-> ins[k][2]])
  IN [c |-> "Ten", ins |-> ins, dt |-> IF LeafKind = "bool" THEN 2 ELSE 0, sh |-> <<>>,
      data |-> [k \in 1..n |-> LeafValue(k)]]

\* a transition that depends on a free real parameter x: every step's factor is
\* trans (x) x  (trans (x) log x for log-valued leaves); x is never eliminated
ParamTerm == IF LeafKind = "log"
             THEN [c |-> "Un", op |-> [n |-> "log", p |-> <<>>], arg |-> [c |-> "Var", name |-> "x", dom |-> RealD]]
             ELSE [c |-> "Var", name |-> "x", dom |-> RealD]
ParamAt(xv) == IF LeafKind = "log"
               THEN [c |-> "Un", op |-> [n |-> "log", p |-> <<>>], arg |-> [c |-> "Num", v |-> xv, dt |-> 0]]
               ELSE [c |-> "Num", v |-> xv, dt |-> 0]
TransSym(p) == IF p.param THEN [c |-> "Bin", op |-> [n |-> Times, p |-> <<>>], l |-> Trans(p), r |-> ParamTerm]
               ELSE Trans(p)
\* the transition with x fixed at xv (xv is ignored when the problem has no parameter)
TransAt(p, xv) == IF p.param THEN [c |-> "Bin", op |-> [n |-> Times, p |-> <<>>], l |-> Trans(p), r |-> ParamAt(xv)]
                  ELSE Trans(p)

Var(n, sz) == [c |-> "Var", name |-> n, dom |-> BintD(sz)]
NumT(i, sz) == [c |-> "Num", v |-> RInt(i), dt |-> sz]

\* trans at time t with the previous states renamed to the interior names
InstMid(p, t, xv) ==
  [c |-> "Sub", arg |-> TransAt(p, xv),
   subs |-> (IF p.timedep THEN << <<"time", NumT(t, p.T)>> >> ELSE <<>>)
            \o [k \in 1..p.np |-> <<PrevName(k), Var(MidName(k), p.size)>>]]

Inst0(p, xv) ==
  IF p.timedep THEN [c |-> "Sub", arg |-> TransAt(p, xv), subs |-> << <<"time", NumT(0, p.T)>> >>]
  ELSE TransAt(p, xv)

\* a tensor leaf holding the table of an annotated term (same inputs, same order)
Materialize(a) ==
  LET tb == Table(a) IN
  [c |-> "Ten", ins |-> [k \in 1..Len(a.ti) |-> <<a.ti[k][1], a.ti[k][2].dt>>],
   dt |-> a.to.dt, sh |-> <<>>, data |-> [k \in 1..Len(tb) |-> tb[k].v[1]]]

StepTerm(p, acc, t, xv) ==
  [c |-> "Red", op |-> Plus,
   vars |-> [k \in 1..p.np |-> <<MidName(k), BintD(p.size)>>],
   arg |-> [c |-> "Bin", op |-> [n |-> Times, p |-> <<>>],
            l |-> [c |-> "Sub", arg |-> acc,
                   subs |-> [k \in 1..p.np |-> <<CurrName(k), Var(MidName(k), p.size)>>]],
            r |-> InstMid(p, t, xv)]]

RECURSIVE Fold(_, _, _)
\* the materialised product of the first t+1 factors (x fixed at xv)
Fold(p, t, xv) ==
  IF t = 0 THEN Materialize(Ann(Inst0(p, xv)))
  ELSE Materialize(Ann(StepTerm(p, Fold(p, t - 1, xv), t, xv)))

Problems ==
  {p \in [T : Durations, np : 1..MaxPairs, size : Sizes, batch : BOOLEAN, timedep : BOOLEAN, param : BOOLEAN] :
     \* keep the tables small: two pairs only with size 2, large durations only with size 2
     /\ p.np = 2 => p.size <= 2
     /\ p.size >= 3 => p.T <= 7
     \* a free real parameter: not for booleans; one pair, durations <= MaxParamT
     \* (max | min, mul) is a semiring only on non-negative values: no free real parameter there
     /\ p.param => (LeafKind # "bool" /\ p.np = 1 /\ p.T <= MaxParamT
                    /\ ~(Times = "mul" /\ Plus \in {"max", "min"}))}

Init == g \in Problems
Next == UNCHANGED g
Spec == Init /\ [][Next]_g

\* the expected table: without a parameter the fold's table; with one, the input x comes first
\* and the table is the concatenation over the sample points of x of the fold with x fixed
RECURSIVE ConcatTabs(_)
ConcatTabs(ts) == IF ts = <<>> THEN <<>> ELSE Head(ts) \o ConcatTabs(Tail(ts))
Emit ==
  LET o == Ann(Fold(g, g.T - 1, RP[1]))
      tb == IF g.param THEN ConcatTabs([j \in 1..Len(RP) |-> Table(Ann(Fold(g, g.T - 1, RP[j])))])
            ELSE Table(o)
      ins == IF g.param THEN << <<"x", RealD>> >> \o o.ti ELSE o.ti
      pts == IF g.param THEN << [j \in 1..Len(RP) |-> Scalar(RP[j])] >> \o [k \in 1..Len(o.ti) |-> <<>>]
             ELSE [k \in 1..Len(o.ti) |-> <<>>]
  IN TabDefined(tb) =>
     PrintT(ToJson([tag |-> Tag, plus |-> Plus, times |-> Times, T |-> g.T,
                    trans |-> TransSym(g), timedep |-> g.timedep, param |-> g.param,
                    step |-> [k \in 1..g.np |-> <<PrevName(k), CurrName(k)>>],
                    sig |-> [T |-> g.T, np |-> g.np, size |-> g.size, batch |-> g.batch, timedep |-> g.timedep,
                             param |-> g.param],
                    exp |-> [ins |-> ins, out |-> o.to, pts |-> pts, tab |-> tb,
                             core |-> FALSE, dep |-> DependsOnTab(ins, tb)]]))

\* model-level sanity: the fold's inputs are the batch input, the first prev and the last curr
Inv_FoldInputs ==
  LET o == Ann(Fold(g, g.T - 1, RP[1])) IN
  Names(o.ti) = (IF g.batch THEN {"b"} ELSE {})
                \cup {PrevName(k) : k \in 1..g.np} \cup {CurrName(k) : k \in 1..g.np}
=============================================================================
