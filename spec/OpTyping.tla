------------------------------ MODULE OpTyping ------------------------------
(***************************************************************************)
(* C06, second sentence: the domain computed statically for an op applied  *)
(* to operand domains equals the shape and value range the op actually     *)
(* returns on arrays of those domains.  TLC enumerates the op catalogue    *)
(* (every axis / keepdims / index / slice / offset / shape parameter) over *)
(* operand shapes of rank <= 3 and sizes <= 3 and emits, for each case,    *)
(* the static domain of the typing rules (Sem!OutDom1 / OutDom2) and the   *)
(* exact result of the op on position-coded witness arrays (Sem!ApplyUn /  *)
(* ApplyBin).  Model-level invariant: the static domain is SOUND and TIGHT *)
(* in shape w.r.t. the computed result.  The harness compares with         *)
(* funsor.domains.find_domain and with the array implementation.           *)
(***************************************************************************)
EXTENDS Sem, Json
CONSTANTS MaxRank, MaxSize, Tag
VARIABLE g
RP == <<Q(-1, 1), Zero, Q(1, 2), Q(2, 1)>>

Shapes == UNION {[1..r -> 1..MaxSize] : r \in 0..MaxRank}
Witness(sh, start) == [sh |-> sh, v |-> [k \in 1..Size(sh) |-> RInt(start + k)]]
BoolWitness(sh) == [sh |-> sh, v |-> [k \in 1..Size(sh) |-> RInt(k % 2)]]

RedNames == {"sum", "prod", "amax", "amin", "logsumexp", "all", "any"}

\* index parts for the leading axes of a shape: every prefix, each axis an int or a slice
Parts(n) == {[k |-> "int", i |-> i] : i \in 0..(n - 1)}
            \cup {[k |-> "slice", start |-> s, step |-> st, n |-> c] :
                    s \in 0..(n - 1), st \in 1..2, c \in 1..n}
ValidPart(q, n) == IF q.k = "int" THEN q.i < n ELSE q.start + q.step * (q.n - 1) < n
Indexes(sh) == UNION {{idx \in [1..m -> UNION {Parts(sh[a]) : a \in 1..m}] :
                         \A a \in 1..m : idx[a] \in Parts(sh[a]) /\ ValidPart(idx[a], sh[a])}
                      : m \in 1..Len(sh)}

UnaryCases ==
  {[kind |-> "un", op |-> [n |-> r, p |-> <<ax, kd>>], sh |-> sh, dt |-> IF r \in {"all", "any"} THEN 2 ELSE 0]
     : r \in RedNames, sh \in Shapes, ax \in {NoAxis} \cup (-MaxRank..(MaxRank - 1)), kd \in {0, 1}}
ValidUn(c) == c.op.p[1] = NoAxis \/ (c.op.p[1] >= -Len(c.sh) /\ c.op.p[1] < Len(c.sh))

SliceCases == UNION {{[kind |-> "un", op |-> [n |-> "getslice", p |-> idx], sh |-> sh, dt |-> 0]
                        : idx \in Indexes(sh)} : sh \in {s \in Shapes : Len(s) >= 1 /\ Len(s) <= 2}}

ReshapeCases == {[kind |-> "un", op |-> [n |-> "reshape", p |-> t], sh |-> sh, dt |-> 0]
                   : sh \in Shapes, t \in Shapes}
PointwiseUn == {[kind |-> "un", op |-> [n |-> o, p |-> <<>>], sh |-> sh, dt |-> 0]
                   : o \in {"neg", "abs", "exp", "log"}, sh \in {s \in Shapes : Len(s) <= 2}}

BinNames == {"add", "sub", "mul", "max", "min", "lt", "ge", "eq", "and", "or", "floordiv", "mod"}
IntDts == {0, 2, 3}
BinCases ==
  {[kind |-> "bin", op |-> [n |-> o, p |-> <<>>], sh |-> a, sh2 |-> b, dt |-> da, dt2 |-> db]
     : o \in BinNames, a \in {s \in Shapes : Len(s) <= 2}, b \in {s \in Shapes : Len(s) <= 2},
       da \in IntDts, db \in IntDts}
ValidBin(c) ==
  /\ BroadcastShape(c.sh, c.sh2) # <<-1>>
  /\ c.op.n \in {"and", "or"} => c.dt = 2 /\ c.dt2 = 2
  /\ c.op.n \in {"sub"} => c.dt = 0 /\ c.dt2 = 0
  /\ c.op.n \in {"floordiv", "mod"} => c.dt > 0 /\ c.dt2 > 0
  /\ (c.dt = 0) = (c.dt2 = 0) \/ c.op.n \in {"add", "mul", "max", "min", "lt", "ge", "eq"}
GetitemCases ==
  UNION {{[kind |-> "getitem", op |-> [n |-> "getitem", p |-> <<off>>], sh |-> sh, i |-> i, dt |-> 0]
            : off \in 0..(Len(sh) - 1), i \in 0..(MaxSize - 1)} : sh \in {s \in Shapes : Len(s) >= 1}}
MatmulCases ==
  {[kind |-> "bin", op |-> [n |-> "matmul", p |-> <<>>], sh |-> a, sh2 |-> b, dt |-> 0, dt2 |-> 0]
     : a \in {s \in Shapes : Len(s) >= 1}, b \in {s \in Shapes : Len(s) >= 1}}
\* contraction axes agree and the batch axes broadcast (the exact VALUE is defined in the algebra
\* only up to matrices; beyond that the catalogue states the static shape only)
ValidMatmul(c) ==
  LET ra == Len(c.sh)  rb == Len(c.sh2) IN
  /\ c.sh[ra] = (IF rb = 1 THEN c.sh2[1] ELSE c.sh2[rb - 1])
  /\ (ra >= 2 /\ rb >= 2) => BroadcastShape(SubSeq(c.sh, 1, ra - 2), SubSeq(c.sh2, 1, rb - 2)) # <<-1>>

Cases ==
  {c \in UnaryCases : ValidUn(c)} \cup SliceCases
  \cup {c \in ReshapeCases : Size(c.op.p) = Size(c.sh)} \cup PointwiseUn
  \cup {c \in BinCases : ValidBin(c)}
  \cup {c \in GetitemCases : c.i < c.sh[c.op.p[1] + 1]}
  \cup {c \in MatmulCases : ValidMatmul(c)}

Init == g \in Cases
Next == UNCHANGED g
Spec == Init /\ [][Next]_g

IntWitness(sh, dt) == [sh |-> sh, v |-> [k \in 1..Size(sh) |-> RInt((k * 2 + 1) % dt)]]
ArgA == IF g.dt = 0 THEN Witness(g.sh, 0) ELSE IF g.dt = 2 THEN BoolWitness(g.sh) ELSE IntWitness(g.sh, g.dt)
ArgB == IF g.dt2 = 0 THEN Witness(g.sh2, 10) ELSE IF g.dt2 = 2 THEN BoolWitness(g.sh2)
        ELSE [sh |-> g.sh2, v |-> [k \in 1..Size(g.sh2) |-> RInt(1 + (k % (g.dt2 - 1)))]]

StaticDom ==
  CASE g.kind = "un" -> OutDom1(g.op, Dom(g.dt, g.sh))
    [] g.kind = "bin" -> OutDom2(g.op, Dom(g.dt, g.sh), Dom(g.dt2, g.sh2))
    [] g.kind = "getitem" -> OutDom2(g.op, Dom(g.dt, g.sh), BintD(g.sh[g.op.p[1] + 1]))

Result ==
  CASE g.kind = "un" -> ApplyUn(g.op, ArgA)
    [] g.kind = "bin" -> ApplyBin(g.op, ArgA, ArgB)
    [] g.kind = "getitem" -> ApplyBin(g.op, ArgA, Scalar(RInt(g.i)))

\* the static rule is sound (value in the declared domain) and tight in shape
Inv_Sound == ~HasU(Result) => (Result.sh = StaticDom.sh /\ InDomain(Result, StaticDom))

Emit ==
  PrintT(ToJson([tag |-> Tag, case |-> g, a |-> ArgA,
                 b |-> IF g.kind = "bin" THEN ArgB ELSE IF g.kind = "getitem" THEN Scalar(RInt(g.i)) ELSE Scalar(Zero),
                 dom |-> StaticDom, res |-> Result, defined |-> ~HasU(Result)]))
=============================================================================
