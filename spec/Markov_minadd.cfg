SPECIFICATION Spec
CONSTANTS
  RealPts <- RP
  Durations = {1,2,3,5,8,12}
  Sizes = {2}
  MaxPairs = 2
  Plus = "min"
  Times = "add"
  LeafKind = "signed"
  MaxParamT = 6
  Tag = "mk_minadd"
INVARIANT Inv_FoldInputs
INVARIANT Emit
CHECK_DEADLOCK FALSE
