SPECIFICATION Spec
CONSTANTS
  RealPts <- RP
  Plus = "add"
  Times = "mul"
  LeafKind = "lin"
  MaxOperands = 4
  Tag = "optpath4"
INVARIANT Inv_PathCorrect
INVARIANT Emit
CHECK_DEADLOCK FALSE
