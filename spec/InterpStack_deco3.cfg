SPECIFICATION Spec
CONSTANTS
  Kinds = {"eager", "lazy", "reflect", "normalize", "sequential", "moment_matching", "U", "adjoint", "memoize"}
  Modes = {"with", "deco"}
  MaxDepth = 3
  MaxEnters = 3
  MaxRaises = 1
  MaxDeco = 3
  Siblings = FALSE
  First = {}
INVARIANT BaseNeverPopped
INVARIANT RestoreInv
INVARIANT FramesOK
INVARIANT Innermost
INVARIANT ExcOK
INVARIANT Emit
PROPERTY Restore
PROPERTY Neutral
CHECK_DEADLOCK FALSE
