------------------------------ MODULE ConsCache ------------------------------
(***************************************************************************)
(* C07 - hash-consing: structural equality is object identity, held weakly *)
(*                                                                         *)
(* A machine over a heap of python objects.  funsor terms (likewise        *)
(* interned domains, parametrised ops, parametrised term types) are built  *)
(* by lookup-or-insert in a per-class table exactly as                     *)
(* funsor.terms.reflect does it:                                           *)
(*   key  = the constructor args where an ndarray is replaced by its       *)
(*          ADDRESS (interpretations.make_hash_key: id(arg)), sub-terms    *)
(*          count by identity (Funsor.__hash__ = id);                      *)
(*   hit  -> the stored object is returned;                                *)
(*   miss -> the object is built, alpha-mangled if it binds a name (fresh  *)
(*          gensym name; the renamed sub-terms and the renamed node are    *)
(*          themselves built by lookup-or-insert), and the MANGLED object  *)
(*          is stored under the key computed BEFORE mangling.              *)
(* The tables hold their values weakly (WeakValueDictionary): Collect      *)
(* removes every object unreachable from the harness's handles / array     *)
(* slots, and with it the entries pointing to it.  A term keeps its        *)
(* sub-terms and its arrays alive; a table key keeps the sub-terms it      *)
(* mentions alive for as long as the entry exists.  Addresses of dead      *)
(* arrays may be reused by Alloc.                                          *)
(*                                                                         *)
(* The machine is written as a pure step function Apply(S, act) over the   *)
(* bundled state so that Trace_ConsCache can reuse it.  The history is     *)
(* part of the state (and, in printing runs, the expected observation      *)
(* after each of its actions: obsq); the invariant Emit prints one JSON    *)
(* record {acts, obs} per history of length EmitDepth.                     *)
(***************************************************************************)
EXTENDS Integers, Sequences, FiniteSets, TLC, Json

CONSTANTS
  LensName,       \* "terms" | "interned" | "opterms"
  KeepAlive,      \* TRUE: a term keeps its arrays alive (the real system)
  MaxDepth,       \* histories up to this length are explored
  EmitDepth,      \* histories of exactly this length are printed (0: none)
  MaxAlloc,       \* Alloc actions per history
  CollectAlways,  \* FALSE: Collect is offered only when there is garbage
  InterpMode,     \* "all" | "cycle": which interpretations Construct ranges over
  Focus,          \* set of recipe names Construct is restricted to ({}: all)
  Kinds,          \* set of action kinds offered ({}: all)
  WithEval,       \* TRUE: Construct also ranges over eager evaluation of ground terms
  NAddrs,         \* addresses 1..NAddrs (two initial ones; a dead array's address may be reused)
  Canon           \* TRUE: explore one representative of histories that differ only by
                  \* the order of adjacent Construct (resp. Drop) actions, and no Reflect
                  \* (which never changes the model state): used for the deep invariant runs

VARIABLES heap, addr, handles, held, slots, table, gensym, stale, nalloc, arrs, hist,
          obsq    \* the expected observation after each action of hist (only when EmitDepth > 0)

vars == <<heap, addr, handles, held, slots, table, gensym, stale, nalloc, arrs, hist, obsq>>

-----------------------------------------------------------------------------
(* atoms of an argument tuple: <<tag, n>>                                  *)
(*   "c" constant    "n" a name (bindable; >= 100: a gensym'd bound name)  *)
(*   "o" sub-object by identity   "a" ndarray by identity                  *)
(*   "@" (keys only) an address   "r"/"s" (recipes only) sub-recipe / slot *)
(*   "f" (recipes only) a new array produced by the evaluation            *)
Cc(n) == <<"c", n>>
Nn(n) == <<"n", n>>
Rr(n) == <<"r", n>>
Ss(n) == <<"s", n>>

NAdd == 10   \* ops.add
NNull == 0   \* ops.null / empty frozenset

(* ---- terms lens: recipes over two array slots ------------------------- *)
TermRcp == <<
  [name |-> "VX",   cls |-> "Variable",    args |-> <<Nn(1), Cc(3)>>,                 sl |-> {}, pre |-> <<>>, ex |-> <<>>],      \* Variable('x', Bint[3])
  [name |-> "VI",   cls |-> "Variable",    args |-> <<Nn(2), Cc(2)>>,                 sl |-> {}, pre |-> <<>>, ex |-> <<>>],      \* Variable('i', Bint[2])
  [name |-> "TA",   cls |-> "Tensor",      args |-> <<Ss(1), Nn(2), Cc(2)>>,          sl |-> {1}, pre |-> <<>>, ex |-> <<>>],     \* Tensor(A, {'i': Bint[2]})
  [name |-> "TB",   cls |-> "Tensor",      args |-> <<Ss(2), Nn(2), Cc(2)>>,          sl |-> {2}, pre |-> <<>>, ex |-> <<>>],     \* Tensor(B, {'i': Bint[2]})
  [name |-> "NUM",  cls |-> "Number",      args |-> <<Cc(5)>>,                        sl |-> {}, pre |-> <<>>, ex |-> <<>>],      \* Number(0.5)
  [name |-> "BXN",  cls |-> "Binary",      args |-> <<Cc(NAdd), Rr(1), Rr(5)>>,       sl |-> {}, pre |-> <<>>, ex |-> <<>>],      \* Binary(add, VX, NUM)
  [name |-> "BIN",  cls |-> "Binary",      args |-> <<Cc(NAdd), Rr(3), Rr(4)>>,       sl |-> {1, 2}, pre |-> <<>>, ex |-> <<>>],  \* Binary(add, TA, TB)
  [name |-> "RED",  cls |-> "Reduce",      args |-> <<Cc(NAdd), Rr(3), Rr(2)>>,       sl |-> {1}, pre |-> <<>>, ex |-> <<>>],     \* Reduce(add, TA, {VI})
  [name |-> "CBXN", cls |-> "Contraction", args |-> <<Cc(NNull), Cc(NAdd), Cc(NNull), Rr(1), Rr(5)>>, sl |-> {}, pre |-> <<>>, ex |-> <<>>],
  [name |-> "CBIN", cls |-> "Contraction", args |-> <<Cc(NNull), Cc(NAdd), Cc(NNull), Rr(3), Rr(4)>>, sl |-> {1, 2}, pre |-> <<>>, ex |-> <<>>],
  [name |-> "CRED", cls |-> "Contraction", args |-> <<Cc(NAdd), Cc(NNull), Rr(2), Rr(3)>>,            sl |-> {1}, pre |-> <<>>, ex |-> <<>>],
  (* eager evaluation of a ground term: the arguments are built, then a Tensor over a NEW array *)
  [name |-> "EBIN", cls |-> "Tensor", args |-> <<<<"f", 0>>, Nn(2), Cc(2)>>, sl |-> {1, 2}, pre |-> <<Rr(3), Rr(4)>>, ex |-> <<>>],
  [name |-> "ERED", cls |-> "Tensor", args |-> <<<<"f", 0>>, Cc(0), Cc(0)>>, sl |-> {1},    pre |-> <<Rr(3), Rr(2)>>, ex |-> <<>>] >>

TermClasses == <<"Variable", "Number", "Tensor", "Binary", "Reduce", "Contraction">>

(* what the constructor call of a recipe builds under an interpretation:   *)
(* lazy/reflect keep the node; normalize (and eager, where it has no       *)
(* ground rule) rewrites Binary / Reduce to a Contraction                  *)
TermForm(name, i) ==
  CASE name = "BXN" /\ i \in {"eager", "normalize"} -> "CBXN"
    [] name = "BIN" /\ i = "normalize" -> "CBIN"
    [] name = "RED" /\ i = "normalize" -> "CRED"
    [] name = "BIN" /\ i = "eager" -> "EBIN"
    [] name = "RED" /\ i = "eager" -> "ERED"
    [] OTHER -> name

(* Funsor.input_vars is a lazily computed attribute that stays on the object: the   *)
(* rules for Reduce under lazy and eager (terms._reduce_unrelated_vars) read it on   *)
(* the operand, which from then on keeps the Variables of its inputs alive.          *)
(* <<x, y>>: the object of recipe x memoises a reference to the object of recipe y   *)
MemoEdges(name, i) == IF name = "RED" /\ i \in {"lazy", "eager"} THEN {<<3, 2>>} ELSE {}

Leafs == {"VX", "TA", "TB", "NUM"}
AllInterps == <<"eager", "lazy", "reflect", "normalize">>

(* eager evaluation allocates an array at an address the harness cannot    *)
(* choose: offered only to the trace specification (WithEval)              *)
TermPairsAll ==
  {<<r, i>> : r \in Leafs \cup {"BXN"}, i \in {"eager", "lazy", "reflect", "normalize"}}
  \cup {<<r, i>> : r \in {"BIN", "RED"}, i \in {"lazy", "reflect", "normalize"} \cup (IF WithEval THEN {"eager"} ELSE {})}

(* "cycle": one representative per distinct form, the interpretation of a  *)
(* leaf is determined by the position in the history (all four occur)      *)
TermPairsAt(d) ==
  IF InterpMode = "all" THEN TermPairsAll
  ELSE {<<r, AllInterps[(d % 4) + 1]>> : r \in Leafs}
       \cup {<<r, IF d % 2 = 0 THEN "lazy" ELSE "reflect">> : r \in {"BXN", "BIN", "RED"}}
       \cup {<<"BXN", IF d % 2 = 0 THEN "normalize" ELSE "eager">>, <<"BIN", "normalize">>, <<"RED", "normalize">>}

(* ---- interned lens: domains, parametrised ops, parametrised types ----- *)
(* raw args start with a spelling tag; NormArgs is the normalisation the   *)
(* metaclasses apply before keying                                         *)
InternRcp == <<
  [name |-> "Bint7",      cls |-> "ArrayType",     args |-> <<Cc(1), Cc(7)>>,               sl |-> {}, pre |-> <<>>, ex |-> <<>>],  \* Bint[7]
  [name |-> "Arr7",       cls |-> "ArrayType",     args |-> <<Cc(0), Cc(7)>>,               sl |-> {}, pre |-> <<>>, ex |-> <<>>],  \* Array[7, ()]
  [name |-> "Reals57",    cls |-> "ArrayType",     args |-> <<Cc(2), Cc(5), Cc(7)>>,        sl |-> {}, pre |-> <<>>, ex |-> <<>>],  \* Reals[5, 7]
  [name |-> "ArrR57",     cls |-> "ArrayType",     args |-> <<Cc(0), Cc(-1), Cc(5), Cc(7)>>, sl |-> {}, pre |-> <<>>, ex |-> <<>>], \* Array['real', (5, 7)]
  [name |-> "Reals5",     cls |-> "ArrayType",     args |-> <<Cc(2), Cc(5)>>,               sl |-> {}, pre |-> <<>>, ex |-> <<>>],  \* Reals[5]
  [name |-> "Bint72",     cls |-> "ArrayType",     args |-> <<Cc(1), Cc(7), Cc(2)>>,        sl |-> {}, pre |-> <<>>, ex |-> <<>>],  \* Bint[7, 2]
  [name |-> "Prod",       cls |-> "ProductDomain", args |-> <<Cc(0), Rr(1), Rr(3)>>,        sl |-> {}, pre |-> <<>>, ex |-> <<>>],  \* Product[Bint[7], Reals[5,7]]
  [name |-> "Getitem1",   cls |-> "GetitemOp",     args |-> <<Cc(1), Cc(1)>>,               sl |-> {}, pre |-> <<>>, ex |-> <<>>],  \* GetitemOp(1)
  [name |-> "Getitem1kw", cls |-> "GetitemOp",     args |-> <<Cc(2), Cc(1)>>,               sl |-> {}, pre |-> <<>>, ex |-> <<>>],  \* GetitemOp(offset=1)
  [name |-> "Getitem2",   cls |-> "GetitemOp",     args |-> <<Cc(1), Cc(2)>>,               sl |-> {}, pre |-> <<>>, ex |-> <<>>],  \* GetitemOp(2)
  [name |-> "ReshapeT",   cls |-> "ReshapeOp",     args |-> <<Cc(0), Cc(2), Cc(3)>>,        sl |-> {}, pre |-> <<>>, ex |-> <<>>],  \* ReshapeOp((2, 3))
  [name |-> "ReshapeL",   cls |-> "ReshapeOp",     args |-> <<Cc(1), Cc(2), Cc(3)>>,        sl |-> {}, pre |-> <<>>, ex |-> <<>>],  \* ReshapeOp([2, 3])
  [name |-> "Reshape32",  cls |-> "ReshapeOp",     args |-> <<Cc(0), Cc(3), Cc(2)>>,        sl |-> {}, pre |-> <<>>, ex |-> <<>>],  \* ReshapeOp((3, 2))
  [name |-> "Sum0F",      cls |-> "SumOp",         args |-> <<Cc(2), Cc(0), Cc(0)>>,        sl |-> {}, pre |-> <<>>, ex |-> <<>>],  \* SumOp(0, False)
  [name |-> "Sum0",       cls |-> "SumOp",         args |-> <<Cc(1), Cc(0)>>,               sl |-> {}, pre |-> <<>>, ex |-> <<>>],  \* SumOp(0)
  [name |-> "Sum0kw",     cls |-> "SumOp",         args |-> <<Cc(3), Cc(0), Cc(0)>>,        sl |-> {}, pre |-> <<>>, ex |-> <<>>],  \* SumOp(axis=0, keepdims=False)
  [name |-> "Sum0T",      cls |-> "SumOp",         args |-> <<Cc(2), Cc(0), Cc(1)>>,        sl |-> {}, pre |-> <<>>, ex |-> <<>>],  \* SumOp(0, True)
  [name |-> "SliceT",     cls |-> "GetsliceOp",    args |-> <<Cc(0), Cc(0), Cc(2), Cc(1)>>, sl |-> {}, pre |-> <<>>, ex |-> <<>>],  \* GetsliceOp((slice(0,2,1),))
  [name |-> "SliceB",     cls |-> "GetsliceOp",    args |-> <<Cc(1), Cc(0), Cc(2), Cc(1)>>, sl |-> {}, pre |-> <<>>, ex |-> <<>>],  \* GetsliceOp(slice(0,2,1))
  [name |-> "SliceKw",    cls |-> "GetsliceOp",    args |-> <<Cc(2), Cc(0), Cc(2), Cc(1)>>, sl |-> {}, pre |-> <<>>, ex |-> <<>>],  \* GetsliceOp(index=slice(0,2,1))
  [name |-> "TyBinAdd",   cls |-> "BinaryT",       args |-> <<Cc(0), Cc(NAdd), Cc(1), Cc(1)>>, sl |-> {}, pre |-> <<>>, ex |-> <<>>], \* Binary[AddOp, Tensor, Tensor]
  [name |-> "TyBinAddL",  cls |-> "BinaryT",       args |-> <<Cc(1), Cc(NAdd), Cc(1), Cc(1)>>, sl |-> {}, pre |-> <<>>, ex |-> <<>>], \* Binary[tuple([AddOp, Tensor, Tensor])]
  [name |-> "TyBinGet",   cls |-> "BinaryT",       args |-> <<Cc(0), Cc(11), Cc(2), Cc(3)>>, sl |-> {}, pre |-> <<>>, ex |-> <<>>], \* Binary[GetitemOp, Variable, Number]
  [name |-> "TyRed",      cls |-> "ReduceT",       args |-> <<Cc(0), Cc(12), Cc(2), Cc(4)>>, sl |-> {}, pre |-> <<>>, ex |-> <<>>] >> \* Reduce[MulOp, Variable, frozenset]

InternClasses == <<"ArrayType", "ProductDomain", "GetitemOp", "ReshapeOp", "SumOp", "GetsliceOp", "BinaryT", "ReduceT">>

(* pickling is defined for array domains and ops (copyreg / __reduce__),   *)
(* not for Product domains and parametrised term types                     *)
Picklable(cls) == cls \notin {"ProductDomain", "BinaryT", "ReduceT", "UnaryT"}

(* the normalisation applied by the metaclass before keying                *)
NormArgs(cls, raw) ==
  CASE cls = "ArrayType" ->
         (* Bint[n, *shape] (1), Reals[*shape] (2), Array[dtype, shape] (0)  ->  (dtype, shape) *)
         IF raw[1][2] = 2 THEN <<Cc(-1)>> \o Tail(raw) ELSE Tail(raw)
    [] cls = "SumOp" ->
         (* (axis) / (axis, keepdims) / keywords -> signature defaults applied: (axis, keepdims) *)
         IF raw[1][2] = 1 THEN <<raw[2], Cc(0)>> ELSE <<raw[2], raw[3]>>
    [] cls \in {"GetitemOp", "ReshapeOp", "GetsliceOp", "ProductDomain", "BinaryT", "ReduceT", "UnaryT"} ->
         (* positional or keyword; list or tuple; bare slice or 1-tuple: the spelling is dropped *)
         Tail(raw)
    [] OTHER -> raw

(* ---- opterms lens: lazy terms built through PARAMETRISED ops over fresh array   *)
(* domains.  Domains, op instances and parametrised term types are heap objects     *)
(* here: a Variable refers to its domain, a Binary / Unary to its op; on a table     *)
(* miss the new node also acquires (ex) its output domain (find_domain in __init__)  *)
(* and its parametrised class (reflect: get_origin(cls)[arg_types]).  Nothing else   *)
(* may hold them: after Drop + Collect of everything all ten tables are empty.       *)
OpTermRcp == <<
  [name |-> "DX",  cls |-> "ArrayType", args |-> <<Cc(2), Cc(13), Cc(11)>>, sl |-> {}, pre |-> <<>>, ex |-> <<>>],   \* Reals[13, 11]
  [name |-> "DJ",  cls |-> "ArrayType", args |-> <<Cc(1), Cc(11)>>,         sl |-> {}, pre |-> <<>>, ex |-> <<>>],   \* Bint[11]
  [name |-> "DG",  cls |-> "ArrayType", args |-> <<Cc(2), Cc(13)>>,         sl |-> {}, pre |-> <<>>, ex |-> <<>>],   \* Reals[13]
  [name |-> "DS",  cls |-> "ArrayType", args |-> <<Cc(2), Cc(13), Cc(1)>>,  sl |-> {}, pre |-> <<>>, ex |-> <<>>],   \* Reals[13, 1]
  [name |-> "DR",  cls |-> "ArrayType", args |-> <<Cc(2), Cc(11), Cc(13)>>, sl |-> {}, pre |-> <<>>, ex |-> <<>>],   \* Reals[11, 13]
  [name |-> "G1",  cls |-> "GetitemOp", args |-> <<Cc(1), Cc(1)>>,          sl |-> {}, pre |-> <<>>, ex |-> <<>>],   \* GetitemOp(1)
  [name |-> "S1T", cls |-> "SumOp",     args |-> <<Cc(2), Cc(1), Cc(1)>>,   sl |-> {}, pre |-> <<>>, ex |-> <<>>],   \* SumOp(1, True)
  [name |-> "RS",  cls |-> "ReshapeOp", args |-> <<Cc(0), Cc(11), Cc(13)>>, sl |-> {}, pre |-> <<>>, ex |-> <<>>],   \* ReshapeOp((11, 13))
  [name |-> "VXM", cls |-> "Variable",  args |-> <<Nn(1), Rr(1)>>,          sl |-> {}, pre |-> <<>>, ex |-> <<>>],   \* Variable('x', Reals[13, 11])
  [name |-> "VJ",  cls |-> "Variable",  args |-> <<Nn(3), Rr(2)>>,          sl |-> {}, pre |-> <<>>, ex |-> <<>>],   \* Variable('j', Bint[11])
  [name |-> "TBG", cls |-> "BinaryT",   args |-> <<Cc(0), Cc(11), Cc(2), Cc(2)>>, sl |-> {}, pre |-> <<>>, ex |-> <<>>], \* Binary[GetitemOp, Variable, Variable]
  [name |-> "TUS", cls |-> "UnaryT",    args |-> <<Cc(0), Cc(13), Cc(2)>>,  sl |-> {}, pre |-> <<>>, ex |-> <<>>],   \* Unary[SumOp, Variable]
  [name |-> "TUR", cls |-> "UnaryT",    args |-> <<Cc(0), Cc(14), Cc(2)>>,  sl |-> {}, pre |-> <<>>, ex |-> <<>>],   \* Unary[ReshapeOp, Variable]
  [name |-> "XG",  cls |-> "Binary",    args |-> <<Rr(6), Rr(9), Rr(10)>>,  sl |-> {}, pre |-> <<>>, ex |-> <<Rr(11), Rr(3)>>],  \* x[:, j] = Binary(GetitemOp(1), x, j)
  [name |-> "XS",  cls |-> "Unary",     args |-> <<Rr(7), Rr(9)>>,          sl |-> {}, pre |-> <<>>, ex |-> <<Rr(12), Rr(4)>>],  \* x.sum(1, True) = Unary(SumOp(1, True), x)
  [name |-> "XR",  cls |-> "Unary",     args |-> <<Rr(8), Rr(9)>>,          sl |-> {}, pre |-> <<>>, ex |-> <<Rr(13), Rr(5)>>] >> \* x.reshape((11, 13))

OpTermClasses == <<"Variable", "Binary", "Unary", "ArrayType", "GetitemOp", "SumOp", "ReshapeOp", "BinaryT", "UnaryT">>
OpTermUser == {"XG", "XS", "XR"}          \* built under an interpretation (all four give the lazy node)
OpTermPlain == {"G1", "DX"}               \* a parametrised op / a domain on its own

OpTermPairsAt(d) ==
  (IF InterpMode = "all" THEN OpTermUser \X {"eager", "lazy", "reflect", "normalize"}
   ELSE {<<r, AllInterps[(d % 4) + 1]>> : r \in OpTermUser})
  \cup {<<r, "">> : r \in OpTermPlain}

TermLike == {"Variable", "Number", "Tensor", "Binary", "Unary", "Reduce", "Contraction"}

Rcp == CASE LensName = "terms" -> TermRcp [] LensName = "opterms" -> OpTermRcp [] OTHER -> InternRcp
Classes == CASE LensName = "terms" -> TermClasses [] LensName = "opterms" -> OpTermClasses [] OTHER -> InternClasses
Idx(name) == CHOOSE k \in DOMAIN Rcp : Rcp[k].name = name
FormOf(name, i) == IF LensName = "terms" THEN TermForm(name, i) ELSE name
PairsAll(d) == IF LensName = "terms" THEN TermPairsAt(d)
               ELSE IF LensName = "opterms" THEN OpTermPairsAt(d)
               ELSE {<<Rcp[k].name, "">> : k \in DOMAIN Rcp}
PairsAt(d) == IF Focus = {} THEN PairsAll(d) ELSE {p \in PairsAll(d) : p[1] \in Focus}

NSlots == 2
Addrs == 1..NAddrs
FreeableSlots == {1}
MaxHandles == 24

-----------------------------------------------------------------------------
(* the bundled state                                                       *)
State == [heap |-> heap, addr |-> addr, handles |-> handles, held |-> held, slots |-> slots,
          table |-> table, gensym |-> gensym, stale |-> stale, nalloc |-> nalloc, arrs |-> arrs]

ArrObj == [k |-> "arr", cls |-> "ndarray", args |-> <<>>, memo |-> {}, live |-> TRUE]

InitState ==
  IF LensName = "terms"
  THEN [heap |-> <<ArrObj, ArrObj>>, addr |-> <<1, 2>>, handles |-> <<>>, held |-> {}, slots |-> <<1, 2>>,
        table |-> {}, gensym |-> 0, stale |-> FALSE, nalloc |-> 0, arrs |-> <<1, 2>>]
  ELSE [heap |-> <<>>, addr |-> <<>>, handles |-> <<>>, held |-> {}, slots |-> <<0, 0>>,
        table |-> {}, gensym |-> 0, stale |-> FALSE, nalloc |-> 0, arrs |-> <<>>]

NewObj(S, k, cls, args, ad) ==
  [S EXCEPT !.heap = Append(@, [k |-> k, cls |-> cls, args |-> args, memo |-> {}, live |-> TRUE]),
            !.addr = Append(@, ad)]

(* make_hash_key: an array counts by its address                           *)
KeyOf(S, args) ==
  [k \in 1..Len(args) |-> IF args[k][1] = "a" THEN <<"@", S.addr[args[k][2]]>> ELSE args[k]]

AddEntry(S, cls, key, req, o) ==
  [S EXCEPT !.table = {e \in @ : ~(e.cls = cls /\ e.key = key)}
                      \cup {[cls |-> cls, key |-> key, req |-> req, val |-> o]}]

(* the name a node binds (0: none)                                         *)
BinderName(S, cls, args) ==
  IF cls \in {"Reduce", "Contraction"} /\ args[3][1] = "o"
  THEN S.heap[args[3][2]].args[1][2] ELSE 0

RECURSIVE Mentions(_, _, _)
Mentions(S, x, nm) ==
  \E k \in 1..Len(S.heap[x].args) :
     LET a == S.heap[x].args[k] IN
     \/ a = Nn(nm)
     \/ a[1] = "o" /\ Mentions(S, a[2], nm)

RECURSIVE Mk(_, _, _, _), RenameObj(_, _, _, _), RenameArgs(_, _, _, _, _, _)
RECURSIVE Build(_, _, _), BuildArgs(_, _, _, _, _)

(* reflect: lookup-or-insert; returns [S, o].  ex: recipes of what a NEW   *)
(* node additionally acquires and holds (its parametrised class, its       *)
(* output domain); nothing is built on a hit                               *)
Mk(S, cls, args, ex) ==
  LET key == KeyOf(S, args)
      hit == {e \in S.table : e.cls = cls /\ e.key = key}
  IN IF hit # {}
     THEN LET e == CHOOSE e \in hit : TRUE
          IN [S |-> [S EXCEPT !.stale = @ \/ (e.req # args)], o |-> e.val]
     ELSE LET bn == BinderName(S, cls, args) IN
          IF bn = 0 \/ bn >= 100
          THEN LET S1 == NewObj(S, "obj", cls, args, 0)
                   o == Len(S1.heap)
                   S2 == AddEntry(S1, cls, key, args, o)
                   x == BuildArgs(S2, ex, 1, <<>>, 0)
               IN [S |-> [x.S EXCEPT !.heap[o].memo = @ \cup {x.args[k][2] : k \in 1..Len(x.args)}], o |-> o]
          ELSE (* _alpha_mangle: fresh name, renamed sub-terms, the renamed node is
                  built by reflect.interpret, then stored under the unmangled key *)
               LET g == S.gensym + 1
                   rn == RenameArgs([S EXCEPT !.gensym = g], args, 1, <<>>, bn, 100 + g)
                   m == Mk(rn.S, cls, rn.args, ex)
               IN [S |-> AddEntry(m.S, cls, key, args, m.o), o |-> m.o]

RenameObj(S, x, from, to) ==
  IF ~Mentions(S, x, from) THEN [S |-> S, o |-> x]
  ELSE LET rn == RenameArgs(S, S.heap[x].args, 1, <<>>, from, to)
       IN Mk(rn.S, S.heap[x].cls, rn.args, <<>>)

RenameArgs(S, args, k, acc, from, to) ==
  IF k > Len(args) THEN [S |-> S, args |-> acc]
  ELSE LET a == args[k] IN
       IF a = Nn(from) THEN RenameArgs(S, args, k + 1, Append(acc, Nn(to)), from, to)
       ELSE IF a[1] = "o"
       THEN LET b == RenameObj(S, a[2], from, to)
            IN RenameArgs(b.S, args, k + 1, Append(acc, <<"o", b.o>>), from, to)
       ELSE RenameArgs(S, args, k + 1, Append(acc, a), from, to)

(* evaluate a recipe: (discarded operands first,) arguments left to right, *)
(* then the node; ad is the address of the array an evaluation allocates   *)
Build(S, r, ad) ==
  LET p == BuildArgs(S, Rcp[r].pre, 1, <<>>, ad)
      b == BuildArgs(p.S, Rcp[r].args, 1, <<>>, ad)
  IN Mk(b.S, Rcp[r].cls, NormArgs(Rcp[r].cls, b.args), Rcp[r].ex)

BuildArgs(S, args, k, acc, ad) ==
  IF k > Len(args) THEN [S |-> S, args |-> acc]
  ELSE LET a == args[k] IN
       IF a[1] = "r"
       THEN LET b == Build(S, a[2], ad) IN BuildArgs(b.S, args, k + 1, Append(acc, <<"o", b.o>>), ad)
       ELSE IF a[1] = "s"
       THEN BuildArgs(S, args, k + 1, Append(acc, <<"a", S.slots[a[2]]>>), ad)
       ELSE IF a[1] = "f"
       THEN LET S1 == NewObj(S, "arr", "ndarray", <<>>, ad)
            IN BuildArgs(S1, args, k + 1, Append(acc, <<"a", Len(S1.heap)>>), ad)
       ELSE BuildArgs(S, args, k + 1, Append(acc, a), ad)

RECURSIVE CopyObj(_, _, _), CopyArgs(_, _, _, _, _)

(* pickle round trip: re-construct from the stored (mangled) args, bottom  *)
(* up; every array is copied (once per round trip) to a new address        *)
CopyObj(S, x, memo) ==
  LET c == CopyArgs(S, S.heap[x].args, 1, <<>>, memo)
      m == Mk(c.S, S.heap[x].cls, c.args, <<>>)
  IN [S |-> m.S, o |-> m.o, memo |-> c.memo]

CopyArgs(S, args, k, acc, memo) ==
  IF k > Len(args) THEN [S |-> S, args |-> acc, memo |-> memo]
  ELSE LET a == args[k] IN
       IF a[1] = "o"
       THEN LET b == CopyObj(S, a[2], memo)
            IN CopyArgs(b.S, args, k + 1, Append(acc, <<"o", b.o>>), b.memo)
       ELSE IF a[1] = "a"
       THEN IF a[2] \in DOMAIN memo
            THEN CopyArgs(S, args, k + 1, Append(acc, <<"a", memo[a[2]]>>), memo)
            ELSE LET S1 == NewObj(S, "arr", "ndarray", <<>>, 0 - (Len(S.heap) + 1))
                     n == Len(S1.heap)
                 IN CopyArgs(S1, args, k + 1, Append(acc, <<"a", n>>), memo @@ (a[2] :> n))
       ELSE CopyArgs(S, args, k + 1, Append(acc, a), memo)

-----------------------------------------------------------------------------
(* reachability and collection                                             *)
Roots(S) == {S.handles[h] : h \in S.held} \cup {S.slots[s] : s \in {t \in 1..NSlots : S.slots[t] # 0}}

Refs(S, x) == {S.heap[x].args[k][2] : k \in {j \in 1..Len(S.heap[x].args) :
                    \/ S.heap[x].args[j][1] = "o"
                    \/ S.heap[x].args[j][1] = "a" /\ KeepAlive}}
              \cup S.heap[x].memo

KeyRefs(e) == {e.key[k][2] : k \in {j \in 1..Len(e.key) : e.key[j][1] = "o"}}

ReachStep(S, R) ==
  R \cup UNION {Refs(S, x) : x \in R} \cup UNION {KeyRefs(e) : e \in {f \in S.table : f.val \in R}}

RECURSIVE ReachFrom(_, _)
ReachFrom(S, R) == LET T == ReachStep(S, R) IN IF T = R THEN R ELSE ReachFrom(S, T)

Reach(S) == ReachFrom(S, Roots(S))
LiveSet(S) == {x \in 1..Len(S.heap) : S.heap[x].live}
Garbage(S) == LiveSet(S) \ Reach(S)

(* reclaim the set G of objects (weak values: their entries go too)        *)
Reclaim(S, G) ==
  [S EXCEPT !.heap = [x \in 1..Len(S.heap) |-> IF x \in G THEN [S.heap[x] EXCEPT !.live = FALSE] ELSE S.heap[x]],
            !.table = {e \in @ : e.val \notin G}]

CollectAll(S) == Reclaim(S, Garbage(S))

-----------------------------------------------------------------------------
(* actions                                                                 *)
Act(a, r, i, h, s, ad) == [a |-> a, r |-> r, i |-> i, h |-> h, s |-> s, ad |-> ad]

SlotsReady(S, name) == \A s \in Rcp[Idx(name)].sl : S.slots[s] # 0
InUse(S) == {S.addr[x] : x \in {y \in LiveSet(S) : S.heap[y].k = "arr"}}

PickleInterps(S, h, d) ==
  IF S.heap[S.handles[h]].cls \notin TermLike THEN {""}
  ELSE IF S.heap[S.handles[h]].cls \in {"Variable", "Number", "Tensor"}
       THEN (IF InterpMode = "all" THEN {"eager", "lazy", "reflect", "normalize"} ELSE {AllInterps[(d % 4) + 1]})
       ELSE (IF InterpMode = "all" THEN {"lazy", "reflect"} ELSE {IF d % 2 = 0 THEN "reflect" ELSE "lazy"})

Evals(q) == FormOf(q[1], q[2]) \in {"EBIN", "ERED"}

(* rank of a constructed form, for the canonical order                      *)
Rank(act) == Idx(FormOf(act.r, act.i))

ActsAll(S, d, last) ==
  LET room == Len(S.handles) < MaxHandles
      okC(q) == ~Canon \/ last.a # "Construct" \/ Rank(last) <= Idx(FormOf(q[1], q[2]))
      okD(h) == ~Canon \/ last.a # "Drop" \/ last.h < h
  IN
  {Act("Construct", p[1], p[2], 0, 0, 0) :
      p \in {q \in PairsAt(d) : room /\ SlotsReady(S, q[1]) /\ okC(q) /\ ~Evals(q)}}
  \cup {Act("Construct", p[1][1], p[1][2], 0, 0, p[2]) :
      p \in {q \in PairsAt(d) \X Addrs : room /\ SlotsReady(S, q[1][1]) /\ Evals(q[1]) /\ q[2] \notin InUse(S)}}
  \cup {Act("Drop", "", "", h, 0, 0) : h \in {g \in S.held : okD(g)}}
  \cup (IF CollectAlways \/ Garbage(S) # {} THEN {Act("Collect", "", "", 0, 0, 0)} ELSE {})
  \cup UNION {{Act("Pickle", "", i, h, 0, 0) : i \in PickleInterps(S, h, d)} :
                h \in {g \in S.held : room /\ Picklable(S.heap[S.handles[g]].cls)}}
  \cup {Act("Reflect", "", "", h, 0, 0) : h \in {g \in S.held : room /\ S.heap[S.handles[g]].cls \in TermLike /\ ~Canon}}
  \cup {Act("Free", "", "", 0, s, 0) : s \in {t \in FreeableSlots : LensName = "terms" /\ S.slots[t] # 0}}
  \cup {Act("Alloc", "", "", 0, p[1], p[2]) :
          p \in {q \in FreeableSlots \X Addrs : LensName = "terms" /\ S.slots[q[1]] = 0
                                                /\ S.nalloc < MaxAlloc /\ q[2] \notin InUse(S)}}

(* the operands are in the tables at this point (just built, or kept by a key)      *)
RECURSIVE Memoise(_, _)
Memoise(S, edges) ==
  IF edges = {} THEN S
  ELSE LET e == CHOOSE e \in edges : TRUE
           x == Build(S, e[1], 0)
           y == Build(x.S, e[2], 0)
       IN Memoise([y.S EXCEPT !.heap[x.o].memo = @ \cup {y.o}], edges \ {e})

Acts(S, d, last) ==
  IF Kinds = {} THEN ActsAll(S, d, last) ELSE {act \in ActsAll(S, d, last) : act.a \in Kinds}

Push(S, o) == [S EXCEPT !.handles = Append(@, o), !.held = @ \cup {Len(S.handles) + 1}]

Apply(S, act) ==
  CASE act.a = "Construct" ->
         LET b == Build(S, Idx(FormOf(act.r, act.i)), act.ad)
             m == Memoise(b.S, IF LensName = "terms" THEN MemoEdges(act.r, act.i) ELSE {})
         IN Push(m, b.o)
    [] act.a = "Drop" -> [S EXCEPT !.held = @ \ {act.h}]
    [] act.a = "Collect" -> CollectAll(S)
    [] act.a = "Pickle" ->
         LET c == CopyObj(S, S.handles[act.h], <<>>) IN Push(c.S, c.o)
    [] act.a = "Reflect" ->
         (* reinterpret under reflect re-constructs bottom up from the stored args:
            every lookup hits, the identical object comes back *)
         LET m == Mk(S, S.heap[S.handles[act.h]].cls, S.heap[S.handles[act.h]].args, <<>>) IN Push(m.S, m.o)
    [] act.a = "Free" -> [S EXCEPT !.slots[act.s] = 0]
    [] act.a = "Alloc" ->
         LET S1 == NewObj(S, "arr", "ndarray", <<>>, act.ad)
             n == Len(S1.heap)
         IN [S1 EXCEPT !.slots[act.s] = n, !.nalloc = @ + 1, !.arrs = Append(@, n)]

(* what the harness can see                                                *)
Bit(b) == IF b THEN 1 ELSE 0
Obs(S) ==
  [ident |-> S.handles,                                                    \* is-matrix[i][j] = (ident[i] = ident[j])
   held  |-> [h \in 1..Len(S.handles) |-> Bit(h \in S.held)],
   alive |-> [h \in 1..Len(S.handles) |-> Bit(S.heap[S.handles[h]].live)],     \* weakref liveness
   arrs  |-> [k \in 1..Len(S.arrs) |-> Bit(S.heap[S.arrs[k]].live)],
   sizes |-> [k \in 1..Len(Classes) |-> Cardinality({e \in S.table : e.cls = Classes[k]})]]

-----------------------------------------------------------------------------
Init ==
  /\ heap = InitState.heap /\ addr = InitState.addr /\ handles = InitState.handles
  /\ held = InitState.held /\ slots = InitState.slots /\ table = InitState.table
  /\ gensym = InitState.gensym /\ stale = InitState.stale /\ nalloc = InitState.nalloc
  /\ arrs = InitState.arrs /\ hist = <<>> /\ obsq = <<>>

Next ==
  /\ Len(hist) < MaxDepth
  /\ \E act \in Acts(State, Len(hist), IF hist = <<>> THEN Act("", "", "", 0, 0, 0) ELSE hist[Len(hist)]) :
       LET T == Apply(State, act) IN
       /\ heap' = T.heap /\ addr' = T.addr /\ handles' = T.handles /\ held' = T.held
       /\ slots' = T.slots /\ table' = T.table /\ gensym' = T.gensym /\ stale' = T.stale
       /\ nalloc' = T.nalloc /\ arrs' = T.arrs
       /\ hist' = Append(hist, act)
       /\ obsq' = IF EmitDepth > 0 THEN Append(obsq, Obs(T)) ELSE obsq

Spec == Init /\ [][Next]_vars

(* for the deep invariant runs: states are identified up to their history   *)
(* (only its length and last action matter for what is enabled)             *)
ViewNoHist == <<heap, addr, handles, held, slots, table, gensym, stale, nalloc, arrs, Len(hist),
                IF hist = <<>> THEN Act("", "", "", 0, 0, 0) ELSE hist[Len(hist)]>>

-----------------------------------------------------------------------------
(* invariants                                                              *)
Objs(S) == {x \in LiveSet(S) : S.heap[x].k = "obj"}

(* two live objects with equal (class, args) are the same object           *)
Unique ==
  \A x, y \in Objs(State) :
     (heap[x].cls = heap[y].cls /\ heap[x].args = heap[y].args) => x = y

(* every entry points to a live object, mentions only live objects, and is *)
(* filed under the key of the arguments it was requested with              *)
WeakLive ==
  \A e \in table : /\ heap[e.val].live
                   /\ \A x \in KeyRefs(e) : heap[x].live
                   /\ e.key = KeyOf(State, e.req)

(* every argument of a live object is live (with KeepAlive)                *)
NoDangling ==
  \A x \in Objs(State) : \A y \in Refs(State, x) : heap[y].live

(* dropping every reference and collecting leaves the tables as they were  *)
(* before the history: empty                                               *)
WeakEmpty ==
  LET T == CollectAll([State EXCEPT !.held = {}, !.slots = [s \in 1..NSlots |-> 0]])
  IN T.table = {} /\ LiveSet(T) = {}

(* no lookup ever returned an object built from other arguments            *)
NoStale == ~stale

(* live arrays have distinct addresses                                     *)
AddrInjective ==
  \A x, y \in {z \in LiveSet(State) : heap[z].k = "arr"} : addr[x] = addr[y] => x = y

Emit == Len(hist) # EmitDepth \/ PrintT(ToJson([acts |-> hist, obs |-> obsq]))
=============================================================================
