------------------------------ MODULE OpsMeaning ------------------------------
(***************************************************************************)
(* C15: the textbook meaning and the domain (carrier) of every op of       *)
(* funsor.ops over the exact value algebra of Values.tla, the carrier grid *)
(* {0, +-1, +-2, 1/2, +-inf} with its booleans and its log image, and the  *)
(* expectation handed to the S->C executor (Expect1/2).  No variables: the *)
(* module is extended by OpsAlgebra (table laws), OpsGrid and OpsEinsum.   *)
(***************************************************************************)
EXTENDS Values, Json, IOUtils

-----------------------------------------------------------------------------
(* the carrier grid {0, +-1, +-2, 1/2, +-inf}, booleans, and its log image *)

Half == Q(1, 2)
FinGrid == {Zero, One, RInt(-1), RInt(2), RInt(-2), Half}
NonNegFin == {Zero, One, RInt(2), Half}
Grid == FinGrid \cup {NegInf, PosInf}
Bools == {Zero, One}
\* finite log-domain values: log 1, log 2, log 1/2, log 3
LogFin == {Zero, MkL(2, 1), MkL(1, 2), MkL(3, 1)}
\* the log semiring lives on [-inf, inf): log of the non-negative reals
LogCore == LogFin \cup {NegInf}

-----------------------------------------------------------------------------
(* textbook meaning *)

BinOps == {"add", "sub", "mul", "truediv", "max", "min", "logaddexp", "sample", "pow",
           "floordiv", "mod", "eq", "ne", "lt", "le", "gt", "ge", "and", "or", "xor",
           "safesub", "safediv"}
UnOps == {"neg", "pos", "abs", "exp", "log", "reciprocal", "sqrt", "invert", "log1p"}
LogicOps == {"and", "or", "xor"}
LaeOps == {"logaddexp", "sample"}

\* `sample` is created from logaddexp's default implementation: as a binary op on
\* values it IS logaddexp (it differs only in how a Reduce by it is interpreted)
M2(op, a, b) == IF op = "sample" THEN LogAddExp(a, b) ELSE Apply2(op, a, b)
M1(op, a) == Apply1(op, a)
UnitOf(op) == IF op = "sample" THEN NegInf ELSE TextbookUnit(op)

RECURSIVE RepR(_, _, _)
RepR(op, a, n) == IF n = 1 THEN a ELSE M2(op, RepR(op, a, n - 1), a)
\* a op a op ... op a (n times); the empty product is the unit
Rep(op, a, n) == IF n = 0 THEN UnitOf(op) ELSE RepR(op, a, n)

-----------------------------------------------------------------------------
(* S->C: domain (carrier) of every op and the expectation handed to the     *)
(* executor.  Besides an exact value an expectation can be                  *)
(*   <<"U",0,1>>    outside the op's domain: no constraint                  *)
(*   <<"AG",0,1>>   inside the domain but not expressible in the exact      *)
(*                  algebra (irrational, mixed log/linear): the result must *)
(*                  not be NaN and all operand kinds must agree             *)
(*   <<"ANY",0,1>>  a protected singularity of a safe op: any value but NaN *)
(*   <<"PIS",0,1>>  +inf, which a safe op may saturate to the largest float *)
(*   <<"NIS",0,1>>  -inf, which a safe op may saturate to -largest float    *)

Agree == <<"AG", 0, 1>>
AnyVal == <<"ANY", 0, 1>>
PosSat == <<"PIS", 0, 1>>
NegSat == <<"NIS", 0, 1>>

IsFin(v) == IsR(v) \/ IsL(v)

Dom2(op, a, b) ==
  CASE IsU(a) \/ IsU(b) -> FALSE
    [] op = "add" -> ~(IsInf(a) /\ IsInf(b) /\ a # b)
    [] op \in {"sub", "safesub"} -> ~(IsInf(a) /\ a = b)
    [] op = "mul" -> ~((IsInf(a) /\ Sgn(b) = 0) \/ (IsInf(b) /\ Sgn(a) = 0))
    [] op \in {"truediv", "safediv"} -> Sgn(b) # 0 /\ ~(IsInf(a) /\ IsInf(b))
    [] op \in {"max", "min", "eq", "ne", "lt", "le", "gt", "ge"} -> TRUE
    \* the log semiring lives on [-inf, inf): +inf is not the log of a real
    [] op \in LaeOps -> a # PosInf /\ b # PosInf
    [] op = "pow" -> IsFin(a) /\ IsFin(b)
                     /\ (Sgn(a) > 0 \/ (IsIntR(b) /\ (Sgn(a) # 0 \/ b[2] >= 0)))
    [] op \in {"floordiv", "mod"} -> IsFin(a) /\ IsFin(b) /\ Sgn(b) # 0
    [] op \in LogicOps -> IsBoolR(a) /\ IsBoolR(b)
    [] OTHER -> FALSE

Dom1(op, a) ==
  CASE IsU(a) -> FALSE
    [] op \in {"neg", "pos", "abs", "exp"} -> TRUE
    [] op \in {"log", "sqrt"} -> Sgn(a) >= 0
    [] op = "log1p" -> Cmp(a, RInt(-1)) \in {0, 1}
    [] op = "reciprocal" -> a # Zero
    [] op = "invert" -> IsBoolR(a)
    [] OTHER -> FALSE

\* the singularities the safe ops exist for: a zero divisor, and -inf - (-inf)
\* (log-space 0/0).  inf/inf and (+inf) - (+inf) are not protected.
SafeOps == {"safesub", "safediv", "reciprocal"}
Protected2(op, a, b) ==
  (op = "safediv" /\ b = Zero /\ ~IsU(a)) \/ (op = "safesub" /\ a = NegInf /\ b = NegInf)
Protected1(op, a) == op = "reciprocal" /\ a = Zero

Saturate(op, r) ==
  IF op \in SafeOps /\ r = PosInf THEN PosSat
  ELSE IF op \in SafeOps /\ r = NegInf THEN NegSat ELSE r

Expect2(op, a, b) ==
  IF Protected2(op, a, b) THEN AnyVal
  ELSE IF ~Dom2(op, a, b) THEN Undef
  ELSE LET r == M2(op, a, b) IN IF IsU(r) THEN Agree ELSE Saturate(op, r)

Expect1(op, a) ==
  IF Protected1(op, a) THEN AnyVal
  ELSE IF ~Dom1(op, a) THEN Undef
  ELSE LET r == M1(op, a) IN IF IsU(r) THEN Agree ELSE Saturate(op, r)

=============================================================================
