\* C->S: validate recorded runs (opterms lens)
SPECIFICATION TSpec
CONSTANTS
  LensName = "opterms"
  KeepAlive = TRUE
  MaxDepth = 0
  EmitDepth = 0
  MaxAlloc = 1000000
  CollectAlways = TRUE
  InterpMode = "all"
  Focus = {}
  Kinds = {}
  WithEval = TRUE
  NAddrs = 24
  Canon = FALSE
CHECK_DEADLOCK FALSE
