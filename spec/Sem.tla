-------------------------------- MODULE Sem ---------------------------------
(***************************************************************************)
(* L1: term syntax, typing rules (Inputs / Output / Bound) and the         *)
(* textbook denotation Eval(t, env) / Den(t) of every funsor constructor.  *)
(*                                                                         *)
(* A term is a record tagged by field c.  The same shape is produced by    *)
(* TLC (TermMachine and the algorithm models) and by the Python serialiser *)
(* of real funsor objects (harness/ast.py), so one Eval judges both.       *)
(*                                                                         *)
(*   [c |-> "Var", name, dom]            dom = [dt |-> 0 real | n bint, sh]*)
(*   [c |-> "Num", v, dt]                                                  *)
(*   [c |-> "Ten", ins, dt, sh, data]    ins = << <<name, size>> ... >>    *)
(*   [c |-> "Un",  op, arg]              op = [n |-> name, p |-> params]   *)
(*   [c |-> "Bin", op, l, r]                                               *)
(*   [c |-> "Red", op, arg, vars]        vars = << <<name, dom>> ... >>    *)
(*   [c |-> "Sub", arg, subs]            subs = << <<name, term>> ... >>   *)
(*   [c |-> "Slice", name, start, stop, step, dt]                          *)
(*   [c |-> "Stack", name, parts]  [c |-> "Cat", name, parts, pn]          *)
(*   [c |-> "Lam", var, expr]            var = <<name, dom>>               *)
(*   [c |-> "Indep", fn, rv, bv, dv]                                       *)
(*   [c |-> "Con", red, bin, vars, terms]                                  *)
(*   [c |-> "Align", arg, names]                                           *)
(*   [c |-> "Delta", terms]              terms = << <<name, point, ld>> >> *)
(*   [c |-> "Fin", op, args]             einsum / stack / cat on outputs   *)
(*   [c |-> "Tup", args]                                                   *)
(*   [c |-> "Integ", measure, integrand, vars]   sum over vars of           *)
(*        exp(measure) * integrand  (bounded-integer vars)                 *)
(*   [c |-> "Gauss", ins, rank, S, w]    Gaussian -1/2 ||x S - w||^2: ins =*)
(*        << <<name, dom>> >> (bounded-integer batch inputs and real       *)
(*        inputs, in order); S row-major over batch.., dim, rank; w over   *)
(*        batch.., rank; x = the real inputs flattened and concatenated    *)
(***************************************************************************)
EXTENDS Values

CONSTANT RealPts      \* sequence of sample scalars used as elements of Real

-----------------------------------------------------------------------------
(* domains *)

Dom(dt, sh) == [dt |-> dt, sh |-> sh]
BintD(n) == Dom(n, <<>>)
RealD == Dom(0, <<>>)
IsBintD(d) == d.dt > 0 /\ d.sh = <<>>

\* k-th sample array (k = 1..Len(RealPts)) of a real domain with shape sh:
\* element j is RealPts[(j + k - 2) mod N + 1], i.e. a rotation of the points.
RealSample(sh, k) ==
  LET N == Len(RealPts) IN
  [sh |-> sh, v |-> [j \in 1..Size(sh) |-> RealPts[((j + k - 2) % N) + 1]]]

Elements(d) ==
  IF IsBintD(d) THEN {Scalar(RInt(i)) : i \in 0..(d.dt - 1)}
  ELSE IF d.dt = 0 THEN {RealSample(d.sh, k) : k \in 1..Len(RealPts)}
  ELSE {}   \* integer arrays are never free inputs in the models

InDomain(a, d) ==
  /\ a.sh = d.sh
  /\ d.dt > 0 => \A k \in 1..Len(a.v) : IsIntR(a.v[k]) /\ a.v[k][2] >= 0 /\ a.v[k][2] < d.dt

-----------------------------------------------------------------------------
(* sequences of <<name, x>> pairs as ordered maps *)

Names(ps) == {ps[k][1] : k \in 1..Len(ps)}
NameSeq(ps) == [k \in 1..Len(ps) |-> ps[k][1]]
HasName(ps, n) == \E k \in 1..Len(ps) : ps[k][1] = n
\* total: a name that is absent maps to the impossible domain [dt |-> -1, sh |-> <<>>]
Lookup(ps, n) ==
  IF HasName(ps, n) THEN ps[CHOOSE k \in 1..Len(ps) : ps[k][1] = n][2] ELSE [dt |-> -1, sh |-> <<>>]
RECURSIVE FilterPairs(_, _)
\* keep the pairs whose name is NOT in the set drop
FilterPairs(ps, drop) ==
  IF ps = <<>> THEN <<>>
  ELSE IF Head(ps)[1] \in drop THEN FilterPairs(Tail(ps), drop)
  ELSE <<Head(ps)>> \o FilterPairs(Tail(ps), drop)

\* a, followed by the pairs of b whose names a does not have
Merge(a, b) == a \o FilterPairs(b, Names(a))

RECURSIVE MergeAll(_)
MergeAll(ss) == IF ss = <<>> THEN <<>> ELSE Merge(Head(ss), MergeAll(Tail(ss)))
\* note: MergeAll merges right-associated but keeps first-occurrence order

RECURSIVE MergeLeft(_, _)
MergeLeft(acc, ss) == IF ss = <<>> THEN acc ELSE MergeLeft(Merge(acc, Head(ss)), Tail(ss))

-----------------------------------------------------------------------------
(* typing of ops on output domains (the sound static rule) *)

PointwiseUnary == {"neg", "pos", "abs", "exp", "log", "reciprocal", "sqrt", "invert",
                   "not", "log1p", "expm1"}
PointwiseBinary == {"add", "sub", "mul", "truediv", "max", "min", "logaddexp", "pow",
                    "floordiv", "mod", "eq", "ne", "lt", "le", "gt", "ge",
                    "and", "or", "xor", "safesub", "safediv"}
ArrayReductions == {"sum", "prod", "amax", "amin", "all", "any", "logsumexp"}
\* reductions over a TUPLE of two axes: name sum2 / amax2, params <<axis1, axis2, keepdims>>
ArrayReductions2 == {"sum2", "amax2"}
Red2Base(n) == IF n = "sum2" THEN "sum" ELSE "amax"
\* mean / var / std over the output shape: params <<axis, keepdims, ddof>>; always real-valued
ArrayStats == {"mean", "var", "std"}

\* shape after x[parts]; parts apply to the leading axes.
\* part = [k |-> "int", i] | [k |-> "slice", start, step, n]  (n = number of taken items)
RECURSIVE SliceShape(_, _)
SliceShape(sh, parts) ==
  IF parts = <<>> \/ sh = <<>> THEN sh
  ELSE IF Head(parts).k = "int" THEN SliceShape(Tail(sh), Tail(parts))
  ELSE <<Head(parts).n>> \o SliceShape(Tail(sh), Tail(parts))

\* the sequence sh without its (0-based) positions n1 and n2
SelectSeqIdx(sh, n1, n2) ==
  LET keepIdx == SelectSeq([j \in 1..Len(sh) |-> j], LAMBDA j : j # n1 + 1 /\ j # n2 + 1)
  IN [k \in 1..Len(keepIdx) |-> sh[keepIdx[k]]]

OutDom1(op, d) ==
  CASE op.n \in {"exp", "log", "log1p", "expm1", "sqrt", "reciprocal"} -> Dom(0, d.sh)
    [] op.n \in {"invert", "not"} -> Dom(2, d.sh)
    [] op.n \in PointwiseUnary -> d
    [] op.n \in ArrayReductions ->
         (LET axis == op.p[1]  keep == op.p[2] = 1
              nd == Len(d.sh)
              ax0 == IF axis < 0 THEN axis + nd ELSE axis
              ax == IF ax0 < 0 \/ ax0 >= nd THEN 0 ELSE ax0
              sh == IF axis = NoAxis
                    THEN (IF keep THEN [j \in 1..nd |-> 1] ELSE <<>>)
                    ELSE (IF keep THEN [j \in 1..nd |-> IF j = ax + 1 THEN 1 ELSE d.sh[j]]
                          ELSE DropAt(d.sh, ax + 1))
          IN Dom(IF op.n \in {"all", "any"} THEN 2 ELSE d.dt, sh))
    [] op.n \in ArrayReductions2 ->
         (LET nd == Len(d.sh)
              n1 == IF op.p[1] < 0 THEN op.p[1] + nd ELSE op.p[1]
              n2 == IF op.p[2] < 0 THEN op.p[2] + nd ELSE op.p[2]
              keep == op.p[3] = 1
              sh == IF keep THEN [j \in 1..nd |-> IF j = n1 + 1 \/ j = n2 + 1 THEN 1 ELSE d.sh[j]]
                    ELSE SelectSeqIdx(d.sh, n1, n2)
          IN Dom(d.dt, sh))
    [] op.n \in ArrayStats ->
         (LET axis == op.p[1]  keep == op.p[2] = 1
              nd == Len(d.sh)
              ax0 == IF axis < 0 THEN axis + nd ELSE axis
              ax == IF ax0 < 0 \/ ax0 >= nd THEN 0 ELSE ax0
              sh == IF axis = NoAxis
                    THEN (IF keep THEN [j \in 1..nd |-> 1] ELSE <<>>)
                    ELSE (IF keep THEN [j \in 1..nd |-> IF j = ax + 1 THEN 1 ELSE d.sh[j]]
                          ELSE DropAt(d.sh, ax + 1))
          IN Dom(0, sh))
    [] op.n = "reshape" -> Dom(d.dt, op.p)
    [] op.n = "getslice" -> Dom(d.dt, SliceShape(d.sh, op.p))
    [] OTHER -> Dom(-1, <<>>)

OutDom2(op, a, b) ==
  LET sh == BroadcastShape(a.sh, b.sh) IN
  CASE op.n \in {"eq", "ne", "lt", "le", "gt", "ge"} -> Dom(2, sh)
    [] op.n = "getitem" -> Dom(a.dt, DropAt(a.sh, op.p[1] + 1))
    \* numpy matmul: the last axis of a against the second-to-last of b (the only one of a
    \* vector); leading (batch) axes broadcast
    [] op.n = "matmul" ->
         (LET ra == Len(a.sh)  rb == Len(b.sh) IN
          IF ra < 1 \/ rb < 1 THEN Dom(-1, <<>>)
          ELSE Dom(0, CASE rb = 1 -> SubSeq(a.sh, 1, ra - 1)
                        [] ra = 1 -> SubSeq(b.sh, 1, rb - 2) \o <<b.sh[rb]>>
                        [] OTHER -> BroadcastShape(SubSeq(a.sh, 1, ra - 2), SubSeq(b.sh, 1, rb - 2))
                                    \o <<a.sh[ra - 1], b.sh[rb]>>))
    [] a.dt = 0 \/ b.dt = 0 -> Dom(0, sh)
    [] op.n = "add" -> Dom(a.dt + b.dt - 1, sh)
    [] op.n = "mul" -> Dom((a.dt - 1) * (b.dt - 1) + 1, sh)
    [] op.n = "max" -> Dom(IMax(a.dt, b.dt), sh)
    [] op.n = "min" -> Dom(IMin(a.dt, b.dt), sh)
    [] op.n \in {"and", "or", "xor"} -> Dom(2, sh)
    [] op.n = "floordiv" -> Dom(a.dt, sh)
    [] op.n = "mod" -> Dom(IMax(1, b.dt - 1), sh)
    [] op.n = "pow" -> Dom(IPow(a.dt - 1, b.dt - 1) + 1, sh)
    [] OTHER -> Dom(a.dt, sh)

-----------------------------------------------------------------------------------------------------------------------------------------------------
(* typing rules of terms.                                                    *)
(* An ANNOTATED term carries at every node  ti (its ordered inputs, a        *)
(* sequence of <<name, dom>>) and  to (its output domain), so that neither   *)
(* typing nor evaluation ever recomputes the inputs of a subterm.  TI / TO   *)
(* give the annotation of a node whose children are already annotated;       *)
(* Ann(t) annotates a raw term bottom-up.                                    *)

TenInputs(t) == [k \in 1..Len(t.ins) |-> <<t.ins[k][1], BintD(t.ins[k][2])>>]

SliceSize(t) ==
  LET stop == IMin(t.dt, IMax(t.start, t.stop)) IN
  IMax(0, CeilDiv(stop - t.start, t.step))

RECURSIVE FoldOutDom(_, _)
\* Contraction: right fold of the binary op's domain rule (cnf.py)
FoldOutDom(op, ds) ==
  IF Len(ds) = 1 THEN ds[1] ELSE OutDom2(op, Head(ds), FoldOutDom(op, Tail(ds)))

TI(t) ==
  CASE t.c = "Var" -> << <<t.name, t.dom>> >>
    [] t.c = "Num" -> <<>>
    [] t.c = "Ten" -> TenInputs(t)
    [] t.c = "Gauss" -> t.ins
    [] t.c = "Un" -> t.arg.ti
    [] t.c = "Bin" -> Merge(t.l.ti, t.r.ti)
    [] t.c = "Red" -> FilterPairs(t.arg.ti, Names(t.vars))
    [] t.c = "Sub" ->
         (LET ai == t.arg.ti
              used == [k \in 1..Len(t.subs) |->
                         IF HasName(ai, t.subs[k][1]) THEN t.subs[k][2].ti ELSE <<>>]
          IN MergeLeft(FilterPairs(ai, Names(t.subs)), used))
    [] t.c = "Slice" -> << <<t.name, BintD(SliceSize(t))>> >>
    [] t.c = "Stack" ->
         MergeLeft(<< <<t.name, BintD(Len(t.parts))>> >>,
                   [k \in 1..Len(t.parts) |-> t.parts[k].ti])
    [] t.c = "Cat" ->
         (LET all == MergeLeft(<<>>, [k \in 1..Len(t.parts) |-> t.parts[k].ti])
              total == SeqSum([k \in 1..Len(t.parts) |->
                                 IF HasName(t.parts[k].ti, t.pn)
                                 THEN Lookup(t.parts[k].ti, t.pn).dt ELSE 0])
          IN FilterPairs(all, {t.pn, t.name}) \o << <<t.name, BintD(total)>> >>)
    [] t.c = "Lam" -> FilterPairs(t.expr.ti, {t.var[1]})
    [] t.c = "Indep" ->
         (LET fi == t.fn.ti
              dvd == Lookup(fi, t.dv)
              bvd == Lookup(fi, t.bv)
          IN FilterPairs(fi, {t.bv, t.dv}) \o
             << <<t.rv, Dom(dvd.dt, <<bvd.dt>> \o dvd.sh)>> >>)
    [] t.c = "Con" ->
         FilterPairs(MergeLeft(<<>>, [k \in 1..Len(t.terms) |-> t.terms[k].ti]), Names(t.vars))
    [] t.c = "Align" ->
         (LET ai == t.arg.ti
          IN [k \in 1..Len(t.names) |-> <<t.names[k], Lookup(ai, t.names[k])>>]
             \o FilterPairs(ai, {t.names[k] : k \in 1..Len(t.names)}))
    [] t.c = "Delta" ->
         MergeLeft(<<>>, [k \in 1..Len(t.terms) |->
              Merge(<< <<t.terms[k][1], t.terms[k][2].to>> >>,
                    Merge(t.terms[k][2].ti, t.terms[k][3].ti))])
    [] t.c \in {"Fin", "Tup"} -> MergeLeft(<<>>, [k \in 1..Len(t.args) |-> t.args[k].ti])
    [] t.c = "Integ" -> FilterPairs(Merge(t.measure.ti, t.integrand.ti), Names(t.vars))
    [] OTHER -> <<>>

TO(t) ==
  CASE t.c = "Var" -> t.dom
    [] t.c = "Num" -> Dom(t.dt, <<>>)
    [] t.c = "Ten" -> Dom(t.dt, t.sh)
    [] t.c = "Gauss" -> RealD
    [] t.c = "Un" -> OutDom1(t.op, t.arg.to)
    [] t.c = "Bin" -> OutDom2(t.op, t.l.to, t.r.to)
    [] t.c = "Red" -> t.arg.to
    [] t.c = "Sub" -> t.arg.to
    [] t.c = "Slice" -> BintD(t.dt)
    [] t.c = "Stack" -> t.parts[1].to
    [] t.c = "Cat" -> t.parts[1].to
    [] t.c = "Lam" -> Dom(t.expr.to.dt, <<t.var[2].dt>> \o t.expr.to.sh)
    [] t.c = "Indep" -> t.fn.to
    [] t.c = "Con" ->
         (IF t.bin = "nullop" THEN t.terms[1].to
          ELSE FoldOutDom([n |-> t.bin, p |-> <<>>], [k \in 1..Len(t.terms) |-> t.terms[k].to]))
    [] t.c = "Align" -> t.arg.to
    [] t.c = "Delta" -> RealD
    [] t.c = "Integ" -> t.integrand.to
    [] OTHER -> Dom(-1, <<>>)

\* annotate a node whose children are annotated
Mk(t) == [ti |-> TI(t), to |-> TO(t)] @@ t

RECURSIVE Ann(_)
Ann(t) ==
  CASE t.c \in {"Var", "Num", "Ten", "Slice", "Gauss"} -> Mk(t)
    [] t.c = "Un" -> Mk([c |-> "Un", op |-> t.op, arg |-> Ann(t.arg)])
    [] t.c = "Bin" -> Mk([c |-> "Bin", op |-> t.op, l |-> Ann(t.l), r |-> Ann(t.r)])
    [] t.c = "Red" -> Mk([c |-> "Red", op |-> t.op, arg |-> Ann(t.arg), vars |-> t.vars])
    [] t.c = "Sub" ->
         Mk([c |-> "Sub", arg |-> Ann(t.arg),
             subs |-> [k \in 1..Len(t.subs) |-> <<t.subs[k][1], Ann(t.subs[k][2])>>]])
    [] t.c = "Stack" ->
         Mk([c |-> "Stack", name |-> t.name, parts |-> [k \in 1..Len(t.parts) |-> Ann(t.parts[k])]])
    [] t.c = "Cat" ->
         Mk([c |-> "Cat", name |-> t.name, pn |-> t.pn,
             parts |-> [k \in 1..Len(t.parts) |-> Ann(t.parts[k])]])
    [] t.c = "Lam" -> Mk([c |-> "Lam", var |-> t.var, expr |-> Ann(t.expr)])
    [] t.c = "Indep" ->
         Mk([c |-> "Indep", fn |-> Ann(t.fn), rv |-> t.rv, bv |-> t.bv, dv |-> t.dv])
    [] t.c = "Con" ->
         Mk([c |-> "Con", red |-> t.red, bin |-> t.bin, vars |-> t.vars,
             terms |-> [k \in 1..Len(t.terms) |-> Ann(t.terms[k])]])
    [] t.c = "Align" -> Mk([c |-> "Align", arg |-> Ann(t.arg), names |-> t.names])
    [] t.c = "Delta" ->
         Mk([c |-> "Delta",
             terms |-> [k \in 1..Len(t.terms) |->
                          <<t.terms[k][1], Ann(t.terms[k][2]), Ann(t.terms[k][3])>>]])
    [] t.c \in {"Fin"} ->
         Mk([c |-> t.c, op |-> t.op, args |-> [k \in 1..Len(t.args) |-> Ann(t.args[k])]])
    [] t.c = "Tup" -> Mk([c |-> "Tup", args |-> [k \in 1..Len(t.args) |-> Ann(t.args[k])]])
    [] t.c = "Integ" ->
         Mk([c |-> "Integ", measure |-> Ann(t.measure), integrand |-> Ann(t.integrand), vars |-> t.vars])
    [] OTHER -> Mk(t)

RECURSIVE Strip(_)
\* the raw term of an annotated one (what is emitted to / received from the harness)
Strip(t) ==
  CASE t.c = "Var" -> [c |-> "Var", name |-> t.name, dom |-> t.dom]
    [] t.c = "Num" -> [c |-> "Num", v |-> t.v, dt |-> t.dt]
    [] t.c = "Ten" -> [c |-> "Ten", ins |-> t.ins, dt |-> t.dt, sh |-> t.sh, data |-> t.data]
    [] t.c = "Slice" -> [c |-> "Slice", name |-> t.name, start |-> t.start, stop |-> t.stop,
                         step |-> t.step, dt |-> t.dt]
    [] t.c = "Gauss" -> [c |-> "Gauss", ins |-> t.ins, rank |-> t.rank, S |-> t.S, w |-> t.w]
    [] t.c = "Un" -> [c |-> "Un", op |-> t.op, arg |-> Strip(t.arg)]
    [] t.c = "Bin" -> [c |-> "Bin", op |-> t.op, l |-> Strip(t.l), r |-> Strip(t.r)]
    [] t.c = "Red" -> [c |-> "Red", op |-> t.op, arg |-> Strip(t.arg), vars |-> t.vars]
    [] t.c = "Sub" ->
         [c |-> "Sub", arg |-> Strip(t.arg),
          subs |-> [k \in 1..Len(t.subs) |-> <<t.subs[k][1], Strip(t.subs[k][2])>>]]
    [] t.c = "Stack" ->
         [c |-> "Stack", name |-> t.name, parts |-> [k \in 1..Len(t.parts) |-> Strip(t.parts[k])]]
    [] t.c = "Cat" ->
         [c |-> "Cat", name |-> t.name, pn |-> t.pn,
          parts |-> [k \in 1..Len(t.parts) |-> Strip(t.parts[k])]]
    [] t.c = "Lam" -> [c |-> "Lam", var |-> t.var, expr |-> Strip(t.expr)]
    [] t.c = "Indep" -> [c |-> "Indep", fn |-> Strip(t.fn), rv |-> t.rv, bv |-> t.bv, dv |-> t.dv]
    [] t.c = "Con" ->
         [c |-> "Con", red |-> t.red, bin |-> t.bin, vars |-> t.vars,
          terms |-> [k \in 1..Len(t.terms) |-> Strip(t.terms[k])]]
    [] t.c = "Align" -> [c |-> "Align", arg |-> Strip(t.arg), names |-> t.names]
    [] t.c = "Delta" ->
         [c |-> "Delta",
          terms |-> [k \in 1..Len(t.terms) |->
                       <<t.terms[k][1], Strip(t.terms[k][2]), Strip(t.terms[k][3])>>]]
    [] t.c = "Integ" ->
         [c |-> "Integ", measure |-> Strip(t.measure), integrand |-> Strip(t.integrand), vars |-> t.vars]
    [] OTHER -> t

\* for raw terms
Inputs(t) == Ann(t).ti
Output(t) == Ann(t).to
InputNames(t) == Names(Inputs(t))

-----------------------------------------------------------------------------
(* environments *)

EnvInt(env, n) == env[n].v[1][2]       \* integer value of a bounded-integer input

-----------------------------------------------------------------------------
(* denotation (of ANNOTATED terms) *)

RECURSIVE AFoldSeq(_, _)
AFoldSeq(op, s) ==   \* balanced fold of arrays with an associative op
  IF Len(s) = 1 THEN s[1]
  ELSE LET m == Len(s) \div 2 IN
       Pointwise2(op, AFoldSeq(op, SubSeq(s, 1, m)), AFoldSeq(op, SubSeq(s, m + 1, Len(s))))

APower(op, a, n) == [sh |-> a.sh, v |-> [k \in 1..Len(a.v) |-> OpPower(op, a.v[k], n)]]

IsIntScalar(a) == a.sh = <<>> /\ IsIntR(a.v[1])

\* apply x[parts] to the leading axes
RECURSIVE GetSlice(_, _, _)
GetSlice(a, parts, axis) ==
  IF parts = <<>> THEN a
  ELSE IF Head(parts).k = "int"
       THEN GetSlice(TakeAxis(a, axis, Head(parts).i), Tail(parts), axis)
       ELSE GetSlice(SliceAxis(a, axis, Head(parts).start, Head(parts).step, Head(parts).n),
                     Tail(parts), axis + 1)

ApplyUn(op, a) ==
  CASE HasU(a) -> UArr
    [] op.n \in PointwiseUnary -> Pointwise1(op.n, a)
    [] op.n \in ArrayReductions -> ReduceArr(op.n, a, op.p[1], op.p[2] = 1)
    [] op.n \in ArrayStats -> StatArr(op.n, a, op.p[1], op.p[2] = 1, op.p[3])
    [] op.n \in ArrayReductions2 -> ReduceArr2(Red2Base(op.n), a, op.p[1], op.p[2], op.p[3] = 1)
    [] op.n = "reshape" -> Reshape(a, op.p)
    [] op.n = "getslice" -> GetSlice(a, op.p, 0)
    [] OTHER -> UArr

ApplyBin(op, a, b) ==
  CASE HasU(a) \/ HasU(b) -> UArr
    [] op.n \in PointwiseBinary -> Pointwise2(op.n, a, b)
    [] op.n = "getitem" ->
         (IF IsIntScalar(b) THEN TakeAxis(a, op.p[1], b.v[1][2]) ELSE UArr)
    [] op.n = "matmul" -> MatMul(a, b)
    [] OTHER -> UArr

\* all assignments to the (ordered) pairs vs, as a sequence of functions,
\* enumerated in row-major order so that folds are reproducible
RECURSIVE AsgSeq(_)
AsgSeq(vs) ==
  IF vs = <<>> THEN << [x \in {} |-> 0] >>
  ELSE LET rest == AsgSeq(Tail(vs))
           n == Head(vs)[1]
           sz == Head(vs)[2].dt
       IN [k \in 1..(sz * Len(rest)) |->
             LET i == (k - 1) \div Len(rest)  r == rest[((k - 1) % Len(rest)) + 1]
             IN [x \in DOMAIN r \cup {n} |-> IF x = n THEN Scalar(RInt(i)) ELSE r[x]]]

Override(env, asg) == [x \in DOMAIN env \cup DOMAIN asg |-> IF x \in DOMAIN asg THEN asg[x] ELSE env[x]]

RECURSIVE Eval(_, _)

EvalTen(t, env) ==
  LET sizes == [k \in 1..Len(t.ins) |-> t.ins[k][2]]
      idx == [k \in 1..Len(t.ins) |-> EnvInt(env, t.ins[k][1])]
      ev == Size(t.sh)
      base == Flat(idx, sizes) * ev
  IN IF \E k \in 1..Len(idx) : idx[k] < 0 \/ idx[k] >= sizes[k] THEN UArr
     ELSE [sh |-> t.sh, v |-> [j \in 1..ev |-> t.data[base + j]]]

\* reduce `arg` (annotated, or the internal ConBody node with a ti field) with op over vars
\* Gaussian log-density  -1/2 sum_r ( sum_d x_d S[b][d][r] - w[b][r] )^2
RECURSIVE ConcatAll(_)
ConcatAll(ss) == IF ss = <<>> THEN <<>> ELSE Head(ss) \o ConcatAll(Tail(ss))

EvalGauss(t, env) ==
  LET ints == SelectSeq(t.ins, LAMBDA q : IsBintD(q[2]))
      reals == SelectSeq(t.ins, LAMBDA q : ~IsBintD(q[2]))
      bsizes == [k \in 1..Len(ints) |-> ints[k][2].dt]
      bidx == [k \in 1..Len(ints) |-> EnvInt(env, ints[k][1])]
      b == Flat(bidx, bsizes)
      x == ConcatAll([k \in 1..Len(reals) |-> env[reals[k][1]].v])
      dim == Len(x)
      rk == t.rank
      resid(r) == Sub(FoldOpU("add", [d \in 1..dim |-> Mul(x[d], t.S[(b * dim + (d - 1)) * rk + r])]),
                      t.w[b * rk + r])
      sq == FoldOpU("add", [r \in 1..rk |-> Mul(resid(r), resid(r))])
  IN Scalar(Mul(Q(-1, 2), sq))

EvalRed(op, arg, vars, env) ==
  LET ai == arg.ti
      pv == FilterPairs(ai, Names(ai) \ Names(vars))          \* reduced and present, arg order
      absent == FilterPairs(vars, Names(ai))
      mult == SeqProd([k \in 1..Len(absent) |-> absent[k][2].dt])
  IN IF \E k \in 1..Len(vars) : ~IsBintD(vars[k][2]) THEN UArr
     ELSE LET asgs == AsgSeq(pv)
              vals == [k \in 1..Len(asgs) |-> Eval(arg, Override(env, asgs[k]))]
              folded == AFoldSeq(op, vals)
          IN IF mult = 1 THEN folded ELSE APower(op, folded, mult)

RECURSIVE CatPick(_, _, _, _)
\* find the part and the offset inside it that position pos of a Cat refers to
CatPick(parts, pn, pos, k) ==
  IF k > Len(parts) THEN <<0, 0>>
  ELSE LET sz == Lookup(parts[k].ti, pn).dt
       IN IF pos < sz THEN <<k, pos>> ELSE CatPick(parts, pn, pos - sz, k + 1)

Eval(t, env) ==
  CASE t.c = "Var" -> env[t.name]
    [] t.c = "Num" -> Scalar(t.v)
    [] t.c = "Ten" -> EvalTen(t, env)
    [] t.c = "Gauss" -> EvalGauss(t, env)
    [] t.c = "Un" -> ApplyUn(t.op, Eval(t.arg, env))
    [] t.c = "Bin" -> ApplyBin(t.op, Eval(t.l, env), Eval(t.r, env))
    [] t.c = "Red" -> EvalRed(t.op, t.arg, t.vars, env)
    [] t.c = "Sub" ->
         (LET ai == t.arg.ti
              an == Names(ai)
              keys == {n \in Names(t.subs) : n \in an}
              vals == [n \in keys |-> Eval(Lookup(t.subs, n), env)]
          IN IF \E n \in keys : HasU(vals[n]) \/ ~InDomain(vals[n], Lookup(ai, n)) THEN UArr
             ELSE Eval(t.arg, [n \in an |-> IF n \in keys THEN vals[n] ELSE env[n]]))
    [] t.c = "Slice" -> Scalar(RInt(t.start + t.step * EnvInt(env, t.name)))
    [] t.c = "Stack" -> Eval(t.parts[EnvInt(env, t.name) + 1], env)
    [] t.c = "Cat" ->
         (LET pk == CatPick(t.parts, t.pn, EnvInt(env, t.name), 1)
          IN IF pk[1] = 0 THEN UArr
             ELSE Eval(t.parts[pk[1]], Override(env, [x \in {t.pn} |-> Scalar(RInt(pk[2]))])))
    [] t.c = "Lam" ->
         StackArr([i \in 1..t.var[2].dt |->
                     Eval(t.expr, Override(env, [x \in {t.var[1]} |-> Scalar(RInt(i - 1))]))])
    [] t.c = "Indep" ->
         (LET n == Lookup(t.fn.ti, t.bv).dt
              x == env[t.rv]
              row(i) == LET rsh == Tail(x.sh) IN
                        [sh |-> rsh, v |-> SubSeq(x.v, i * Size(rsh) + 1, (i + 1) * Size(rsh))]
          IN AFoldSeq("add",
               [i \in 1..n |->
                  Eval(t.fn, Override(env, [y \in {t.bv, t.dv} |->
                         IF y = t.bv THEN Scalar(RInt(i - 1)) ELSE row(i - 1)]))]))
    [] t.c = "Con" ->
         (LET body == IF Len(t.terms) = 1 THEN t.terms[1]
                      ELSE [c |-> "ConBody", bin |-> t.bin, terms |-> t.terms,
                            ti |-> MergeLeft(<<>>, [k \in 1..Len(t.terms) |-> t.terms[k].ti])]
          IN IF t.red = "nullop" \/ t.vars = <<>> THEN Eval(body, env)
             ELSE EvalRed(t.red, body, t.vars, env))
    [] t.c = "ConBody" ->
         AFoldSeq(t.bin, [k \in 1..Len(t.terms) |-> Eval(t.terms[k], env)])
    [] t.c = "Align" -> Eval(t.arg, env)
    [] t.c = "Integ" ->
         (LET body == [c |-> "IntegBody", measure |-> t.measure, integrand |-> t.integrand,
                       ti |-> Merge(t.measure.ti, t.integrand.ti)]
          IN IF t.vars = <<>> THEN Eval(body, env) ELSE EvalRed("add", body, t.vars, env))
    [] t.c = "IntegBody" ->
         Pointwise2("mul", Pointwise1("exp", Eval(t.measure, env)), Eval(t.integrand, env))
    [] t.c = "Delta" ->
         AFoldSeq("add",
           [k \in 1..Len(t.terms) |->
              LET pt == Eval(t.terms[k][2], env) IN
              IF HasU(pt) THEN UArr
              ELSE IF env[t.terms[k][1]] = pt THEN Eval(t.terms[k][3], env)
              ELSE Scalar(NegInf)])
    [] OTHER -> UArr

-----
(* the finite table of a term and comparisons *)

\* row-major enumeration of the input space, as a sequence of environments
RECURSIVE EnvSeq(_)
EnvSeq(ins) ==
  IF ins = <<>> THEN << [x \in {} |-> 0] >>
  ELSE LET rest == EnvSeq(Tail(ins))
           n == Head(ins)[1]
           d == Head(ins)[2]
           els == IF IsBintD(d) THEN [i \in 1..d.dt |-> Scalar(RInt(i - 1))]
                  ELSE IF d.dt = 0 THEN [k \in 1..Len(RealPts) |-> RealSample(d.sh, k)]
                  ELSE <<>>
       IN [k \in 1..(Len(els) * Len(rest)) |->
             LET i == (k - 1) \div Len(rest)  r == rest[((k - 1) % Len(rest)) + 1]
             IN [x \in DOMAIN r \cup {n} |-> IF x = n THEN els[i + 1] ELSE r[x]]]

\* value table of an ANNOTATED term over its own input space
Table(t) == LET es == EnvSeq(t.ti) IN [k \in 1..Len(es) |-> Eval(t, es[k])]

TabDefined(tb) == \A k \in 1..Len(tb) : ~HasU(tb[k])
DenDefined(t) == TabDefined(Table(t))

\* annotated u has inputs among those of annotated t (names and domains)
InputsSubset(u, t) ==
  \A k \in 1..Len(u.ti) : HasName(t.ti, u.ti[k][1]) /\ Lookup(t.ti, u.ti[k][1]) = u.ti[k][2]

DenEqOver(t, u, ins) ==
  LET es == EnvSeq(ins) IN
  \A k \in 1..Len(es) : Eval(t, es[k]) = Eval(u, es[k])

\* same value at every point of t's input space, u's inputs among t's
DenEq(t, u) == InputsSubset(u, t) /\ DenEqOver(t, u, t.ti)

\* number of elements a domain contributes to the enumerated input space
AxisLen(d) == IF IsBintD(d) THEN d.dt ELSE IF d.dt = 0 THEN Len(RealPts) ELSE 0

\* the inputs the value really depends on, read off a row-major table tb of t
DependsOnTab(ins, tb) ==
  LET sizes == [p \in 1..Len(ins) |-> AxisLen(ins[p][2])]
      stride == [p \in 1..Len(ins) |-> SeqProd(SubSeq(sizes, p + 1, Len(sizes)))]
  IN {ins[p][1] : p \in {q \in 1..Len(ins) :
        \E k \in 1..Len(tb) :
          tb[k] # tb[k - (((k - 1) \div stride[q]) % sizes[q]) * stride[q]]}}

DependsOn(t) == DependsOnTab(t.ti, Table(t))
IndependentOf(t, n) == n \notin DependsOn(t)

=============================================================================
