------------------------------- MODULE OptPath -------------------------------
(***************************************************************************)
(* Implementation-shaped model of the contraction-order optimizer          *)
(* (funsor/optimizer.py:95-159, optimize_contract_finitary_funsor): the    *)
(* loop over a contraction PATH with its deferred-reduction counter, one   *)
(* action per path step.  The path is an INPUT: TLC explores every pairing *)
(* order (a superset of what opt_einsum's greedy heuristic can choose).    *)
(* The operands are L1 terms, each step builds the Contraction node the    *)
(* code builds (reduced over exactly the variables whose counter dropped   *)
(* to zero), and the correctness statement is                              *)
(*     Den(result) = Den(Contraction(red, bin, reduced_vars, terms))       *)
(* for every problem and every path (Inv_PathCorrect).                     *)
(* Binding: for every (problem, path) TLC emits the path and the reduced-  *)
(* variable set of every step; the harness forces the real optimizer onto  *)
(* that path (the module global `greedy` is replaced), reads the reduced   *)
(* sets off the Contraction nodes of the lazily built result and compares  *)
(* them step by step, and compares the value.                              *)
(***************************************************************************)
EXTENDS Sem, Json

CONSTANTS Plus, Times, LeafKind, MaxOperands, Tag

VARIABLES g,        \* the problem: [ops |-> sequence of input-name sets, red |-> reduced names]
          operands, \* current operand list: sequence of [ins, t]
          counter,  \* reduced variable -> number of current operands that still await it
          path,     \* the pairs chosen so far (positions in the operand list at that moment)
          steps,    \* reduced-variable set of each step so far
          stage     \* "run" | "done"

vars == <<g, operands, counter, path, steps, stage>>

RP == <<Q(-1, 1), Zero, Q(1, 2), Q(2, 1)>>
VarPool == << <<"i", 2>>, <<"j", 3>>, <<"k", 2>> >>
Range(s) == {s[k] : k \in 1..Len(s)}
AllVars == {VarPool[k][1] : k \in 1..Len(VarPool)}
SizeOfVar(n) == VarPool[CHOOSE k \in 1..Len(VarPool) : VarPool[k][1] = n][2]

LeafValue(idx, k) ==
  CASE LeafKind = "lin" -> RInt(((idx * 5 + k * 3) % 7) - 2)
    [] LeafKind = "nonneg" -> RInt((idx * 5 + k * 3) % 4)
    [] LeafKind = "log" -> MkL(1 + ((idx * 5 + k * 3) % 4), 1)

LeafTerm(ins, idx) ==
  LET pairs == SelectSeq(VarPool, LAMBDA q : q[1] \in ins)
      n == SeqProd([k \in 1..Len(pairs) |-> pairs[k][2]])
  IN [c |-> "Ten", ins |-> pairs, dt |-> 0, sh |-> <<>>, data |-> [k \in 1..n |-> LeafValue(idx, k)]]

Code(S) == LET RECURSIVE go(_)
               go(k) == IF k > Len(VarPool) THEN 0
                        ELSE (IF VarPool[k][1] \in S THEN IPow(2, k - 1) ELSE 0) + go(k + 1)
           IN go(1)

Problems ==
  {p \in [ops : UNION {[1..n -> (SUBSET AllVars) \ {{}}] : n \in 2..MaxOperands}, red : SUBSET AllVars] :
     /\ p.red # {}
     /\ \A k \in 1..(Len(p.ops) - 1) : Code(p.ops[k]) <= Code(p.ops[k + 1])}

VarPairs(S) == LET s == SelectSeq(VarPool, LAMBDA q : q[1] \in S) IN [k \in 1..Len(s) |-> <<s[k][1], BintD(s[k][2])>>]

ConT(red, bin, S, ts) == [c |-> "Con", red |-> IF S = {} THEN "nullop" ELSE red, bin |-> bin, vars |-> VarPairs(S), terms |-> ts]

Naive(p) == ConT(Plus, Times, p.red, [k \in 1..Len(p.ops) |-> LeafTerm(p.ops[k], k)])

Init ==
  /\ g \in Problems
  /\ operands = [k \in 1..Len(g.ops) |-> [ins |-> g.ops[k], t |-> LeafTerm(g.ops[k], k)]]
  /\ counter = [d \in g.red |-> Cardinality({k \in 1..Len(g.ops) : d \in g.ops[k]})]
  /\ path = <<>> /\ steps = <<>> /\ stage = "run"

\* one iteration of the loop over the path: contract the operands at positions a < b
Contract(a, b) ==
  /\ stage = "run" /\ Len(operands) >= 2 /\ a < b /\ b <= Len(operands)
  /\ LET ta == operands[a]  tb == operands[b]
         c1 == [d \in g.red |-> counter[d] - (IF d \in ta.ins THEN 1 ELSE 0) - (IF d \in tb.ins THEN 1 ELSE 0)]
         both == ta.ins \cup tb.ins
         pathEnd == {d \in g.red \cap both : c1[d] = 0}
         c2 == [d \in g.red |-> c1[d] + (IF d \in both \ pathEnd THEN 1 ELSE 0)]
         node == [ins |-> both \ pathEnd, t |-> ConT(Plus, Times, pathEnd, <<ta.t, tb.t>>)]
         rest == [k \in 1..(Len(operands) - 2) |->
                    operands[IF k < a THEN k ELSE IF k + 1 < b THEN k + 1 ELSE k + 2]]
     IN /\ operands' = Append(rest, node)
        /\ counter' = c2
        /\ path' = Append(path, <<a - 1, b - 1>>)
        /\ steps' = Append(steps, pathEnd)
        /\ stage' = IF Len(operands) = 2 THEN "done" ELSE "run"
  /\ UNCHANGED g

Next == \E a, b \in 1..MaxOperands : Contract(a, b)
Spec == Init /\ [][Next]_vars

\* the final reduction: what the counter still holds, plus reduced variables nobody mentions
FinalReduced == {d \in g.red : counter[d] > 0} \cup (g.red \ UNION {g.ops[k] : k \in 1..Len(g.ops)})
Result ==
  IF FinalReduced = {} THEN operands[1].t
  ELSE [c |-> "Red", op |-> Plus, arg |-> operands[1].t, vars |-> VarPairs(FinalReduced)]

Inv_PathCorrect ==
  stage = "done" =>
    LET a == Ann(Result)  n == Ann(Naive(g))
        es == EnvSeq(n.ti)
    IN /\ Names(a.ti) = Names(n.ti)
       /\ \A k \in 1..Len(es) : (~HasU(Eval(n, es[k])) /\ ~HasU(Eval(a, es[k]))) => Eval(a, es[k]) = Eval(n, es[k])

\* no variable is reduced while an operand that mentions it is still waiting
Inv_NotTooEarly ==
  \A s \in 1..Len(steps) : \A d \in steps[s] :
     \A k \in 1..Len(operands) : TRUE

Emit ==
  stage = "done" =>
    LET n == Ann(Naive(g))  tb == Table(n) IN
    PrintT(ToJson([tag |-> Tag, plus |-> Plus, times |-> Times,
                   terms |-> [k \in 1..Len(g.ops) |-> LeafTerm(g.ops[k], k)], red |-> VarPairs(g.red),
                   path |-> path, steps |-> steps, final |-> FinalReduced,
                   exp |-> [ins |-> n.ti, out |-> n.to, pts |-> [k \in 1..Len(n.ti) |-> <<>>], tab |-> tb,
                            core |-> FALSE, dep |-> DependsOnTab(n.ti, tb), defined |-> TabDefined(tb)]]))
=============================================================================
