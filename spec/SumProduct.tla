----------------------------- MODULE SumProduct -----------------------------
(***************************************************************************)
(* L2: plated sum-product (tensor variable elimination).                   *)
(*                                                                         *)
(* A plated factor graph is a sequence of factors; factor k mentions a     *)
(* set of variables and a set of plates (all of them named inputs of one   *)
(* tensor leaf with position-coded contents).  The ORACLE is the           *)
(* brute-force unrolling, built as an ordinary L1 term so that its meaning *)
(* is given by Sem!Eval and nothing else:                                  *)
(*   - eliminated plates P' = plates \cap eliminate                        *)
(*   - the ordinal of an eliminated variable = the eliminated plates       *)
(*     shared by all factors that mention it                               *)
(*   - every factor is instantiated once per index tuple of its eliminated *)
(*     plates; in the instance each eliminated variable v is renamed to    *)
(*     the copy  v_<indices of ord(v)>  (one copy per index of the plates  *)
(*     it lives in)                                                        *)
(*   - all instances are multiplied and all copies are summed out.         *)
(* Variables and plates that are not eliminated stay free inputs.          *)
(* A plate scale s acts as an exponent of the plate's product; for an      *)
(* integer s that is the same as replicating the plate s times, which is   *)
(* how the oracle expresses it: an eliminated plate of size n and scale s  *)
(* is unrolled over n*s instances, instance r reading the data at r mod n. *)
(*                                                                         *)
(* TLC enumerates every graph within the bounds and every eliminate set,   *)
(* and emits the problem together with the projection of the oracle; the   *)
(* harness runs sum_product / partial_sum_product (one call, and every     *)
(* valid split into two calls) / the modified and dynamic variants /       *)
(* plated einsum on it.                                                    *)
(***************************************************************************)
EXTENDS Sem, Json

CONSTANTS
  VarNames,     \* sequence of variable names
  PlateNames,   \* sequence of plate names
  VarSize, PlateSize,
  MaxFactors,
  Scales,       \* set of plate scales to explore, e.g. {1} or {1, 2}
  Plus, Times,  \* the semiring (op names)
  LeafKind,     \* "lin" | "log" | "nonneg" | "bool"
  CopyCap,      \* upper bound on the number of copies of eliminated variables in the oracle
  ElimAll,      \* TRUE: only problems that eliminate everything they mention
  Param,        \* TRUE: the first factor depends on a free real parameter x (never eliminated)
  Tag

VARIABLE g     \* the problem: [fs |-> sequence of [vs, ps], elim |-> set of names]

RP == IF LeafKind = "log" \/ LeafKind = "nonneg" THEN <<Q(1, 2), One, Q(2, 1), Q(3, 1)>>
      ELSE <<Q(-1, 1), Zero, Q(1, 2), Q(2, 1)>>
VN == <<"a", "b">>
PN == <<"p", "q">>
PN3 == <<"p", "q", "r">>

Range(s) == {s[k] : k \in 1..Len(s)}
AllNames == VarNames \o PlateNames
IsPlate(n) == n \in Range(PlateNames)
SizeOf(n) == IF IsPlate(n) THEN PlateSize ELSE VarSize

\* the sub-sequence of s whose elements are in set S (keeps the order of s)
RECURSIVE Pick(_, _)
Pick(s, S) == IF s = <<>> THEN <<>>
              ELSE (IF Head(s) \in S THEN <<Head(s)>> ELSE <<>>) \o Pick(Tail(s), S)

\* inputs of factor f: its plates first, then its variables (as funsor models usually do)
FactorIns(f) == [k \in 1..Len(Pick(AllNames, f.vs \cup f.ps)) |->
                   LET n == Pick(PlateNames \o VarNames, f.vs \cup f.ps)[k] IN <<n, SizeOf(n)>>]

LeafValue(idx, k) ==
  CASE LeafKind = "lin" -> RInt(((idx * 7 + k * 3) % 11) - 4)
    [] LeafKind = "nonneg" -> RInt((idx * 7 + k * 3) % 5)
    [] LeafKind = "log" -> MkL(1 + ((idx * 7 + k * 3) % 5), 1)
    [] LeafKind = "bool" -> RInt(((idx * 3 + k) \div 2) % 2)

FactorTerm(f, idx) ==
  LET ins == FactorIns(f)
      n == SeqProd([k \in 1..Len(ins) |-> ins[k][2]])
  IN [c |-> "Ten", ins |-> ins, dt |-> IF LeafKind = "bool" THEN 2 ELSE 0, sh |-> <<>>,
      data |-> [k \in 1..n |-> LeafValue(idx, k)]]

\* the factor as the harness receives it: the first one times x (times log x for log-valued
\* leaves) when the cfg asks for a free real parameter.  Inside an eliminated plate of size n
\* the parameter therefore enters the result as x^n (n log x).
ParamTerm == IF LeafKind = "log"
             THEN [c |-> "Un", op |-> [n |-> "log", p |-> <<>>], arg |-> [c |-> "Var", name |-> "x", dom |-> RealD]]
             ELSE [c |-> "Var", name |-> "x", dom |-> RealD]
FactorSym(f, idx) ==
  IF Param /\ idx = 1
  THEN [c |-> "Bin", op |-> [n |-> Times, p |-> <<>>], l |-> FactorTerm(f, idx), r |-> ParamTerm]
  ELSE FactorTerm(f, idx)

-----------------------------------------------------------------------------
(* the oracle *)

Digit == <<"0", "1", "2", "3", "4", "5", "6", "7">>

ElimPlates(p) == {n \in p.elim : IsPlate(n)}
SumVars(p) == {n \in p.elim : ~IsPlate(n)}

\* ordinal of an eliminated variable: eliminated plates common to all factors mentioning it
Ord(p, v) ==
  LET fs == {k \in 1..Len(p.fs) : v \in p.fs[k].vs} IN
  {pl \in ElimPlates(p) : \A k \in fs : pl \in p.fs[k].ps}

\* name of the copy of v at plate assignment asg (a function plate name -> index)
CopyName(p, v, asg) ==
  LET o == Pick(PlateNames, Ord(p, v))
      RECURSIVE sfx(_)
      sfx(k) == IF k > Len(o) THEN "" ELSE "_" \o o[k] \o Digit[asg[o[k]] + 1] \o sfx(k + 1)
  IN v \o sfx(1)

\* all assignments of a sequence of plate names to indices, as a sequence of functions
RECURSIVE PlateAsgs(_, _)
\* assignments of the plate names ps to instance numbers 0 .. PlateSize * scale - 1
PlateAsgs(p, ps) ==
  IF ps = <<>> THEN << [x \in {} |-> 0] >>
  ELSE LET rest == PlateAsgs(p, Tail(ps))
           n == PlateSize * p.sc[Head(ps)]
       IN [k \in 1..(n * Len(rest)) |->
             LET i == (k - 1) \div Len(rest)  r == rest[((k - 1) % Len(rest)) + 1]
             IN [x \in DOMAIN r \cup {Head(ps)} |-> IF x = Head(ps) THEN i ELSE r[x]]]

Instance(p, k, asg) ==
  LET f == p.fs[k]
      eps == Pick(PlateNames, f.ps \cap ElimPlates(p))
      svs == Pick(VarNames, f.vs \cap SumVars(p))
      subs == [j \in 1..Len(eps) |-> <<eps[j], [c |-> "Num", v |-> RInt(asg[eps[j]] % PlateSize), dt |-> PlateSize]>>]
              \o [j \in 1..Len(svs) |->
                    <<svs[j], [c |-> "Var", name |-> CopyName(p, svs[j], asg), dom |-> BintD(VarSize)]>>]
  IN IF subs = <<>> THEN FactorSym(f, k)
     ELSE [c |-> "Sub", arg |-> FactorSym(f, k), subs |-> subs]

Instances(p, k) ==
  LET asgs == PlateAsgs(p, Pick(PlateNames, p.fs[k].ps \cap ElimPlates(p)))
  IN [j \in 1..Len(asgs) |-> Instance(p, k, asgs[j])]

RECURSIVE Flatten(_)
Flatten(ss) == IF ss = <<>> THEN <<>> ELSE Head(ss) \o Flatten(Tail(ss))

RECURSIVE ProdTerm(_)
ProdTerm(ts) ==
  IF Len(ts) = 1 THEN ts[1]
  ELSE [c |-> "Bin", op |-> [n |-> Times, p |-> <<>>], l |-> ProdTerm(SubSeq(ts, 1, Len(ts) - 1)), r |-> ts[Len(ts)]]

\* all copies of an eliminated variable (only those that occur: v must be in some factor)
Copies(p, v) ==
  LET asgs == PlateAsgs(p, Pick(PlateNames, Ord(p, v)))
  IN [j \in 1..Len(asgs) |-> <<CopyName(p, v, asgs[j]), BintD(VarSize)>>]

Mentioned(p) == UNION {p.fs[k].vs \cup p.fs[k].ps : k \in 1..Len(p.fs)}

Unrolled(p) ==
  LET body == ProdTerm(Flatten([k \in 1..Len(p.fs) |-> Instances(p, k)]))
      svs == Pick(VarNames, SumVars(p) \cap Mentioned(p))
      copies == Flatten([j \in 1..Len(svs) |-> Copies(p, svs[j])])
  IN IF copies = <<>> THEN body
     ELSE [c |-> "Red", op |-> Plus, arg |-> body, vars |-> copies]

\* all eliminated variables have pairwise comparable ordinals: elimination is tractable
Comparable(p) ==
  \A u, v \in SumVars(p) \cap Mentioned(p) :
     Ord(p, u) \subseteq Ord(p, v) \/ Ord(p, v) \subseteq Ord(p, u)

\* E1 is a valid first stage of a two-call elimination:
\*  (1) a variable eliminated later must not live in a plate eliminated now (the plate's
\*      product would be taken before the variable inside it is summed out);
\*  (2) a variable eliminated now must not be shared by instances of a plate that is only
\*      eliminated later: every eliminated plate of a factor mentioning it that is outside
\*      its ordinal has to be eliminated now as well.
ValidSplit(p, E1) ==
  /\ E1 # {} /\ E1 # p.elim /\ E1 \subseteq p.elim
  /\ \A v \in (p.elim \ E1) : ~IsPlate(v) => Ord(p, v) \cap E1 = {}
  /\ \A v \in E1 : ~IsPlate(v) =>
        \A k \in 1..Len(p.fs) : v \in p.fs[k].vs =>
           ((p.fs[k].ps \cap ElimPlates(p)) \ Ord(p, v)) \subseteq E1

-----------------------------------------------------------------------------
(* enumeration of problems *)

FactorShapes == {f \in [vs : SUBSET Range(VarNames), ps : SUBSET Range(PlateNames)] : f.vs \cup f.ps # {}}

\* a canonical code to list factors in non-decreasing order (kills permutations)
Code(f) ==
  LET bit(s, n) == IF n \in f.vs \cup f.ps THEN 1 ELSE 0
      RECURSIVE go(_)
      go(k) == IF k > Len(AllNames) THEN 0 ELSE bit(f, AllNames[k]) * IPow(2, k - 1) + go(k + 1)
  IN go(1)

Problems ==
  {p \in [fs : UNION {[1..n -> FactorShapes] : n \in 1..MaxFactors}, elim : SUBSET Range(AllNames),
           sc : [Range(PlateNames) -> Scales]] :
     /\ \A pl \in Range(PlateNames) : (pl \notin p.elim \/ pl \notin Mentioned(p)) => p.sc[pl] = 1
     \* keep the brute-force oracle small: at most MaxCopies copies of eliminated variables
     /\ (\E pl \in Range(PlateNames) : p.sc[pl] # 1) =>
          SeqSum([j \in 1..Len(VarNames) |->
                    IF VarNames[j] \in p.elim /\ VarNames[j] \in Mentioned(p)
                    THEN SeqProd([q \in 1..Len(PlateNames) |->
                                    IF PlateNames[q] \in Ord(p, VarNames[j]) THEN PlateSize * p.sc[PlateNames[q]] ELSE 1])
                    ELSE 0]) <= 6
     /\ SeqSum([j \in 1..Len(VarNames) |->
                    IF VarNames[j] \in p.elim /\ VarNames[j] \in Mentioned(p)
                    THEN SeqProd([q \in 1..Len(PlateNames) |->
                                    IF PlateNames[q] \in Ord(p, VarNames[j]) THEN PlateSize * p.sc[PlateNames[q]] ELSE 1])
                    ELSE 0]) <= CopyCap
     /\ ElimAll => (p.elim = Mentioned(p) /\ \A k \in 1..Len(p.fs) : p.fs[k].vs # {})
     /\ \A k \in 1..(Len(p.fs) - 1) : Code(p.fs[k]) <= Code(p.fs[k + 1])
     /\ p.elim \subseteq Mentioned(p)
     /\ p.elim # {}}

Init == g \in Problems
Next == UNCHANGED g
Spec == Init /\ [][Next]_g

PtsOf(ins) == [k \in 1..Len(ins) |->
                 IF ins[k][2].dt = 0 THEN [j \in 1..Len(RealPts) |-> RealSample(ins[k][2].sh, j)] ELSE <<>>]

Emit ==
  LET u == Ann(Unrolled(g))
      tb == Table(u)
  IN TabDefined(tb) =>
     PrintT(ToJson([tag |-> Tag, plus |-> Plus, times |-> Times,
                    factors |-> [k \in 1..Len(g.fs) |-> FactorSym(g.fs[k], k)], param |-> Param,
                    elim |-> g.elim, plates |-> Range(PlateNames), scales |-> g.sc,
                    comparable |-> Comparable(g),
                    splits |-> {E1 \in SUBSET g.elim : ValidSplit(g, E1)},
                    exp |-> [ins |-> u.ti, out |-> u.to, pts |-> PtsOf(u.ti), tab |-> tb,
                             core |-> FALSE, dep |-> DependsOnTab(u.ti, tb)]]))

\* model-level sanity: the oracle never mentions a copy name among its inputs, and its
\* inputs are exactly the mentioned names that are not eliminated
Inv_OracleInputs ==
  LET u == Ann(Unrolled(g)) IN Names(u.ti) = (Mentioned(g) \ g.elim) \cup (IF Param THEN {"x"} ELSE {})
=============================================================================
