------------------------------ MODULE ScanWords ------------------------------
(***************************************************************************)
(* Implementation-shaped model of the parallel-scan Markov products        *)
(* (funsor/sum_product.py: sequential_sum_product, naive_..., mixed_...)   *)
(* over the FREE MONOID: the transition at time t is the letter t, the     *)
(* semiring product is concatenation, so the state of the scan is a        *)
(* sequence of words and every index-arithmetic mistake (a dropped odd     *)
(* tail, a wrong slice bound, a segment remainder spliced in the wrong     *)
(* place) shows up as a wrong word - no numbers are needed.                *)
(*                                                                         *)
(* State: ws = the current sequence of words (word = sequence of letters), *)
(* pc = which algorithm / stage.  One action per loop iteration of the     *)
(* code.  Invariants checked by TLC for every duration and every           *)
(* num_segments: the concatenation of ws is always 0 1 ... T-1 (ScanInv),  *)
(* and the final answer is that word (FinalEq).  The model also emits the  *)
(* schedule of time-slices (start, stop, step, size) each iteration takes; *)
(* the harness extracts the Slice nodes from the term the real function    *)
(* builds under `lazy` and compares them with this schedule.               *)
(***************************************************************************)
EXTENDS Integers, Sequences, FiniteSets, TLC, Json

CONSTANTS MaxT, Tag

VARIABLES T, algo, segs, ws, slices, done

vars == <<T, algo, segs, ws, slices, done>>

Letters(n) == [k \in 1..n |-> <<k - 1>>]
RECURSIVE Flatten(_)
Flatten(s) == IF s = <<>> THEN <<>> ELSE Head(s) \o Flatten(Tail(s))
Full(n) == [k \in 1..n |-> k - 1]

\* one halving step of sequential_sum_product on a sequence of words of length d:
\*   even = d div 2 * 2;  x = slice(0, even, 2), y = slice(1, even, 2);  contracted = x . y
\*   if d > even: append slice(d-1, d);   d := (d + 1) div 2
Halve(s) ==
  LET d == Len(s)
      even == (d \div 2) * 2
      pairs == [k \in 1..(even \div 2) |-> s[2 * k - 1] \o s[2 * k]]
  IN IF d > even THEN Append(pairs, s[d]) ELSE pairs

HalveSlices(d) ==
  LET even == (d \div 2) * 2 IN
  << <<0, even, 2, d>>, <<1, even, 2, d>> >> \o (IF d > even THEN << <<d - 1, d, 1, d>> >> ELSE <<>>)

RECURSIVE Scan(_)
Scan(s) == IF Len(s) <= 1 THEN s ELSE Scan(Halve(s))

RECURSIVE ScanSlices(_)
ScanSlices(d) == IF d <= 1 THEN <<>> ELSE HalveSlices(d) \o ScanSlices((d + 1) \div 2)

\* naive_sequential_sum_product: repeatedly pop the last two factors and push their product
RECURSIVE Naive(_)
Naive(s) == IF Len(s) <= 1 THEN s
            ELSE Naive(SubSeq(s, 1, Len(s) - 2) \o <<s[Len(s) - 1] \o s[Len(s)]>>)

\* mixed_sequential_sum_product(num_segments = k) on words s, transcribed from the code
RECURSIVE Mixed(_, _)
Mixed(s, k) ==
  LET d == Len(s)
      r == d % k
  IN IF r # 0 /\ d - r > 0
     THEN \* chop off the final remainder, recurse on the initial part, then fold naively
          LET initial == SubSeq(s, 1, d - r)
              remainder == SubSeq(s, d - r + 1, d)
          IN Naive(Mixed(initial, k) \o remainder)
     ELSE IF k = 1 THEN Naive(s)
     ELSE IF k >= d THEN Scan(s)
     ELSE \* k segments of equal length L: first stage folds position-wise across the
          \* stacked segments (naive over time within a segment), second stage scans the k results
          LET L == d \div k
              seg(i) == SubSeq(s, (i - 1) * L + 1, i * L)
              firstStage == [i \in 1..k |-> Flatten(seg(i))]
          IN Scan(firstStage)

Init ==
  /\ T \in 1..MaxT /\ algo \in {"sequential", "naive", "mixed"}
  /\ segs \in 1..MaxT /\ (algo # "mixed" => segs = 1) /\ segs <= T
  /\ ws = Letters(T) /\ slices = <<>> /\ done = FALSE

StepSequential ==
  /\ algo = "sequential" /\ ~done
  /\ IF Len(ws) > 1
     THEN ws' = Halve(ws) /\ slices' = slices \o HalveSlices(Len(ws)) /\ done' = FALSE
     ELSE done' = TRUE /\ UNCHANGED <<ws, slices>>
  /\ UNCHANGED <<T, algo, segs>>

StepNaive ==
  /\ algo = "naive" /\ ~done
  /\ IF Len(ws) > 1
     THEN ws' = SubSeq(ws, 1, Len(ws) - 2) \o <<ws[Len(ws) - 1] \o ws[Len(ws)]>> /\ done' = FALSE
     ELSE done' = TRUE /\ UNCHANGED ws
  /\ UNCHANGED <<T, algo, segs, slices>>

StepMixed ==
  /\ algo = "mixed" /\ ~done
  /\ ws' = Mixed(ws, segs) /\ done' = TRUE
  /\ UNCHANGED <<T, algo, segs, slices>>

Next == StepSequential \/ StepNaive \/ StepMixed
Spec == Init /\ [][Next]_vars

\* the loop invariant: the words are contiguous, in order, and cover 0 .. T-1
ScanInv == Flatten(ws) = Full(T)
FinalEq == done => ws = <<Full(T)>>
\* the functional transcriptions agree with the step machines
Inv_Functional == (done /\ algo = "sequential") => Scan(Letters(T)) = ws

Emit ==
  (done /\ algo = "sequential") =>
    PrintT(ToJson([tag |-> Tag, T |-> T, slices |-> slices, expected_slices |-> ScanSlices(T)]))
=============================================================================
