------------------------------ MODULE MarkovLag ------------------------------
(***************************************************************************)
(* Problems for the time-lagged Markov product (sarkka_bilmes_product):    *)
(* a transition tensor over time, the current state "x", one input         *)
(* "_PREV_"^L x for every lag L of the lag set, and optionally a global    *)
(* (batch) input.  The property is relational (equals its naive            *)
(* counterpart): the harness runs the naive algorithm under `lazy`, TLC    *)
(* (Judge.tla) evaluates the emitted term with the L1 denotation and the   *)
(* parallel algorithm's value is compared with that table.                 *)
(***************************************************************************)
EXTENDS Sem, Json
CONSTANTS Durations, LagSets, Periods, Plus, Times, LeafKind, Tag
VARIABLE g
RP == <<Q(-1, 1), Zero, Q(1, 2), Q(2, 1)>>
LagName(L) == CASE L = 1 -> "_PREV_x" [] L = 2 -> "_PREV__PREV_x" [] L = 3 -> "_PREV__PREV__PREV_x"
LeafValue(k) ==
  CASE LeafKind = "lin" -> RInt((k * 5 + (k \div 3)) % 3)
    [] LeafKind = "log" -> MkL(1 + ((k * 5 + (k \div 3)) % 2), 1)
LagSeq(ls) == LET RECURSIVE go(_)
                  go(L) == IF L > 3 THEN <<>> ELSE (IF L \in ls THEN <<L>> ELSE <<>>) \o go(L + 1)
              IN go(1)
TransIns(p) ==
  << <<"time", p.T>> >> \o (IF p.glob THEN << <<"b", 2>> >> ELSE <<>>)
  \o [k \in 1..Len(LagSeq(p.lags)) |-> <<LagName(LagSeq(p.lags)[Len(LagSeq(p.lags)) + 1 - k]), 2>>]
  \o << <<"x", 2>> >>
Trans(p) ==
  LET ins == TransIns(p)  n == SeqProd([k \in 1..Len(ins) |-> ins[k][2]]) IN
  [c |-> "Ten", ins |-> ins, dt |-> 0, sh |-> <<>>, data |-> [k \in 1..n |-> LeafValue(k)]]
Problems == [T : Durations, lags : LagSets, periods : Periods, glob : BOOLEAN]
Init == g \in Problems
Next == UNCHANGED g
Spec == Init /\ [][Next]_g
Emit == PrintT(ToJson([tag |-> Tag, plus |-> Plus, times |-> Times, T |-> g.T, trans |-> Trans(g),
                       lags |-> g.lags, periods |-> g.periods, glob |-> g.glob,
                       sig |-> [T |-> g.T, lags |-> g.lags, periods |-> g.periods, glob |-> g.glob]]))
=============================================================================
