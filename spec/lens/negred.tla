---------------------------- MODULE negred ----------------------------
(* negation and subtraction of REDUCTIONS in the (logaddexp | max | min, add) semirings:
   -(a + b).reduce(op, j),  c - (a + b).reduce(op, j),  and sums thereof.  Negation distributes
   over the sum inside but not over the reduction (found by a seeded fault that let the
   normaliser push the negation through a reduced Contraction). *)
EXTENDS LensCommon
L_Leaves == <<
  LogT(<<I, J>>, 1),
  LogT(<<J>>, 3),
  LogT(<<I>>, 2) >>
L_UnOps == <<Op0("neg")>>
L_BinOps == <<Op0("add"), Op0("sub")>>
L_RedOps == <<"logaddexp", "min">>
L_RedVars == << <<"j", BintD(3)>> >>
L_SubVals == <<>>
L_NewNames == <<"n">>
=============================================================================
