---------------------------- MODULE core_moreops ----------------------------
(* the ops the other core lenses do not reach: sqrt, log1p, expm1, pos; ne, le, gt;  (invert: integer-coded booleans make ~x bitwise - see C15)
   and / or / xor on booleans; logaddexp, safesub, safediv as binary ops; on tensors with
   batch inputs in different orders, event shapes, numbers and a lazy real variable *)
EXTENDS LensCommon
L_Leaves == <<
  TenI(<<I, J>>, <<>>, 0, <<0, 1, 4, 9, 16, 25>>),
  TenI(<<J>>, <<2>>, 0, <<4, 1, 0, 9, 1, 16>>),
  BoolT(<<J, I>>, 1),
  BoolT(<<I>>, 0),
  LogT(<<J, I>>, 2),
  N(4, 0),
  V("x", RealD) >>
L_UnOps == <<Op0("sqrt"), Op0("log1p"), Op0("expm1"), Op0("pos")>>
L_BinOps == <<Op0("ne"), Op0("le"), Op0("gt"), Op0("and"), Op0("or"), Op0("xor"),
              Op0("logaddexp"), Op0("safesub"), Op0("safediv")>>
L_RedOps == <<>>
L_RedVars == <<>>
L_SubVals == <<>>
L_NewNames == <<"n">>
=============================================================================
