---------------------------- MODULE prog_int ----------------------------
(* C18 lens: bounded-integer inputs over their whole range: indexing a Reals[2] input by an integer input, integer arithmetic, floordiv / mod, integer exponents *)
EXTENDS OpProgram
L_Leaves == <<
  V("i", BintD(3)), V("j", BintD(2)), V("y", Dom(0, <<2>>)), V("x", RealD), N(2, 3),
  TenS(<<>>, <<2>>, 0, <<Q(-3, 1), Q(1, 2)>>) >>
L_UnOps == <<Op0("neg")>>
L_BinOps == <<GetI(0), Op0("add"), Op0("mul"), Op0("sub"), Op0("pow"), Op0("floordiv"), Op0("mod"), Op0("lt"), Op0("max")>>
L_ConOps == <<>>
=============================================================================
