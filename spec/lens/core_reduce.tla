---------------------------- MODULE core_reduce ----------------------------
(* reductions over named inputs: every op x every subset of {i,j,k}, including
   variables the argument does not mention; linear and log-domain leaves *)
EXTENDS LensCommon
L_Leaves == <<
  Iota(<<I, J>>, <<>>, 0, 1, 1),
  Iota(<<J, K>>, <<>>, 0, 2, 3),
  Iota(<<I>>, <<2>>, 0, -2, 3),
  LogIota(<<J, I>>, <<>>, 2),
  LogIota(<<K>>, <<>>, 5),
  TenI(<<I, J>>, <<>>, 2, <<1, 0, 1, 1, 1, 0>>),
  N(3, 0),
  V("x", RealD) >>
L_UnOps == <<Op0("exp"), Op0("log")>>
L_BinOps == <<Op0("add"), Op0("mul")>>
L_RedOps == <<"add", "mul", "max", "min", "logaddexp", "and", "or">>
L_RedVars == << <<"i", BintD(2)>>, <<"j", BintD(3)>>, <<"k", BintD(2)>> >>
L_SubVals == <<>>
L_NewNames == <<"n">>
=============================================================================
