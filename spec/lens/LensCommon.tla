---------------------------- MODULE LensCommon ----------------------------
(* shared leaf builders for the TermMachine lenses *)
EXTENDS Adjoint

RP == <<Q(-1, 1), Zero, Q(1, 2), Q(2, 1)>>

\* tensor leaf whose data are the integers start, start+step, ... (a position code)
Iota(ins, sh, dt, start, step) ==
  LET n == SeqProd([k \in 1..Len(ins) |-> ins[k][2]]) * SeqProd(sh) IN
  [c |-> "Ten", ins |-> ins, dt |-> dt, sh |-> sh,
   data |-> [k \in 1..n |-> RInt(start + step * (k - 1))]]

\* same with explicit data (integers)
TenI(ins, sh, dt, xs) ==
  [c |-> "Ten", ins |-> ins, dt |-> dt, sh |-> sh, data |-> [k \in 1..Len(xs) |-> RInt(xs[k])]]

\* log-domain tensor: data are log(start + k)
LogIota(ins, sh, start) ==
  LET n == SeqProd([k \in 1..Len(ins) |-> ins[k][2]]) * SeqProd(sh) IN
  [c |-> "Ten", ins |-> ins, dt |-> 0, sh |-> sh,
   data |-> [k \in 1..n |-> MkL(start + k - 1, 1)]]

\* leaf families for the semiring lenses (second argument: first value)
LinT(ins, start) == Iota(ins, <<>>, 0, start, 1)
LogT(ins, start) == LogIota(ins, <<>>, start)
BoolT(ins, start) ==
  LET n == SeqProd([k \in 1..Len(ins) |-> ins[k][2]]) IN
  [c |-> "Ten", ins |-> ins, dt |-> 2, sh |-> <<>>,
   data |-> [k \in 1..n |-> RInt(((k + start) \div 2) % 2)]]

V(n, d) == [c |-> "Var", name |-> n, dom |-> d]
N(x, dt) == [c |-> "Num", v |-> RInt(x), dt |-> dt]
NQ(a, b) == [c |-> "Num", v |-> Q(a, b), dt |-> 0]
SliceT(n, a, b, s, dt) == [c |-> "Slice", name |-> n, start |-> a, stop |-> b, step |-> s, dt |-> dt]
I == <<"i", 2>>
J == <<"j", 3>>
K == <<"k", 2>>
=============================================================================
