SPECIFICATION Spec
CONSTANTS
  RealPts <- PtsSigned
  Leaves <- L_Leaves
  MaxLeaves = 2
  MaxOps = 3
  UnOps <- L_UnOps
  BinOps <- L_BinOpsQ
  ConOps <- L_ConOps
  ConMax = 0
  TupMax = 0
  TupNest = FALSE
  RunMachine = FALSE
  CheckModel = FALSE
  APlus = "add"
  ATimes = "mul"
  Tag = "prog_deep"
INVARIANT Inv_Fragment
INVARIANT Inv_WellFormed
INVARIANT Inv_LowerCorrect
INVARIANT Inv_SharedOnce
INVARIANT Emit
CHECK_DEADLOCK FALSE
