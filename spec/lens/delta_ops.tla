---------------------------- MODULE delta_ops ----------------------------
(* point masses: Delta(v, point, log_density) with points that are numbers, batched
   tensors and lazy expressions (bounded-integer and real valued); evaluation at and
   away from the point (Subs), addition of a funsor and reduction over the Delta's
   variable ((Delta + f).reduce(logaddexp, v) = f(v = point) + log_density) *)
EXTENDS LensCommon
V3 == <<"v", 3>>
L_Leaves == <<
  TenI(<<I>>, <<>>, 3, <<2, 0>>),
  N(1, 3),
  [c |-> "Bin", op |-> Op0("add"), l |-> V("m", BintD(2)), r |-> N(1, 2)],
  NQ(1, 2),
  LogIota(<<V3>>, <<>>, 2),
  LogIota(<<V3, I>>, <<>>, 1) >>
L_UnOps == <<>>
L_BinOps == <<Op0("add")>>
L_RedOps == <<"logaddexp">>
L_RedVars == << <<"v", BintD(3)>> >>
L_SubVals == << N(1, 3), V("w", BintD(3)), TenI(<<K>>, <<>>, 3, <<1, 2>>), NQ(1, 2), V("y", RealD) >>
L_NewNames == <<"v", "x">>
=============================================================================
