---------------------------- MODULE prog_nested ----------------------------
(* C18 lens: a Tuple inside a Tuple (lowered correctly by the model; compile_funsor mis-numbers the values after a Tuple: known finding) *)
EXTENDS OpProgram
L_Leaves == <<
  V("x", RealD), V("y", Dom(0, <<2>>)) >>
L_UnOps == <<Op0("neg")>>
L_BinOps == <<Op0("sub")>>
L_ConOps == <<>>
=============================================================================
