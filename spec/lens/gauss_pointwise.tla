---------------------------- MODULE gauss_pointwise ----------------------------
(* Gaussian funsors as L1 leaves  -1/2 ||x S - w||^2  with integer S, w (full rank, rank
   deficient, over-complete / compressed, batched, interleaved input orders) under the
   pointwise operations: sums, substitution of real values / variables / affine
   expressions / batched tensors, indexing and renaming of batch inputs, align, Cat *)
EXTENDS LensCommon
R2 == Dom(0, <<2>>)
Ints(xs) == [k \in 1..Len(xs) |-> RInt(xs[k])]
Gs(ins, rank, S, w) == [c |-> "Gauss", ins |-> ins, rank |-> rank, S |-> Ints(S), w |-> Ints(w)]
BB == <<"b", BintD(2)>>
X == <<"x", RealD>>
Y == <<"y", RealD>>
L_Leaves == <<
  Gs(<<X, Y>>, 2, <<1, 0, 1, 2>>, <<1, -1>>),
  Gs(<<BB, X>>, 1, <<2, 1>>, <<1, 0>>),
  Gs(<< <<"x", R2>> >>, 1, <<1, -1>>, <<2>>),
  Gs(<<Y, BB, X>>, 3, <<1, 0, 1, 0, 1, -1,   2, 1, 0, 0, 1, 1>>, <<0, 1, 2, 1, 0, -1>>),
  Gs(<<X>>, 3, <<1, 2, -1>>, <<0, 1, 1>>),
  Gs(<<Y, X>>, 5, <<1, 0, 1, 2, 0, 0, 1, 1, 0, -1>>, <<1, 0, 0, 1, 2>>) >>
L_UnOps == <<>>
L_BinOps == <<Op0("add")>>
L_RedOps == <<>>
L_RedVars == << <<"b", BintD(2)>> >>
Affine == [c |-> "Bin", op |-> Op0("add"),
           l |-> [c |-> "Bin", op |-> Op0("mul"), l |-> V("z", RealD), r |-> NQ(2, 1)], r |-> NQ(1, 1)]
\* an affine expression in TWO real variables, one of which the Gaussian may keep
Affine2 == [c |-> "Bin", op |-> Op0("add"), l |-> V("z", RealD),
            r |-> [c |-> "Bin", op |-> Op0("mul"), l |-> V("x", RealD), r |-> NQ(2, 1)]]
L_SubVals == <<
  NQ(1, 2),
  V("z", RealD), V("y", RealD),
  Affine, Affine2,
  Iota(<<<<"b", 2>>>>, <<>>, 0, -1, 2),
  V("v", R2), Iota(<<<<"c", 2>>>>, <<2>>, 0, 0, 1),
  N(1, 2), V("c", BintD(2)), TenI(<<<<"c", 2>>>>, <<>>, 2, <<1, 0>>) >>
L_NewNames == <<"n">>
=============================================================================
