---------------------------- MODULE prog_cmp ----------------------------
(* C18 lens: comparisons (non-commutative lt/le/gt/ge), boolean logic, invert; bounded-integer input *)
EXTENDS OpProgram
L_Leaves == <<
  V("x", RealD), V("y", Dom(0, <<2>>)), V("i", BintD(3)), NS(One), N(1, 3), NS(NegInf) >>
L_UnOps == <<Op0("invert"), Op0("neg")>>
L_BinOps == <<Op0("lt"), Op0("le"), Op0("gt"), Op0("ge"), Op0("eq"), Op0("ne"), Op0("and"), Op0("or"), Op0("xor"), Op0("sub")>>
L_ConOps == <<"and", "or">>
=============================================================================
