---------------------------- MODULE prog_arith ----------------------------
(* C18 lens: signed arithmetic incl. the non-commutative sub / truediv / pow, broadcasting against Reals[2], Number and Tensor constants, shared subexpressions *)
EXTENDS OpProgram
L_Leaves == <<
  V("x", RealD), V("y", Dom(0, <<2>>)), V("z", RealD),
  NS(Q(2, 1)), NS(Q(-1, 2)), TenS(<<>>, <<2>>, 0, <<Q(1, 2), Q(3, 1)>>) >>
L_UnOps == <<Op0("neg"), Op0("abs"), Op0("reciprocal")>>
L_BinOps == <<Op0("add"), Op0("sub"), Op0("mul"), Op0("truediv"), Op0("pow"), Op0("max"), Op0("min")>>
L_ConOps == <<>>
=============================================================================
