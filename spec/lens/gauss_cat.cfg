SPECIFICATION Spec
CONSTANTS
  RealPts <- RP
  Leaves <- L_Leaves
  MaxLeaves = 2
  MaxOps = 2
  Acts = {"Leaf", "Bin", "Cat"}
  UnOps <- L_UnOps
  BinOps <- L_BinOps
  RedOps <- L_RedOps
  RedVars <- L_RedVars
  SubVals <- L_SubVals
  NewNames <- L_NewNames
  APlus = "add"
  ATimes = "mul"
  Tag = "gauss_cat"
INVARIANT Inv_TypeSound
INVARIANT Inv_InputsDistinct
INVARIANT Emit
CHECK_DEADLOCK FALSE
