---------------------------- MODULE delta_integ ----------------------------
(* Integrate against a point mass: Integrate(Delta(v, point, ld) [+ f], integrand, {v})
   = exp(ld [+ f(point)]) * integrand(v = point); points that are numbers, batched tensors
   and lazy expressions, integrands that mention v, other inputs, or not v at all *)
EXTENDS LensCommon
V3 == <<"v", 3>>
L_Leaves == <<
  \* integrands / extra measure factors first, points last (the Delta is built on the newest leaf)
  LinT(<<V3>>, 2),
  LinT(<<V3, I>>, -1),
  LogIota(<<V3>>, <<>>, 2),
  Iota(<<V3>>, <<2>>, 0, 1, 2),
  V("y", RealD),
  LinT(<<I>>, 3),
  TenI(<<I>>, <<>>, 3, <<2, 0>>),
  N(1, 3),
  [c |-> "Bin", op |-> Op0("add"), l |-> V("m", BintD(2)), r |-> N(1, 2)] >>
L_UnOps == <<>>
L_BinOps == <<Op0("add")>>
L_RedOps == <<"logaddexp">>
L_RedVars == << <<"v", BintD(3)>> >>
L_SubVals == <<>>
L_NewNames == <<"v">>
=============================================================================
