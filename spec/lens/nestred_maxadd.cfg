SPECIFICATION Spec
CONSTANTS
  RealPts <- RP
  Leaves <- L_LeavesLog
  MaxLeaves = 2
  MaxOps = 3
  Acts = {"Leaf", "Bin", "Red"}
  UnOps <- L_UnOps
  BinOps <- L_BinAdd
  RedOps <- L_RedMaxAdd
  RedVars <- L_RedVars
  SubVals <- L_SubVals
  NewNames <- L_NewNames
  APlus = "max"
  ATimes = "add"
  Tag = "nestred_maxadd"
INVARIANT Inv_TypeSound
INVARIANT Emit
CHECK_DEADLOCK FALSE
