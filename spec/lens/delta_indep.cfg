SPECIFICATION Spec
CONSTANTS
  RealPts <- RP
  Leaves <- L_Leaves
  MaxLeaves = 1
  MaxOps = 2
  Acts = {"Leaf", "Delta", "Indep"}
  UnOps <- L_UnOps
  BinOps <- L_BinOps
  RedOps <- L_RedOps
  RedVars <- L_RedVars
  SubVals <- L_SubVals
  NewNames <- L_NewNames
  APlus = "add"
  ATimes = "mul"
  Tag = "delta_indep"
INVARIANT Inv_InputsDistinct
INVARIANT Emit
CHECK_DEADLOCK FALSE
