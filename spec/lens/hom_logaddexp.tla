---------------------------- MODULE hom_logaddexp ----------------------------
(* homogeneous sum-product expressions of the (logaddexp, add) semiring over log-valued
   tensor leaves: TLC checks the shift law Inv_Homogeneous on each (c = log 2) and emits the
   degree; the harness replays each program with every leaf shifted by -400 and +400 *)
EXTENDS LensCommon
L_Leaves == <<
  LogT(<<I, J>>, 1),
  LogT(<<J, K>>, 2),
  LogT(<<J>>, 3) >>
L_Leaves2 == << LogT(<<I, J>>, 1), LogT(<<J, K>>, 2) >>
L_RedVars2 == << <<"j", BintD(3)>>, <<"k", BintD(2)>> >>
L_UnOps == <<>>
L_BinOps == <<Op0("add"), Op0("logaddexp")>>
L_RedOps == <<"logaddexp">>
L_RedVars == << <<"i", BintD(2)>>, <<"j", BintD(3)>>, <<"k", BintD(2)>> >>
L_SubVals == <<>>
L_NewNames == <<"n">>
=============================================================================
