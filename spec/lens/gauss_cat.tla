---------------------------- MODULE gauss_cat ----------------------------
(* concatenation of Gaussians along a batch input: parts of DIFFERENT ranks (the narrower
   square-root factor is zero padded) and parts that are mixtures (Gaussian + Tensor) next to
   plain Gaussians; calibration batch 11 *)
EXTENDS LensCommon
Ints(xs) == [k \in 1..Len(xs) |-> RInt(xs[k])]
Gs(ins, rank, S, w) == [c |-> "Gauss", ins |-> ins, rank |-> rank, S |-> Ints(S), w |-> Ints(w)]
BB == <<"b", BintD(2)>>
X == <<"x", RealD>>
Y == <<"y", RealD>>
L_Leaves == <<
  Gs(<<BB, X>>, 1, <<2, 1>>, <<1, -1>>),
  Gs(<<BB, X>>, 3, <<1, 2, -1,   1, 0, 1>>, <<0, 1, 1,   2, -1, 1>>),
  Gs(<<BB, X, Y>>, 2, <<1, 0, 1, 2,   2, 1, 0, 1>>, <<1, 2, 0, -1>>),
  Gs(<<BB, X, Y>>, 3, <<1, 0, 1, 0, 1, -1,   2, 1, 0, 0, 1, 1>>, <<0, 1, 2, 1, 0, -1>>),
  Iota(<<<<"b", 2>>>>, <<>>, 0, -1, 2) >>
L_UnOps == <<>>
L_BinOps == <<Op0("add")>>
L_RedOps == <<>>
L_RedVars == << <<"b", BintD(2)>> >>
L_SubVals == <<>>
L_NewNames == <<"n">>
=============================================================================
