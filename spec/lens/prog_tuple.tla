---------------------------- MODULE prog_tuple ----------------------------
(* C18 lens: Tuple at the top of an expression *)
EXTENDS OpProgram
L_Leaves == <<
  V("x", RealD), V("y", Dom(0, <<2>>)), NS(One), V("i", BintD(2)) >>
L_UnOps == <<Op0("neg")>>
L_BinOps == <<Op0("sub"), Op0("mul"), Op0("lt")>>
L_ConOps == <<>>
=============================================================================
