---------------------------- MODULE delta_multi ----------------------------
(* point masses over TWO variables: Delta(((v, p), (u, q))).  Integrate / reduce / evaluate only
   SOME of its variables: Integrate(Delta[v,u], F, {v}) = [u = q] F(p, u) keeps the point mass
   on u (found by a seeded fault that substituted all points) *)
EXTENDS LensCommon
V3 == <<"v", 3>>
U3 == <<"u", 3>>
L_Leaves == <<
  LinT(<<V3, U3>>, 1),
  LinT(<<U3, I>>, -2),
  TenI(<<I>>, <<>>, 3, <<2, 0>>),
  N(1, 3),
  N(2, 3) >>
L_UnOps == <<>>
L_BinOps == <<Op0("add")>>
L_RedOps == <<"logaddexp">>
L_RedVars == << <<"v", BintD(3)>>, <<"u", BintD(3)>> >>
L_SubVals == << N(1, 3), N(0, 3), V("w", BintD(3)) >>
L_NewNames == <<"v", "u">>
=============================================================================
