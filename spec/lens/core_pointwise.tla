---------------------------- MODULE core_pointwise ----------------------------
EXTENDS LensCommon
L_Leaves == <<
  Iota(<<I, J>>, <<>>, 0, 1, 1),
  Iota(<<J, I>>, <<>>, 0, 7, 2),
  Iota(<<J>>, <<2>>, 0, -3, 1),
  Iota(<<K>>, <<>>, 0, 2, 3),
  Iota(<<>>, <<2>>, 0, 1, 4),
  TenI(<<I>>, <<>>, 0, <<0, 5>>),
  N(2, 0),
  V("x", RealD) >>
L_UnOps == <<Op0("neg"), Op0("abs"), Op0("exp"), Op0("log"), Op0("reciprocal")>>
L_BinOps == <<Op0("add"), Op0("sub"), Op0("mul"), Op0("truediv"), Op0("max"), Op0("min"),
              Op0("lt"), Op0("ge"), Op0("eq"), Op0("pow")>>
L_RedOps == <<>>
L_RedVars == <<>>
L_SubVals == <<>>
L_NewNames == <<"n">>
=============================================================================
