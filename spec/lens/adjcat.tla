---------------------------- MODULE adjcat ----------------------------
(* adjoints through a Cat of THREE leaves of different sizes (the window of the incoming adjoint
   that belongs to part k starts at the SUM of the previous sizes), multiplied by a weight over the
   concatenated index and summed (found by a seeded fault in adjoint_cat) *)
EXTENDS LensCommon
L_Leaves == <<
  LinT(<< <<"n", 6>> >>, 1),
  LinT(<< <<"j", 1>> >>, 5),
  LinT(<< <<"j", 2>> >>, 2),
  LinT(<< <<"j", 3>> >>, 7) >>
L_UnOps == <<>>
L_BinOps == <<Op0("mul")>>
L_RedOps == <<"add">>
L_RedVars == << <<"j", BintD(3)>>, <<"n", BintD(6)>> >>
L_SubVals == <<>>
L_NewNames == <<"n">>
=============================================================================
