---------------------------- MODULE prog_pos ----------------------------
(* C18 lens: positive sample points: sqrt, log, exp, log1p, logaddexp, truediv, pow, output reductions with parameters *)
EXTENDS OpProgram
L_Leaves == <<
  V("x", RealD), V("y", Dom(0, <<2>>)), NS(Q(2, 1)), NS(Q(1, 2)),
  TenS(<<>>, <<2>>, 0, <<Q(4, 1), Q(1, 4)>>) >>
L_UnOps == <<Op0("sqrt"), Op0("log"), Op0("exp"), Op0("log1p"), Op0("reciprocal"), Red1("sum", NoAxis, 0), Red1("sum", 0, 1), Red1("prod", -1, 0), Red1("amax", NoAxis, 0), Red1("sum", NoAxis, 1), Red1("amax", NoAxis, 1), [n |-> "getslice", p |-> <<IntP(1)>>], [n |-> "reshape", p |-> <<1, 2>>]>>
L_BinOps == <<Op0("truediv"), Op0("pow"), Op0("mul"), Op0("sub"), Op0("logaddexp")>>
L_ConOps == <<>>
=============================================================================
