---------------------------- MODULE subs_lazy ----------------------------
(* substitution into COMPOUND terms (lazy binary / reduction / Stack / Cat / Lambda over
   tensors and free variables) with maps whose values mention names that are themselves
   being substituted (simultaneity), collide with other inputs, or are fresh *)
EXTENDS LensCommon
B2 == <<"b", 2>>
C2 == <<"c", 2>>
L_Leaves == <<
  Iota(<<B2>>, <<>>, 0, 10, 10),
  Iota(<<B2, C2>>, <<>>, 0, 1, 1),
  V("x", RealD),
  V("n", BintD(2)),
  Iota(<<C2>>, <<2>>, 0, -1, 2) >>
L_UnOps == <<Op0("exp")>>
L_BinOps == <<Op0("add"), Op0("mul")>>
L_RedOps == <<"add">>
L_RedVars == << <<"c", BintD(2)>>, <<"b", BintD(2)>> >>
L_SubVals == <<
  Iota(<<B2>>, <<>>, 0, 1, 1), Iota(<<C2>>, <<>>, 0, -2, 3), NQ(1, 2), V("y", RealD),
  N(1, 2), V("c", BintD(2)), V("b", BintD(2)), V("m", BintD(2)),
  TenI(<<B2>>, <<>>, 2, <<1, 0>>), TenI(<<<<"m", 2>>>>, <<>>, 2, <<1, 1>>) >>
L_NewNames == <<"q">>
=============================================================================
