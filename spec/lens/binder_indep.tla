---------------------------- MODULE binder_indep ----------------------------
(* Independent(fn, reals_var, bint_var, diag_var): the new real input is named freshly, or
   like the diagonal variable it replaces, or like another input's neighbour; followed by
   substitutions of the new input (tensors with and without batch inputs, renamings onto
   the bound names) and reductions *)
EXTENDS LensCommon
R2 == Dom(0, <<2>>)
L_Leaves == <<
  [c |-> "Bin", op |-> Op0("mul"), l |-> Iota(<<K>>, <<>>, 0, 2, 3), r |-> V("y", RealD)],
  [c |-> "Bin", op |-> Op0("add"),
   l |-> [c |-> "Bin", op |-> Op0("mul"), l |-> Iota(<<K, I>>, <<>>, 0, 1, 1), r |-> V("y", RealD)],
   r |-> V("z", RealD)],
  [c |-> "Bin", op |-> Op0("mul"), l |-> V("y", RealD), r |-> V("y", RealD)] >>
L_UnOps == <<>>
L_BinOps == <<Op0("add")>>
L_RedOps == <<"add">>
L_RedVars == << <<"k", BintD(2)>>, <<"i", BintD(2)>> >>
L_SubVals == <<
  Iota(<<>>, <<2>>, 0, 1, 4), Iota(<<I>>, <<2>>, 0, -1, 2), V("w", R2), V("k", R2), N(1, 2) >>
L_NewNames == <<"n", "k">>
=============================================================================
