---------------------------- MODULE nestred ----------------------------
(* directly NESTED reductions with the two different ops of one semiring: the plated shape
   sum_x prod_p f, prod_p sum_x f (and logaddexp / max over add), over products of up to two
   operands, with the inner or outer variable absent from an operand.  A normaliser that
   fuses the two reductions into one (keeping one op for both variable sets) is wrong exactly
   here; calibration batch 11. *)
EXTENDS LensCommon
L_LeavesLin == <<
  LinT(<<I, J>>, 1),
  LinT(<<J>>, 2),
  LinT(<<I>>, 3) >>
L_LeavesLog == <<
  LogT(<<I, J>>, 1),
  LogT(<<J>>, 3),
  LogT(<<I>>, 2) >>
L_UnOps == <<>>
L_BinMul == <<Op0("mul")>>
L_BinAdd == <<Op0("add")>>
L_RedAddMul == <<"add", "mul">>
L_RedLogAdd == <<"logaddexp", "add">>
L_RedMaxAdd == <<"max", "add">>
L_RedVars == << <<"i", BintD(2)>>, <<"j", BintD(3)>> >>
L_SubVals == <<>>
L_NewNames == <<"n">>
=============================================================================
