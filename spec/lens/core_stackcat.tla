---------------------------- MODULE core_stackcat ----------------------------
(* Stack / Cat / Slice / substitution of slices and numbers *)
EXTENDS LensCommon
M4 == <<"m", 4>>
L_Leaves == <<
  Iota(<<I, J>>, <<>>, 0, 1, 1),
  Iota(<<J>>, <<>>, 0, 10, 2),
  Iota(<<M4>>, <<>>, 0, 20, 1),
  Iota(<<I, M4>>, <<>>, 0, 30, 1),
  Iota(<<J, I>>, <<>>, 0, 50, 3) >>
L_UnOps == <<>>
L_BinOps == <<Op0("add")>>
L_RedOps == <<"add">>
L_RedVars == << <<"j", BintD(3)>>, <<"m", BintD(4)>>, <<"n", BintD(7)>> >>
L_SubVals == <<
  N(2, 3), N(5, 7),
  SliceT("s", 0, 3, 2, 3), SliceT("m", 1, 4, 2, 4),
  SliceT("s", 2, 7, 2, 7), SliceT("n", 3, 6, 1, 7),
  \* Cat of two j-parts has size 6, of two m-parts size 8: slices (with another name) and a number
  SliceT("s", 1, 6, 2, 6), SliceT("s", 2, 8, 3, 8), N(4, 6) >>
L_NewNames == <<"n">>
=============================================================================
