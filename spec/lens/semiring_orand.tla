---------------------------- MODULE semiring_orand ----------------------------
(* sums of products in the (or, and) semiring: every subset of reduced variables
   (present in all, some or none of the operands), products of up to 3 leaves *)
EXTENDS LensCommon
L_Leaves == <<
  BoolT(<<I, J>>, 1),
  BoolT(<<J, K>>, 2),
  BoolT(<<K>>, 3),
  BoolT(<<I>>, 4),
  N(0, 2), N(1, 2) >>
L_UnOps == <<>>
L_BinOps == <<Op0("and"), Op0("or")>>
L_RedOps == <<"or">>
L_RedVars == << <<"i", BintD(2)>>, <<"j", BintD(3)>>, <<"k", BintD(2)>> >>
L_SubVals == <<>>
L_NewNames == <<"n">>
=============================================================================
