---------------------------- MODULE prog_deep ----------------------------
(* C18 lens: three constructor applications (expressions of depth up to 4, bushy and shared) over the non-commutative ops *)
EXTENDS OpProgram
L_Leaves == <<
  V("x", RealD), V("y", Dom(0, <<2>>)), NS(Q(2, 1)) >>
L_UnOps == <<Op0("neg")>>
L_BinOps == <<Op0("sub"), Op0("truediv"), Op0("lt")>>
L_ConOps == <<"mul">>
L_BinOpsQ == <<Op0("sub"), Op0("truediv")>>   \* quick configuration
=============================================================================
