---------------------------- MODULE prog_con ----------------------------
(* C18 lens: Contraction without reduction (2 and 3 terms, repeated terms) over and under unary / non-commutative binary ops *)
EXTENDS OpProgram
L_Leaves == <<
  V("x", RealD), V("y", Dom(0, <<2>>)), NS(Q(2, 1)), V("i", BintD(3)) >>
L_LeavesQ == <<V("x", RealD), V("y", Dom(0, <<2>>)), NS(Q(2, 1))>>   \* quick configuration
L_UnOps == <<Op0("neg")>>
L_BinOps == <<Op0("sub"), Op0("truediv")>>
L_ConOps == <<"add", "mul", "max">>
=============================================================================
