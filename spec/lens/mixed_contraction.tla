---------------------------- MODULE mixed_contraction ----------------------------
(* Contractions of different semirings nested in one another (non-negative data): an
   inner max- / add-reduced sum or product inside an outer sum of products, with every
   subset of reduced variables.  Exercises the distribution / hoisting rules of unfold and
   normalize where the inner term carries its own reduction. *)
EXTENDS LensCommon
\* contents are deliberately NOT monotone: the arg-max over j differs between the two
\* matrices and between rows, so that max_j(b + c) # max_j b + max_j c
L_Leaves == <<
  TenI(<<I>>, <<>>, 0, <<1, 2>>),
  TenI(<<I, J>>, <<>>, 0, <<1, 9, 0, 4, 0, 2>>),
  TenI(<<I, J>>, <<>>, 0, <<8, 1, 3, 0, 5, 1>>) >>
L_UnOps == <<>>
L_BinOps == <<Op0("mul"), Op0("add")>>
L_RedOps == <<"add", "max">>
L_RedVars == << <<"i", BintD(2)>>, <<"j", BintD(3)>> >>
L_SubVals == <<>>
L_NewNames == <<"n">>
=============================================================================
