---------------------------- MODULE delta_indep ----------------------------
(* Independent over a point mass: Independent(Delta(y, p[k], ld), ys, k, y) =
   Delta(ys, (p[0], p[1]), sum_k ld) - the log_density is counted once per plate index,
   whether or not it depends on the plate variable (found by a seeded fault) *)
EXTENDS LensCommon
L_Leaves == <<
  Iota(<<K>>, <<>>, 0, -1, 1),          \* the point p[k] = (-1, 0): the first sample point of a Reals[2] input
  Iota(<<K, I>>, <<>>, 0, -1, 1) >>
L_UnOps == <<>>
L_BinOps == <<Op0("add")>>
L_RedOps == <<"add">>
L_RedVars == << <<"k", BintD(2)>> >>
L_SubVals == <<>>
L_NewNames == <<"y", "n">>
=============================================================================
