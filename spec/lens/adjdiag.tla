---------------------------- MODULE adjdiag ----------------------------
(* adjoints through NON-INJECTIVE substitutions of a leaf: diagonals x(i=m, k=m), x(i=k),
   partial evaluation x(i=0), directly under the final reduction (the incoming adjoint is a
   Number) and multiplied by other leaves (found by a seeded fault in the transpose of Subs
   for Number sources) *)
EXTENDS LensCommon
L_Leaves == <<
  LinT(<<I, K>>, 4),
  LinT(<<K>>, 3),
  NQ(2, 1) >>
L_UnOps == <<>>
L_BinOps == <<Op0("mul"), Op0("add")>>
L_RedOps == <<"add">>
L_RedVars == << <<"i", BintD(2)>>, <<"k", BintD(2)>>, <<"m", BintD(2)>> >>
L_SubVals == << V("m", BintD(2)), V("k", BintD(2)), N(0, 2) >>
L_NewNames == <<"n">>
=============================================================================
