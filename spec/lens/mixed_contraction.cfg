SPECIFICATION Spec
CONSTANTS
  RealPts <- RP
  Leaves <- L_Leaves
  MaxLeaves = 3
  MaxOps = 2
  Acts = {"Leaf", "Con", "OrderedLeaves"}
  UnOps <- L_UnOps
  BinOps <- L_BinOps
  RedOps <- L_RedOps
  RedVars <- L_RedVars
  SubVals <- L_SubVals
  NewNames <- L_NewNames
  APlus = "add"
  ATimes = "mul"
  Tag = "mixed_contraction"
INVARIANT Inv_TypeSound
INVARIANT Emit
CHECK_DEADLOCK FALSE
