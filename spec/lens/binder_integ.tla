---------------------------- MODULE binder_integ ----------------------------
(* nestings of binder-introducing constructors (Reduce, Lambda, Cat, Subs keys)
   where every bound-name slot and every free name ranges over {a, b, c}, all of
   the same size, so that every coincidence of names is well typed *)
EXTENDS LensCommon
A == <<"a", 2>>
B == <<"b", 2>>
C == <<"c", 2>>
\* Integrate(log_measure, integrand, vars): the measure leaves are log-domain so that
\* exp(measure) is exact
L_Leaves == <<
  LogIota(<<A, B>>, <<>>, 2),
  LogIota(<<B>>, <<>>, 3),
  Iota(<<B, C>>, <<>>, 0, 5, 2),
  Iota(<<A>>, <<>>, 0, 11, 3) >>
L_UnOps == <<>>
L_BinOps == <<Op0("mul")>>
L_RedOps == <<"add">>
L_RedVars == << <<"a", BintD(2)>>, <<"b", BintD(2)>>, <<"c", BintD(2)>> >>
L_SubVals == <<
  V("a", BintD(2)), V("b", BintD(2)), V("c", BintD(2)),
  TenI(<<A>>, <<>>, 2, <<1, 0>>), TenI(<<B>>, <<>>, 2, <<1, 1>>) >>
L_NewNames == <<"c", "a">>
=============================================================================
