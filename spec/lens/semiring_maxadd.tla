---------------------------- MODULE semiring_maxadd ----------------------------
(* sums of products in the (max, add) semiring: every subset of reduced variables
   (present in all, some or none of the operands), products of up to 3 leaves *)
EXTENDS LensCommon
L_Leaves == <<
  LinT(<<I, J>>, 1),
  LinT(<<J, K>>, -3),
  LinT(<<K>>, 3),
  LinT(<<I>>, -2),
  NQ(0, 1), [c |-> "Num", v |-> NegInf, dt |-> 0] >>
L_UnOps == <<>>
L_BinOps == <<Op0("add"), Op0("max")>>
L_RedOps == <<"max">>
L_RedVars == << <<"i", BintD(2)>>, <<"j", BintD(3)>>, <<"k", BintD(2)>> >>
L_SubVals == <<>>
L_NewNames == <<"n">>
=============================================================================
