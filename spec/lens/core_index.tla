---------------------------- MODULE core_index ----------------------------
(* operations on the output (event) shape: getitem by a funsor index, basic
   slicing, reshape, output reductions with axis/keepdims, Lambda, matmul *)
EXTENDS LensCommon
Red1(n, axis, keep) == [n |-> n, p |-> <<axis, keep>>]
Red2(n, ax1, ax2, keep) == [n |-> n, p |-> <<ax1, ax2, keep>>]
Stat1(n, axis, keep, ddof) == [n |-> n, p |-> <<axis, keep, ddof>>]
IntP(i) == [k |-> "int", i |-> i]
SlcP(start, step, n) == [k |-> "slice", start |-> start, step |-> step, n |-> n]
L_Leaves == <<
  Iota(<<I>>, <<2, 3>>, 0, 1, 1),
  Iota(<<J>>, <<3>>, 0, -4, 3),
  Iota(<<>>, <<3, 2>>, 0, 2, 1),
  TenI(<<K>>, <<>>, 3, <<2, 0>>),
  TenI(<<I>>, <<>>, 2, <<1, 0>>),
  \* an operand and an index tensor with the SAME input names in different orders (equal sizes,
  \* non-symmetric contents)
  Iota(<<I, K>>, <<3>>, 0, 5, 2),
  TenI(<<K, I>>, <<>>, 3, <<2, 0, 1, 1>>),
  V("j", BintD(3)),
  N(1, 2), N(2, 3) >>
L_UnOps == <<
  Red1("sum", NoAxis, 0), Red1("sum", 0, 0), Red1("sum", -1, 1), Red1("sum", 1, 0),
  Red1("prod", -1, 0), Red1("amax", 0, 0), Red1("amin", -1, 1), Red1("amax", NoAxis, 1),
  Red1("logsumexp", 0, 0), Red1("logsumexp", NoAxis, 0),
  [n |-> "reshape", p |-> <<6>>], [n |-> "reshape", p |-> <<3, 2>>], [n |-> "reshape", p |-> <<1, 3>>],
  [n |-> "getslice", p |-> <<IntP(1)>>],
  [n |-> "getslice", p |-> <<SlcP(0, 2, 2)>>],
  [n |-> "getslice", p |-> <<SlcP(1, 1, 1), IntP(0)>>],
  [n |-> "getslice", p |-> <<IntP(0), SlcP(1, 1, 2)>>],
  Red2("sum2", 0, -1, 0), Red2("amax2", -1, 0, 0), Red2("sum2", 1, 0, 1),
  Stat1("mean", NoAxis, 0, 0), Stat1("mean", -1, 1, 0), Stat1("var", NoAxis, 0, 0), Stat1("var", 0, 0, 1),
  Stat1("var", -1, 1, 0), Stat1("std", NoAxis, 0, 0), Stat1("std", 0, 1, 0),
  Op0("log") >>
L_BinOps == <<Op0("matmul"), Op0("add")>>
L_RedOps == <<>>
L_RedVars == << <<"i", BintD(2)>>, <<"j", BintD(3)>> >>
L_SubVals == <<>>
L_NewNames == <<"n">>
=============================================================================
