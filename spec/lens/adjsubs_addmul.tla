---------------------------- MODULE adjsubs_addmul ----------------------------
(* sums of products in the (add, mul) semiring: every subset of reduced variables
   (present in all, some or none of the operands), products of up to 3 leaves *)
EXTENDS LensCommon
L_Leaves == <<
  LinT(<<I, J>>, 1),
  LinT(<<J, K>>, 2),
  LinT(<<K>>, 3),
  LinT(<<I>>, -2),
  NQ(0, 1), NQ(1, 1) >>
L_UnOps == <<>>
L_BinOps == <<Op0("mul"), Op0("add")>>
L_RedOps == <<"add">>
L_RedVars == << <<"i", BintD(2)>>, <<"j", BintD(3)>>, <<"k", BintD(2)>> >>
L_SubVals == << SliceT("z", 0, 3, 2, 3), SliceT("j", 1, 3, 1, 3), V("m", BintD(2)), V("k", BintD(2)), N(1, 3), N(0, 2) >>
L_NewNames == <<"n">>
=============================================================================
