SPECIFICATION Spec
CONSTANTS
  RealPts <- RP
  Leaves <- L_Leaves
  MaxLeaves = 3
  MaxOps = 2
  Acts = {"Leaf", "Delta2", "Integ", "Red", "Sub", "Bin", "OrderedLeaves"}
  UnOps <- L_UnOps
  BinOps <- L_BinOps
  RedOps <- L_RedOps
  RedVars <- L_RedVars
  SubVals <- L_SubVals
  NewNames <- L_NewNames
  APlus = "add"
  ATimes = "mul"
  Tag = "delta_multi"
INVARIANT Inv_InputsDistinct
INVARIANT Emit
CHECK_DEADLOCK FALSE
