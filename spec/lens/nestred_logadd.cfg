SPECIFICATION Spec
CONSTANTS
  RealPts <- RP
  Leaves <- L_LeavesLog
  MaxLeaves = 2
  MaxOps = 3
  Acts = {"Leaf", "Bin", "Red"}
  UnOps <- L_UnOps
  BinOps <- L_BinAdd
  RedOps <- L_RedLogAdd
  RedVars <- L_RedVars
  SubVals <- L_SubVals
  NewNames <- L_NewNames
  APlus = "logaddexp"
  ATimes = "add"
  Tag = "nestred_logadd"
INVARIANT Inv_TypeSound
INVARIANT Emit
CHECK_DEADLOCK FALSE
