---------------------------- MODULE core_intops ----------------------------
(* bounded-integer arithmetic: Number and Tensor operands of different sizes in both
   orders under ops whose typing rule is asymmetric (floordiv, mod) or grows the bound
   (add, mul, max, min), and comparisons *)
EXTENDS LensCommon
L_Leaves == <<
  TenI(<<I>>, <<>>, 3, <<2, 1>>),
  TenI(<<J>>, <<>>, 4, <<3, 1, 2>>),
  TenI(<<I, J>>, <<>>, 6, <<5, 1, 4, 2, 3, 1>>),
  TenI(<<>>, <<2>>, 5, <<4, 2>>),
  N(8, 9), N(2, 3), N(1, 2),
  V("n", BintD(4)) >>
L_UnOps == <<>>
L_BinOps == <<Op0("floordiv"), Op0("mod"), Op0("add"), Op0("mul"), Op0("max"), Op0("min"), Op0("lt"), Op0("eq")>>
L_RedOps == <<"max", "min">>
L_RedVars == << <<"i", BintD(2)>>, <<"j", BintD(3)>> >>
L_SubVals == <<>>
L_NewNames == <<"q">>
=============================================================================
