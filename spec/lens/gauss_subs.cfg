SPECIFICATION Spec
CONSTANTS
  RealPts <- RP
  Leaves <- L_Leaves
  MaxLeaves = 1
  MaxOps = 1
  Acts = {"Leaf", "Sub"}
  UnOps <- L_UnOps
  BinOps <- L_BinOps
  RedOps <- L_RedOps
  RedVars <- L_RedVars
  SubVals <- L_SubVals
  NewNames <- L_NewNames
  APlus = "add"
  ATimes = "mul"
  Tag = "gauss_subs"
INVARIANT Inv_TypeSound
INVARIANT Inv_InputsDistinct
INVARIANT Emit
CHECK_DEADLOCK FALSE
