SPECIFICATION Spec
CONSTANTS
  RealPts <- RP
  Leaves <- L_Leaves
  MaxLeaves = 3
  MaxOps = 3
  Acts = {"Leaf", "Bin", "Red", "Sub", "OrderedLeaves"}
  UnOps <- L_UnOps
  BinOps <- L_BinOps
  RedOps <- L_RedOps
  RedVars <- L_RedVars
  SubVals <- L_SubVals
  NewNames <- L_NewNames
  APlus = "add"
  ATimes = "mul"
  Tag = "adjslice"
INVARIANT Inv_TypeSound
INVARIANT EmitAdj
CHECK_DEADLOCK FALSE
