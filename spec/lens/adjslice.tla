---------------------------- MODULE adjslice ----------------------------
(* adjoints through a proper SLICE of a leaf that is reduced directly (the incoming adjoint is a
   Number) or only combined with constants: the transpose of the slice puts the adjoint on the
   selected positions and the unit of plus elsewhere (found by a seeded fault) *)
EXTENDS LensCommon
L_Leaves == <<
  LinT(<<J>>, -1),
  LinT(<< <<"s", 2>> >>, 3),
  NQ(2, 1) >>
L_UnOps == <<>>
L_BinOps == <<Op0("mul"), Op0("add")>>
L_RedOps == <<"add">>
L_RedVars == << <<"s", BintD(2)>>, <<"j", BintD(3)>> >>
L_SubVals == << SliceT("s", 0, 3, 2, 3), SliceT("s", 1, 3, 1, 3), N(1, 3) >>
L_NewNames == <<"n">>
=============================================================================
