SPECIFICATION Spec
CONSTANTS
  RealPts <- RP
  Leaves <- L_Leaves
  MaxLeaves = 2
  MaxOps = 1
  Acts = {"Leaf", "Bin", "Red", "Con", "OrderedLeaves"}
  UnOps <- L_UnOps
  BinOps <- L_BinOps
  RedOps <- L_RedOps
  RedVars <- L_RedVars
  SubVals <- L_SubVals
  NewNames <- L_NewNames
  APlus = "logaddexp"
  ATimes = "add"
  Tag = "neginf_contraction"
INVARIANT Inv_TypeSound
INVARIANT Emit
CHECK_DEADLOCK FALSE
