SPECIFICATION Spec
CONSTANTS
  RealPts <- PtsSigned
  Leaves <- L_Leaves
  MaxLeaves = 3
  MaxOps = 2
  UnOps <- L_UnOps
  BinOps <- L_BinOps
  ConOps <- L_ConOps
  ConMax = 0
  TupMax = 3
  TupNest = FALSE
  RunMachine = FALSE
  CheckModel = TRUE
  APlus = "add"
  ATimes = "mul"
  Tag = "prog_tuple"
INVARIANT Inv_Fragment
INVARIANT Inv_WellFormed
INVARIANT Inv_LowerCorrect
INVARIANT Inv_SharedOnce
INVARIANT Emit
CHECK_DEADLOCK FALSE
