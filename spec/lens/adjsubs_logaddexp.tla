---------------------------- MODULE adjsubs_logaddexp ----------------------------
(* sums of products in the (logaddexp, add) semiring: every subset of reduced variables
   (present in all, some or none of the operands), products of up to 3 leaves *)
EXTENDS LensCommon
L_Leaves == <<
  LogT(<<I, J>>, 1),
  LogT(<<J, K>>, 2),
  LogT(<<K>>, 3),
  LogT(<<I>>, 5),
  NQ(0, 1), [c |-> "Num", v |-> NegInf, dt |-> 0] >>
L_UnOps == <<>>
L_BinOps == <<Op0("add"), Op0("logaddexp")>>
L_RedOps == <<"logaddexp">>
L_RedVars == << <<"i", BintD(2)>>, <<"j", BintD(3)>>, <<"k", BintD(2)>> >>
L_SubVals == << SliceT("z", 0, 3, 2, 3), SliceT("j", 1, 3, 1, 3), V("m", BintD(2)), V("k", BintD(2)), N(1, 3), N(0, 2) >>
L_NewNames == <<"n">>
=============================================================================
