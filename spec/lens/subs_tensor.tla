---------------------------- MODULE subs_tensor ----------------------------
(* one tensor leaf x every substitution map: numbers, variables (fresh, colliding
   with another input, swaps, diagonals), index tensors (fresh / colliding inputs),
   slices, integer expressions; keys that are not inputs *)
EXTENDS LensCommon
I2 == <<"i", 2>>
J2 == <<"j", 2>>
K3 == <<"k", 3>>
L_Leaves == <<
  \* Slices as the term substituted INTO come first, so that a limited (prefix) run reaches them:
  \* values 1, 3, 5 of Bint[6] with input k : Bint[3]
  SliceT("k", 1, 6, 2, 6),
  SliceT("i", 0, 2, 1, 2),
  Iota(<<I2>>, <<>>, 0, 1, 1),
  Iota(<<I2, J2>>, <<>>, 0, 1, 1),
  Iota(<<J2, I2, K3>>, <<>>, 0, 1, 1),
  Iota(<<K3, I2>>, <<2>>, 0, -5, 2) >>
L_UnOps == <<>>
L_BinOps == <<>>
L_RedOps == <<>>
L_RedVars == <<>>
IdxJ == TenI(<<J2>>, <<>>, 2, <<1, 0>>)
IdxM == TenI(<<<<"m", 2>>>>, <<>>, 2, <<1, 1>>)
IdxIM3 == TenI(<<I2, <<"m", 2>>>>, <<>>, 3, <<2, 0, 1, 2>>)
IdxK2 == TenI(<<K3>>, <<>>, 2, <<0, 1, 1>>)
L_SubVals == <<
  N(1, 2), N(2, 3),
  V("i", BintD(2)), V("j", BintD(2)), V("m", BintD(2)), V("k", BintD(3)), V("p", BintD(3)),
  IdxJ, IdxM, IdxIM3, IdxK2,
  SliceT("s", 0, 3, 2, 3), SliceT("k", 1, 3, 1, 3), SliceT("m", 0, 3, 2, 3),
  SliceT("s", 0, 2, 1, 3), SliceT("p", 0, 1, 1, 2),   \* proper prefixes (the stop matters)
  [c |-> "Bin", op |-> Op0("add"), l |-> V("i", BintD(2)), r |-> N(1, 2)] >>
L_NewNames == <<"q">>
=============================================================================
