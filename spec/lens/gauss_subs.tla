---------------------------- MODULE gauss_subs ----------------------------
(* substitution into Gaussians with two batch inputs: renamings of batch inputs together
   with index tensors whose own inputs mention the renamed names, real values, swaps *)
EXTENDS LensCommon
Ints(xs) == [k \in 1..Len(xs) |-> RInt(xs[k])]
Gs(ins, rank, S, w) == [c |-> "Gauss", ins |-> ins, rank |-> rank, S |-> Ints(S), w |-> Ints(w)]
BB == <<"b", BintD(2)>>
CC == <<"c", BintD(2)>>
X == <<"x", RealD>>
Y == <<"y", RealD>>
L_Leaves == <<
  Gs(<<BB, CC, X>>, 1, <<1, 2, 3, -1>>, <<0, 1, -1, 2>>),
  Gs(<<CC, X, BB>>, 2, <<1, 0,  2, 1,  1, 1,  0, 2>>, <<1, 0, 0, 1, 2, 1, -1, 0>>),
  \* three real inputs and one batch input: partial substitution of two of the reals (the pairs are
  \* also handed to Subs in reverse input order by the harness)
  Gs(<<<<"z", RealD>>, BB, X, Y>>, 3,
     <<1, 0, 1,  0, 1, 1,  1, 0, 2,     2, 0, 1,  1, 1, 0,  0, 1, 3>>, <<1, 1, 0,  -1, 0, 2>>) >>
L_UnOps == <<>>
L_BinOps == <<>>
L_RedOps == <<>>
L_RedVars == <<>>
L_SubVals == <<
  V("k", BintD(2)), V("b", BintD(2)), N(1, 2),
  TenI(<<<<"b", 2>>>>, <<>>, 2, <<1, 0>>), TenI(<<<<"c", 2>>>>, <<>>, 2, <<1, 1>>),
  NQ(1, 2), Iota(<<<<"b", 2>>>>, <<>>, 0, -1, 2) >>
L_NewNames == <<"q">>
=============================================================================
