---------------------------- MODULE neginf_contraction ----------------------------
(* (logaddexp, add) sum-products whose tensor leaves CONTAIN minus infinity (log of a zero
   probability), including operands that mention none of the reduced variables: the
   stabilising shift of the log-space contraction has to treat -inf - (-inf); values
   (C01 / C08) and the frame condition (C20: found by a seeded fault that cleaned the shift
   in place, through an alias of the operand) *)
EXTENDS LensCommon
LT(ins, xs) == [c |-> "Ten", ins |-> ins, dt |-> 0, sh |-> <<>>,
                data |-> [k \in 1..Len(xs) |-> IF xs[k] = 0 THEN NegInf ELSE IF xs[k] < 0 THEN PosInf ELSE MkL(xs[k], 1)]]
L_Leaves == <<
  LT(<<I, J>>, <<1, 0, 3, 0, 0, 2>>),
  LT(<<J>>, <<2, 0, 5>>),
  LT(<<I>>, <<0, 3>>),
  LT(<<J, K>>, <<0, 0, 1, 2, 0, 4>>),
  \* plus infinity as well (log-sum-exp of a slice containing +inf is +inf, not NaN)
  LT(<<I, J>>, <<2, -1, 3, 1, 1, -1>>) >>
L_UnOps == <<>>
L_BinOps == <<Op0("add"), Op0("logaddexp")>>
L_RedOps == <<"logaddexp">>
L_RedVars == << <<"i", BintD(2)>>, <<"j", BintD(3)>>, <<"k", BintD(2)>> >>
L_SubVals == <<>>
L_NewNames == <<"n">>
=============================================================================
