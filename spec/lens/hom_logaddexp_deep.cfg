SPECIFICATION Spec
CONSTANTS
  RealPts <- RP
  Leaves <- L_Leaves
  MaxLeaves = 3
  MaxOps = 2
  Acts = {"Leaf", "Bin", "Red", "Con", "OrderedLeaves"}
  UnOps <- L_UnOps
  BinOps <- L_BinOps
  RedOps <- L_RedOps
  RedVars <- L_RedVars
  SubVals <- L_SubVals
  NewNames <- L_NewNames
  APlus = "logaddexp"
  ATimes = "add"
  Tag = "hom_logaddexp_deep"
INVARIANT Inv_TypeSound
INVARIANT Inv_Homogeneous
INVARIANT Emit
CHECK_DEADLOCK FALSE
