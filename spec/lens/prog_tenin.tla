---------------------------- MODULE prog_tenin ----------------------------
(* C18 lens: Tensor constants WITH named integer inputs (accepted by compile_funsor although outside the fragment the lowering model defines: known finding) *)
EXTENDS OpProgram
L_Leaves == <<
  TenS(<< <<"i", 2>> >>, <<>>, 0, <<Q(1, 1), Q(5, 1)>>),
  TenS(<< <<"i", 2>> >>, <<2>>, 0, <<Q(1, 1), Q(2, 1), Q(3, 1), Q(7, 1)>>),
  V("x", RealD), V("y", Dom(0, <<2>>)), V("i", BintD(2)) >>
L_UnOps == <<Op0("neg")>>
L_BinOps == <<Op0("sub"), Op0("add")>>
L_ConOps == <<>>
=============================================================================
