SPECIFICATION Spec
CONSTANTS
  RealPts <- RP
  Leaves <- L_LeavesLin
  MaxLeaves = 2
  MaxOps = 3
  Acts = {"Leaf", "Bin", "Red"}
  UnOps <- L_UnOps
  BinOps <- L_BinMul
  RedOps <- L_RedAddMul
  RedVars <- L_RedVars
  SubVals <- L_SubVals
  NewNames <- L_NewNames
  APlus = "add"
  ATimes = "mul"
  Tag = "nestred_addmul"
INVARIANT Inv_TypeSound
INVARIANT Emit
CHECK_DEADLOCK FALSE
