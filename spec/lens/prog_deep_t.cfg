SPECIFICATION Spec
CONSTANTS
  RealPts <- PtsSigned
  Leaves <- L_Leaves
  MaxLeaves = 3
  MaxOps = 3
  UnOps <- L_UnOps
  BinOps <- L_BinOps
  ConOps <- L_ConOps
  ConMax = 2
  TupMax = 0
  TupNest = FALSE
  RunMachine = FALSE
  CheckModel = TRUE
  APlus = "add"
  ATimes = "mul"
  Tag = "prog_deep"
INVARIANT Inv_Fragment
INVARIANT Inv_WellFormed
INVARIANT Inv_LowerCorrect
INVARIANT Inv_SharedOnce
INVARIANT Emit
CHECK_DEADLOCK FALSE
