---------------------------- MODULE subs_chain ----------------------------
(* CHAINS of substitutions f(x = g)(z = c) on compound bodies that are not sums / products
   (unary op of a tensor, so a Subs node persists under normalize) and on plain tensors;
   the second substitution touches an input the first left alone, an input the first
   introduced, or both; followed by one more operation (found by a seeded fault in the
   normaliser's substitution-fusion rule, which the single-Sub lenses never fire) *)
EXTENDS LensCommon
B2 == <<"b", 2>>
C2 == <<"c", 2>>
L_Leaves == <<
  Iota(<<B2, C2>>, <<>>, 0, 1, 2) >>
L_UnOps == <<Op0("neg")>>
L_BinOps == <<Op0("add")>>
L_RedOps == <<"add">>
L_RedVars == << <<"c", BintD(2)>>, <<"m", BintD(2)>> >>
L_SubVals == <<
  N(1, 2), V("m", BintD(2)), TenI(<<<<"m", 2>>>>, <<>>, 2, <<1, 0>>) >>
L_NewNames == <<"m">>
=============================================================================
