SPECIFICATION Spec
CONSTANTS
  RealPts <- RP
  Leaves <- L_Leaves
  MaxLeaves = 2
  MaxOps = 3
  Acts = {"Leaf", "Un", "Bin", "Red", "OrderedLeaves"}
  UnOps <- L_UnOps
  BinOps <- L_BinOps
  RedOps <- L_RedOps
  RedVars <- L_RedVars
  SubVals <- L_SubVals
  NewNames <- L_NewNames
  APlus = "logaddexp"
  ATimes = "add"
  Tag = "negred"
INVARIANT Inv_TypeSound
INVARIANT Emit
CHECK_DEADLOCK FALSE
