SPECIFICATION Spec
CONSTANT RealPts <- RPts
CHECK_DEADLOCK FALSE
