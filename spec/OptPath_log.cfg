SPECIFICATION Spec
CONSTANTS
  RealPts <- RP
  Plus = "logaddexp"
  Times = "add"
  LeafKind = "log"
  MaxOperands = 3
  Tag = "optpath_log"
INVARIANT Inv_PathCorrect
INVARIANT Emit
CHECK_DEADLOCK FALSE
