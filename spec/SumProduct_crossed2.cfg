SPECIFICATION Spec
CONSTANTS
  RealPts <- RP
  VarNames <- VN
  PlateNames <- PN
  VarSize = 2
  PlateSize = 2
  Scales = {1}
  MaxFactors = 3
  Plus = "add"
  Times = "mul"
  LeafKind = "lin"
  CopyCap = 6
  ElimAll = TRUE
  Param = FALSE
  Tag = "sp_crossed2"
INVARIANT Inv_OracleInputs
INVARIANT Emit
CHECK_DEADLOCK FALSE
