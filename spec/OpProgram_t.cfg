SPECIFICATION Spec
CONSTANTS
  RealPts <- PtsSigned
  Leaves <- MT_Leaves
  MaxLeaves = 2
  MaxOps = 2
  UnOps <- MT_UnOps
  BinOps <- MT_BinOps
  ConOps <- MT_ConOps
  ConMax = 3
  TupMax = 2
  TupNest = FALSE
  RunMachine = TRUE
  CheckModel = TRUE
  Tag = "model"
INVARIANT Inv_WellFormed
INVARIANT Inv_LowerCorrect
INVARIANT Inv_SharedOnce
INVARIANT Inv_RunEq
INVARIANT Inv_Result
INVARIANT Inv_Reject
INVARIANT Inv_EnvShape
INVARIANT Inv_Fragment
CHECK_DEADLOCK FALSE
