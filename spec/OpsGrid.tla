-------------------------------- MODULE OpsGrid --------------------------------
(***************************************************************************)
(* C15, S->C: TLC enumerates operand arrays assembled from the carrier     *)
(* grid and computes the expectation of funsor.ops.<op> on them with the   *)
(* exact algebra (OpsAlgebra.Expect1/2, Values.ReduceArr); every state is  *)
(* printed as one JSON record and replayed by harness/opsdriver.py on      *)
(* Python scalars, 0-d arrays, numpy scalars and arrays.                   *)
(*                                                                         *)
(* A state is <<kind, op, shape_a, shape_b, offset_a, offset_b, axis, keepdims>>: *)
(*   "bin"  binary op on Fill(shape_a, offset_a) and Fill(shape_b, offset_b)*)
(*   "un"   unary op on Fill(shape_a, offset_a)                            *)
(*   "red"  reduction (sum, prod, amax, amin, all, any, logsumexp)         *)
(*   "lim"  hand-stated float-range limit case number offset_a             *)
(* Fill walks cyclically through the op's grid sequence starting at the    *)
(* offset, so the scalar pairs (shape () x ()) are exactly grid x grid and *)
(* every pair of grid values also meets at every broadcast position.       *)
(* Offset -1 is the array of -inf only, offset -2 has a first row of -inf. *)
(***************************************************************************)
EXTENDS OpsMeaning

CONSTANT Shapes

ShapesQuick == {<<>>, <<2>>, <<3, 1>>, <<3, 2>>}
ShapesThorough == {<<>>, <<1>>, <<2>>, <<3>>, <<1, 2>>, <<3, 1>>, <<2, 2>>, <<3, 2>>}

\* "crossed with random values": four rationals outside the grid, chosen by the run's seed
\* (env C15_SEED); the exact algebra covers them for the field ops and comparisons, the
\* other ops are checked for agreement across operand kinds on them
Seed == atoi(IOEnv.C15_SEED)
RandQ(i) == Q(((Seed * 31 + i * 17) % 19) - 9, ((Seed * 7 + i * 5) % 7) + 2)
RandSeq == <<RandQ(1), RandQ(2), RandQ(3), RandQ(4)>>

NumSeq == <<Zero, One, RInt(-1), RInt(2), RInt(-2), Half, NegInf, PosInf>> \o RandSeq
\* log-domain operands; the three linear values at the end only meet -inf exactly,
\* with each other they are "inside the domain, not expressible" (agreement only)
LaeSeq == <<Zero, MkL(2, 1), NegInf, MkL(1, 2), MkL(3, 1), One, RInt(-2), Half>>
LseSeq == <<Zero, MkL(2, 1), NegInf, MkL(1, 2), MkL(3, 1), NegInf, MkL(3, 2)>>
SumSeq == <<Zero, One, RInt(-1), RInt(2), RInt(-2), Half, NegInf>>
BoolSeq == <<Zero, One>>
UnSeq == NumSeq \o <<MkL(2, 1), MkL(1, 2), MkL(3, 1), RInt(4), Q(1, 4)>>

GridBinOps == BinOps
GridUnOps == UnOps \ {"invert"}
RedOps == {"sum", "prod", "amax", "amin", "all", "any", "logsumexp"}

SeqFor(kind, op) ==
  CASE op \in LogicOps \cup {"invert", "all", "any"} -> BoolSeq
    [] op \in LaeOps -> LaeSeq
    [] op = "logsumexp" -> LseSeq
    [] op \in {"sum", "prod"} -> SumSeq
    [] kind = "un" -> UnSeq
    [] OTHER -> NumSeq

Fill(sh, o, seq) ==
  Arr(sh, [k \in 1..Size(sh) |->
             IF o = -1 THEN NegInf
             ELSE IF o = -2 /\ k <= Size(Tail(sh)) THEN NegInf
             ELSE seq[((IAbs(o) + k - 1) % Len(seq)) + 1]])

\* offsets: all of them when an operand is a scalar, every second one for operand a otherwise
OffsA(sha, shb, n) ==
  IF Size(sha) = 1 \/ Size(shb) = 1 THEN 0..(n - 1) ELSE {o \in 0..(n - 1) : o % 2 = 0}

BinStates ==
  UNION {UNION {{<<"bin", op, sha, shb, oa, ob, 0, 0>> :
                   oa \in OffsA(sha, shb, Len(SeqFor("bin", op))),
                   ob \in 0..(Len(SeqFor("bin", op)) - 1)}
                : op \in GridBinOps}
         : <<sha, shb>> \in {p \in Shapes \X Shapes : BroadcastShape(p[1], p[2]) # <<-1>>}}

UnStates ==
  {<<"un", op, sh, <<>>, oa, 0, 0, 0>> : op \in GridUnOps, sh \in Shapes, oa \in 0..(Len(UnSeq) - 1)}
  \cup {<<"un", "invert", sh, <<>>, oa, 0, 0, 0>> : sh \in Shapes, oa \in 0..1}

RedOffs(op, sh) ==
  0..(Len(SeqFor("red", op)) - 1)
  \cup (IF op \in {"logsumexp", "amax", "amin", "sum"}
        THEN {-1} \cup (IF Len(sh) >= 1 THEN {-2} ELSE {}) ELSE {})
RedAxes(sh) == {NoAxis} \cup (IF Len(sh) >= 1 THEN {0, -1} ELSE {})

RedStates ==
  UNION {{<<"red", op, sh, <<>>, oa, 0, ax, kd>> : oa \in RedOffs(op, sh), ax \in RedAxes(sh), kd \in {0, 1}}
         : <<op, sh>> \in RedOps \X Shapes}

-----------------------------------------------------------------------------
(* "near the float range boundary": HAND-STATED limit cases.  The exact     *)
(* algebra cannot reason about rounding, so these are not computed; they    *)
(* are stated here with the rule used.  F = largest finite float, T =       *)
(* smallest positive float, as symbolic scalars <<"F",+-1,1>>, <<"T",1,1>>. *)
(*   R1  logaddexp(x, y) = max(x, y) when the gap exceeds 745 (exp          *)
(*       underflows) and F + log 2 rounds to F, -F + log 2 rounds to -F     *)
(*   R2  logsumexp / log-einsum are iterated logaddexp, same rule           *)
(*   R3  -inf < -F < 0 < T < F < +inf for max / min; F + (-F) = 0           *)
(*   R4  a safe op may saturate +inf to F (PIS)                             *)

F == <<"F", 1, 1>>
NF == <<"F", -1, 1>>
T == <<"T", 1, 1>>
Vec(v) == Arr(<<Len(v)>>, v)

Lim(op, args, axis, eq, exp, why) ==
  [kind |-> "lim", op |-> op, args |-> args, axis |-> axis, eq |-> eq, exp |-> exp, why |-> why]

Limits == <<
  Lim("logaddexp", <<Scalar(F), Scalar(F)>>, NoAxis, "", Scalar(F), "R1: F + log 2 rounds to F; a naive exp(F) overflows"),
  Lim("logaddexp", <<Scalar(F), Scalar(NF)>>, NoAxis, "", Scalar(F), "R1: exp(-2F) underflows to 0"),
  Lim("logaddexp", <<Scalar(NF), Scalar(F)>>, NoAxis, "", Scalar(F), "R1"),
  Lim("logaddexp", <<Scalar(NF), Scalar(NF)>>, NoAxis, "", Scalar(NF), "R1: a naive exp(-F) underflows to log 0"),
  Lim("logaddexp", <<Scalar(NF), Scalar(NegInf)>>, NoAxis, "", Scalar(NF), "R1, -inf is the unit"),
  Lim("logaddexp", <<Scalar(NegInf), Scalar(NF)>>, NoAxis, "", Scalar(NF), "R1, -inf is the unit"),
  Lim("logaddexp", <<Scalar(F), Scalar(NegInf)>>, NoAxis, "", Scalar(F), "R1, -inf is the unit"),
  Lim("logaddexp", <<Scalar(NF), Scalar(Zero)>>, NoAxis, "", Scalar(Zero), "R1"),
  Lim("logaddexp", <<Scalar(T), Scalar(T)>>, NoAxis, "", Scalar(MkL(2, 1)), "T is 0 within tolerance: log 2"),
  Lim("logaddexp", <<Vec(<<F, NF, NegInf>>), Vec(<<F, NF, NF>>)>>, NoAxis, "", Vec(<<F, NF, NF>>), "R1 elementwise"),
  Lim("logaddexp", <<Scalar(NF), Vec(<<F, NF, NegInf>>)>>, NoAxis, "", Vec(<<F, NF, NF>>), "R1 scalar with array"),
  Lim("logsumexp", <<Vec(<<F, F, NF>>)>>, NoAxis, "", Scalar(F), "R2"),
  Lim("logsumexp", <<Vec(<<NF, NF>>)>>, NoAxis, "", Scalar(NF), "R2"),
  Lim("logsumexp", <<Vec(<<NF, NegInf>>)>>, NoAxis, "", Scalar(NF), "R2"),
  Lim("logsumexp", <<Arr(<<2, 2>>, <<F, NegInf, NegInf, NegInf>>)>>, 1, "", Vec(<<F, NegInf>>), "R2 with an all -inf row"),
  Lim("einsum_log", <<Vec(<<F, F>>)>>, NoAxis, "a->", Scalar(F), "R2"),
  Lim("einsum_log", <<Vec(<<NF, NegInf>>), Vec(<<Zero, Zero>>)>>, NoAxis, "a,a->", Scalar(NF), "R2"),
  Lim("einsum_log", <<Arr(<<2, 2>>, <<NF, NF, NegInf, NegInf>>)>>, NoAxis, "ab->a", Vec(<<NF, NegInf>>), "R2 with an all -inf row"),
  Lim("einsum_map", <<Vec(<<F, NF>>), Vec(<<NF, NegInf>>)>>, NoAxis, "a,a->", Scalar(Zero), "R3: max(F - F, -F - inf) = 0"),
  Lim("max", <<Scalar(F), Scalar(PosInf)>>, NoAxis, "", Scalar(PosInf), "R3"),
  Lim("max", <<Scalar(F), Scalar(NF)>>, NoAxis, "", Scalar(F), "R3"),
  Lim("min", <<Scalar(NF), Scalar(NegInf)>>, NoAxis, "", Scalar(NegInf), "R3"),
  Lim("min", <<Scalar(T), Scalar(Zero)>>, NoAxis, "", Scalar(Zero), "R3"),
  Lim("add", <<Scalar(F), Scalar(NF)>>, NoAxis, "", Scalar(Zero), "R3"),
  Lim("exp", <<Scalar(NF)>>, NoAxis, "", Scalar(Zero), "exp underflows to 0"),
  Lim("reciprocal", <<Scalar(T)>>, NoAxis, "", Scalar(PosSat), "R4: 1/T overflows"),
  Lim("safediv", <<Scalar(One), Scalar(T)>>, NoAxis, "", Scalar(PosSat), "R4: 1/T overflows"),
  Lim("safesub", <<Scalar(Zero), Scalar(NF)>>, NoAxis, "", Scalar(F), "0 - (-F) = F")
>>

LimStates == {<<"lim", "", <<>>, <<>>, i, 0, 0, 0>> : i \in 1..Len(Limits)}

-----------------------------------------------------------------------------

ExpBin(op, A, B) ==
  LET sh == BroadcastShape(A.sh, B.sh) IN
  Arr(sh, [k \in 1..Size(sh) |->
             LET idx == Unflat(k - 1, sh) IN Expect2(op, BAt(A, idx), BAt(B, idx))])

ExpUn(op, A) == Arr(A.sh, [k \in 1..Len(A.v) |-> Expect1(op, A.v[k])])

Rec(g) ==
  LET seq == SeqFor(g[1], g[2]) IN
  CASE g[1] = "bin" ->
         LET A == Fill(g[3], g[5], seq)  B == Fill(g[4], g[6], seq) IN
         [kind |-> "bin", op |-> g[2], a |-> A, b |-> B, exp |-> ExpBin(g[2], A, B)]
    [] g[1] = "un" ->
         LET A == Fill(g[3], g[5], seq) IN
         [kind |-> "un", op |-> g[2], a |-> A, exp |-> ExpUn(g[2], A)]
    [] g[1] = "red" ->
         LET A == Fill(g[3], g[5], seq) IN
         [kind |-> "red", op |-> g[2], a |-> A, axis |-> g[7], keep |-> g[8],
          exp |-> ReduceArr(g[2], A, g[7], g[8] = 1)]
    [] OTHER -> Limits[g[5]]

VARIABLE g

Init == g \in BinStates \cup UnStates \cup RedStates \cup LimStates
Next == FALSE /\ UNCHANGED g
Emit == PrintT(ToJson(Rec(g)))

=============================================================================
