-------------------------- MODULE Trace_InterpStack --------------------------
(***************************************************************************)
(* C17, C->S: judge of traces recorded from the real library.              *)
(*                                                                         *)
(* harness/stackdriver.py replaces funsor.interpreter._STACK by a list     *)
(* that logs every append/pop (so every push_interpretation /              *)
(* pop_interpretation of the library is seen, also the temporary ones made *)
(* by substitution and by the adjoint tape while a probe term is built)    *)
(* and interleaves the driver's own markers.  One event per ndjson line,   *)
(* one TLC state per line, one printed verdict per line.  A file holds     *)
(* many runs; each starts with "begin" (which resets the model) and a      *)
(* failing line kills only the rest of its run (later lines of that run    *)
(* get ok = TRUE, skipped = TRUE).                                         *)
(*                                                                         *)
(* every line: {id, ev, kind, mode, s, stack, p, cls, taped, flag}         *)
(*   begin        stack                    observed stack before the run   *)
(*   will_enter   kind, mode               driver is about to enter        *)
(*   push         s                        _STACK.append(frame), s = repr  *)
(*   pop          s                        _STACK.pop() returned s         *)
(*   entered      stack                    first statement of the body     *)
(*   enter_failed stack                    __enter__ raised AssertionError *)
(*   will_exit                             last statement of the body      *)
(*   raise                                 driver raises its exception     *)
(*   exited       stack, flag=normal|exc   the block has been left         *)
(*   catch                                 the exception was caught        *)
(*   probe_begin  p                        driver builds probe term p      *)
(*   probe_end    p, cls, taped, stack     class of the result, tapes hit  *)
(*   end          stack                    run over                        *)
(***************************************************************************)
EXTENDS InterpFrames, TLC, Json, IOUtils

VARIABLES l, st, dead

TLog == ndJsonDeserialize(IOEnv.TRACE_FILE)

S0 == [stack |-> BaseStack, open |-> <<>>, phase |-> "idle", pend |-> "",
       flying |-> FALSE, temps |-> <<>>]

Top == st.stack[Len(st.stack)]
PopSeq(s) == SubSeq(s, 1, Len(s) - 1)

Fail(c, want) == [ok |-> FALSE, clause |-> c, want |-> want, s |-> st]
Ok(s2)        == [ok |-> TRUE, clause |-> "", want |-> <<>>, s |-> s2]
Here          == StackStr(st.stack)

JWillEnter(e) ==
  IF st.phase = "idle" /\ ~st.flying /\ e.kind \in AllKinds
  THEN Ok([st EXCEPT !.phase = "entering", !.pend = e.kind])
  ELSE Fail("enter_out_of_place", <<>>)

JPush(e) ==
  IF st.phase = "probe" THEN Ok([st EXCEPT !.temps = Append(@, e.s)])
  ELSE IF st.phase # "entering" THEN Fail("unexpected_push", <<>>)
  ELSE IF Overflows(st.pend, Top) THEN Fail("push_on_overflow", <<>>)
  ELSE LET fr == EnterFrame(st.pend, Top, Len(st.open) + 1) IN
       IF FrameStr(fr) # e.s THEN Fail("pushed_frame", <<FrameStr(fr)>>)
       ELSE Ok([st EXCEPT !.stack = Append(@, fr),
                          !.open = Append(@, [kind |-> st.pend, snap |-> st.stack]),
                          !.phase = "pushed"])

JEntered(e) ==
  IF st.phase # "pushed" THEN Fail("enter_without_push", <<>>)
  ELSE IF e.stack # Here THEN Fail("stack_after_enter", Here)
  ELSE Ok([st EXCEPT !.phase = "idle"])

JEnterFailed(e) ==
  IF st.phase # "entering" THEN Fail("failed_enter_pushed", <<>>)
  ELSE IF ~Overflows(st.pend, Top) THEN Fail("enter_failed_unexpectedly", <<>>)
  ELSE IF e.stack # Here THEN Fail("stack_after_failed_enter", Here)
  ELSE Ok([st EXCEPT !.phase = "idle", !.flying = TRUE])

JWillExit(e) ==
  IF st.phase = "idle" /\ ~st.flying /\ st.open # <<>>
  THEN Ok([st EXCEPT !.phase = "leaving"]) ELSE Fail("exit_out_of_place", <<>>)

JRaise(e) ==
  IF st.phase = "idle" /\ ~st.flying /\ st.open # <<>>
  THEN Ok([st EXCEPT !.flying = TRUE]) ELSE Fail("raise_out_of_place", <<>>)

JPop(e) ==
  IF st.phase = "probe"
  THEN IF st.temps = <<>> THEN Fail("probe_popped_block_frame", <<>>)
       ELSE IF st.temps[Len(st.temps)] # e.s THEN Fail("probe_pop_mismatch", <<st.temps[Len(st.temps)]>>)
       ELSE Ok([st EXCEPT !.temps = PopSeq(@)])
  ELSE IF ~(st.phase = "leaving" \/ (st.phase = "idle" /\ st.flying)) THEN Fail("unexpected_pop", <<>>)
  ELSE IF Len(st.stack) <= 2 \/ st.open = <<>> THEN Fail("base_popped", <<>>)      \* BaseNeverPopped
  ELSE IF FrameStr(Top) # e.s THEN Fail("popped_frame", <<FrameStr(Top)>>)
  ELSE LET ns == PopSeq(st.stack) IN
       IF ns # st.open[Len(st.open)].snap THEN Fail("restore", <<>>)               \* Restore
       ELSE Ok([st EXCEPT !.stack = ns, !.open = PopSeq(@), !.phase = "left"])

JExited(e) ==
  IF st.phase # "left" THEN Fail("exit_without_pop", <<>>)
  ELSE IF e.stack # Here THEN Fail("stack_after_exit", Here)
  ELSE IF (e.flag = "exc") # st.flying THEN Fail("exit_mode", <<>>)
  ELSE Ok([st EXCEPT !.phase = "idle"])

JCatch(e) ==
  IF st.phase = "idle" /\ st.flying THEN Ok([st EXCEPT !.flying = FALSE])
  ELSE Fail("catch_out_of_place", <<>>)

JProbeBegin(e) ==
  IF st.phase = "idle" /\ e.p \in Probes THEN Ok([st EXCEPT !.phase = "probe", !.pend = e.p])
  ELSE Fail("probe_out_of_place", <<>>)

JProbeEnd(e) ==
  IF st.phase # "probe" \/ st.pend # e.p THEN Fail("probe_out_of_place", <<>>)
  ELSE IF st.temps # <<>> THEN Fail("probe_left_frames", st.temps)
  ELSE IF e.stack # Here THEN Fail("stack_after_probe", Here)
  ELSE LET a == Ans(Top, e.p) IN                                                   \* Innermost
       IF e.cls # a.cls THEN Fail("probe_class", <<a.cls>>)
       ELSE IF e.taped # a.taped THEN Fail("probe_tapes", <<>>)
       ELSE Ok([st EXCEPT !.phase = "idle", !.pend = ""])

JEnd(e) ==
  IF st.phase = "idle" /\ ~st.flying /\ st.open = <<>> /\ st.stack = BaseStack /\ e.stack = Here
  THEN Ok(st) ELSE Fail("not_unwound_at_end", Here)

Judge(e) ==
  CASE e.ev = "will_enter"   -> JWillEnter(e)
    [] e.ev = "push"         -> JPush(e)
    [] e.ev = "entered"      -> JEntered(e)
    [] e.ev = "enter_failed" -> JEnterFailed(e)
    [] e.ev = "will_exit"    -> JWillExit(e)
    [] e.ev = "raise"        -> JRaise(e)
    [] e.ev = "pop"          -> JPop(e)
    [] e.ev = "exited"       -> JExited(e)
    [] e.ev = "catch"        -> JCatch(e)
    [] e.ev = "probe_begin"  -> JProbeBegin(e)
    [] e.ev = "probe_end"    -> JProbeEnd(e)
    [] e.ev = "end"          -> JEnd(e)
    [] OTHER                 -> Fail("unknown_event", <<>>)

Out(r) == PrintT(ToJson(r))

Init == l = 1 /\ st = S0 /\ dead = FALSE

Next ==
  /\ l <= Len(TLog)
  /\ l' = l + 1
  /\ LET e == TLog[l] IN
     IF e.ev = "begin"
     THEN LET good == e.stack = StackStr(BaseStack) IN
          /\ st' = S0
          /\ dead' = ~good
          /\ Out([id |-> e.id, ok |-> good, clause |-> IF good THEN "" ELSE "base_at_begin",
                  skipped |-> FALSE, want |-> StackStr(BaseStack)])
     ELSE IF dead
     THEN /\ UNCHANGED <<st, dead>>
          /\ Out([id |-> e.id, ok |-> TRUE, clause |-> "", skipped |-> TRUE, want |-> <<>>])
     ELSE LET r == Judge(e) IN
          /\ st' = r.s
          /\ dead' = ~r.ok
          /\ Out([id |-> e.id, ok |-> r.ok, clause |-> r.clause, skipped |-> FALSE, want |-> r.want])

Spec == Init /\ [][Next]_<<l, st, dead>>
=============================================================================
