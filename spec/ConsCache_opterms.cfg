\* lazy terms built through parametrised ops over fresh array domains (op, domain and type caches observed)
SPECIFICATION Spec
CONSTANTS
  LensName = "opterms"
  KeepAlive = TRUE
  MaxDepth = 4
  EmitDepth = 4
  MaxAlloc = 0
  CollectAlways = FALSE
  InterpMode = "cycle"
  Focus = {}
  Kinds = {}
  WithEval = FALSE
  NAddrs = 3
  Canon = FALSE
INVARIANT Unique
INVARIANT WeakLive
INVARIANT NoDangling
INVARIANT WeakEmpty
INVARIANT NoStale
INVARIANT Emit
CHECK_DEADLOCK FALSE
