SPECIFICATION Spec
CONSTANTS
  RealPts <- RP
  VarNames <- VN
  PlateNames <- PN
  VarSize = 2
  PlateSize = 2
  Scales = {1, 2, 3}
  MaxFactors = 2
  Plus = "add"
  Times = "mul"
  LeafKind = "lin"
  CopyCap = 99
  ElimAll = FALSE
  Param = FALSE
  Tag = "sp_scaled123"
INVARIANT Inv_OracleInputs
INVARIANT Emit
CHECK_DEADLOCK FALSE
