SPECIFICATION Spec
CONSTANTS
  RealPts <- RP
  Durations = {1,2,3,4,5,7,9}
  Sizes = {2}
  MaxPairs = 2
  Plus = "logaddexp"
  Times = "add"
  LeafKind = "log"
  MaxParamT = 6
  Tag = "mk_logaddexp_q"
INVARIANT Inv_FoldInputs
INVARIANT Emit
CHECK_DEADLOCK FALSE
