----------------------------- MODULE InterpStack -----------------------------
(***************************************************************************)
(* C17: interpretation contexts nest and unwind like a stack.              *)
(*                                                                         *)
(* Implementation-shaped machine: `stack` is funsor.interpreter._STACK     *)
(* (a sequence of frames, see InterpFrames), `open` the lexical blocks     *)
(* (with-statements / decorated calls) that are currently open, each with  *)
(* the stack it saw on entry, `exc` whether an exception is propagating.   *)
(* Every state carries its history; the invariant Emit prints one JSON     *)
(* record per state (history, expected stack as frame strings, expected    *)
(* answer of every probe) which harness/stackdriver.py replays against the *)
(* real library with real with-statements.                                 *)
(*                                                                         *)
(* history operations (one string per step)                                *)
(*   W:<kind>   with <kind>:              entered                          *)
(*   D:<kind>   @<kind> def f(): ...; f() entered                          *)
(*   WF:<kind> / DF:<kind>  the entry fails in __enter__ (priority list    *)
(*              would reach 10 items): nothing pushed, AssertionError      *)
(*              propagates in the enclosing block                          *)
(*   X          innermost block left normally                              *)
(*   R          a user exception is raised in the body of the innermost    *)
(*              open block (at this point of the history)                  *)
(*   Z          the propagating exception leaves the innermost block       *)
(*   C          the exception is caught here (try/except around the block  *)
(*              that was just unwound, or around the failed entry)         *)
(* Probes are not history steps: every state carries the expected answer   *)
(* of every probe (AnsAll of the top frame) and the driver asks them after *)
(* every step; that a probe leaves the stack unchanged is checked there.   *)
(***************************************************************************)
EXTENDS InterpFrames, TLC, Json

CONSTANTS
  Kinds,       \* subset of AllKinds that may be entered
  Modes,       \* subset of {"with", "deco"}
  MaxDepth,    \* bound on lexical nesting
  MaxEnters,   \* bound on the number of entries in one history
  MaxRaises,   \* bound on the number of injected exceptions in one history
  MaxDeco,     \* bound on the number of decorator entries in one history
  Siblings,    \* FALSE: blocks are only entered during the initial descent (one chain)
  First        \* sharding: set of operations a history may start with ({} = any)

VARIABLES stack, open, exc, hist, nent, nraise, ndeco

vars == <<stack, open, exc, hist, nent, nraise, ndeco>>

Top == stack[Len(stack)]
Pop(s) == SubSeq(s, 1, Len(s) - 1)

OpName(m, k, fails) ==
  (IF m = "with" THEN "W" ELSE "D") \o (IF fails THEN "F:" ELSE ":") \o k

FirstOps ==
  IF First # {} THEN First ELSE {OpName(m, k, FALSE) : m \in Modes, k \in Kinds}

Init ==
  /\ stack = BaseStack
  /\ open = <<>>
  /\ exc = "none"
  /\ hist = <<>>
  /\ nent = 0 /\ nraise = 0 /\ ndeco = 0

\* Interpretation.__enter__ (directly, through ContextDecorator.__call__, or
\* through the generator of memoize())
CanEnter ==
  /\ exc = "none"
  /\ Len(open) < MaxDepth
  /\ nent < MaxEnters
  /\ IF Siblings THEN TRUE ELSE Len(hist) = nent

Enter(m, k) ==
  /\ CanEnter
  /\ m = "deco" => ndeco < MaxDeco
  /\ hist = <<>> => OpName(m, k, FALSE) \in FirstOps
  /\ nent' = nent + 1
  /\ ndeco' = IF m = "deco" THEN ndeco + 1 ELSE ndeco
  /\ UNCHANGED nraise
  /\ IF Overflows(k, Top)
     THEN /\ exc' = "catchable"        \* raised in __enter__: no block was opened
          /\ hist' = Append(hist, OpName(m, k, TRUE))
          /\ UNCHANGED <<stack, open>>
     ELSE /\ stack' = Append(stack, EnterFrame(k, Top, Len(open) + 1))
          /\ open' = Append(open, [kind |-> k, mode |-> m, snap |-> stack])
          /\ hist' = Append(hist, OpName(m, k, FALSE))
          /\ UNCHANGED exc

EnterWith(k)      == Enter("with", k)
EnterDecorated(k) == Enter("deco", k)

\* Interpretation.__exit__(None, None, None): pop_interpretation()
ExitNormal ==
  /\ exc = "none" /\ open # <<>>
  /\ stack' = Pop(stack)
  /\ open' = Pop(open)
  /\ hist' = Append(hist, "X")
  /\ UNCHANGED <<exc, nent, nraise, ndeco>>

\* raise Injected() in the body of the innermost open block
Raise ==
  /\ exc = "none" /\ open # <<>> /\ nraise < MaxRaises
  /\ exc' = "raised"
  /\ nraise' = nraise + 1
  /\ hist' = Append(hist, "R")
  /\ UNCHANGED <<stack, open, nent, ndeco>>

\* Interpretation.__exit__(type, value, tb): pop_interpretation(), exception goes on
ExitExc ==
  /\ exc # "none" /\ open # <<>>
  /\ stack' = Pop(stack)
  /\ open' = Pop(open)
  /\ exc' = "catchable"
  /\ hist' = Append(hist, "Z")
  /\ UNCHANGED <<nent, nraise, ndeco>>

\* except Injected: pass -- around the block just unwound (or around the failed entry)
Catch ==
  /\ exc = "catchable"
  /\ exc' = "none"
  /\ hist' = Append(hist, "C")
  /\ UNCHANGED <<stack, open, nent, nraise, ndeco>>

Next ==
  \/ \E k \in Kinds : ("with" \in Modes /\ EnterWith(k)) \/ ("deco" \in Modes /\ EnterDecorated(k))
  \/ ExitNormal
  \/ Raise
  \/ ExitExc
  \/ Catch

Spec == Init /\ [][Next]_vars

-----------------------------------------------------------------------------
(* properties checked in the model                                          *)

OpenKinds == [i \in 1..Len(open) |-> open[i].kind]

\* the two base frames are always at the bottom
BaseNeverPopped ==
  /\ Len(stack) >= 2
  /\ stack[1] = BaseStack[1] /\ FrameStr(stack[1]) = "reflect"
  /\ stack[2] = BaseStack[2] /\ FrameStr(stack[2]) = "eager/normalize/reflect"

\* one frame per open block, and every open block's entry snapshot is still the
\* stack below its frame (Restore, as an invariant over the open snapshots)
RestoreInv ==
  /\ Len(stack) = 2 + Len(open)
  /\ \A i \in 1..Len(open) : open[i].snap = SubSeq(stack, 1, i + 1)

\* Restore, as an action property: leaving a block (normally or by exception)
\* re-establishes exactly the stack of the matching entry
Restore ==
  [][Len(open') < Len(open) => stack' = open[Len(open)].snap /\ open' = Pop(open)]_vars

\* a failed entry and a raise/catch leave the stack alone
Neutral ==
  [][Len(open') = Len(open) => stack' = stack]_vars

\* every frame is a well-formed total prioritised list
FramesOK == \A i \in 1..Len(stack) : FrameOK(stack[i])

\* a probe is answered by the innermost block; partial ones fall through
Innermost == \A p \in Probes : Ans(Top, p) = Lex(OpenKinds, Len(open), p)

\* the exception can only be propagating out of all blocks towards a handler
ExcOK == (exc = "raised") => open # <<>>

Leaf == open = <<>> /\ exc = "none" /\ ~CanEnter

Emit ==
  PrintT(ToJson([h     |-> hist,
                 stack |-> StackStr(stack),
                 ans   |-> AnsAll(Top),
                 exc   |-> exc,
                 depth |-> Len(open),
                 leaf  |-> Leaf]))
=============================================================================
