SPECIFICATION Spec
CONSTANTS
  RealPts <- RP
  GLeaves <- Cat1
  Tag = "gauss_marg"
INVARIANT Inv_Commute
INVARIANT Emit
CHECK_DEADLOCK FALSE
