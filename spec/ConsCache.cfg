\* default lens = the quick S->C run of checks/c07.py (which writes its own variants of this file:
\* depth, Focus, Kinds, Canon + VIEW ViewNoHist for the invariant-only runs, -simulate for the random ones)
SPECIFICATION Spec
CONSTANTS
  LensName = "terms"
  KeepAlive = TRUE
  MaxDepth = 4
  EmitDepth = 4
  MaxAlloc = 1
  CollectAlways = FALSE
  InterpMode = "cycle"
  Focus = {}
  Kinds = {}
  WithEval = FALSE
  NAddrs = 3
  Canon = FALSE
INVARIANT Unique
INVARIANT WeakLive
INVARIANT NoDangling
INVARIANT WeakEmpty
INVARIANT NoStale
INVARIANT AddrInjective
INVARIANT Emit
CHECK_DEADLOCK FALSE
