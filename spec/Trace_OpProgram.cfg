SPECIFICATION Spec
CONSTANT RealPts <- NoPts
CHECK_DEADLOCK FALSE
