SPECIFICATION Spec
CONSTANTS
  RealPts <- RP
  MaxRank = 2
  MaxSize = 3
  Tag = "optyping_t"
INVARIANT Inv_Sound
INVARIANT Emit
CHECK_DEADLOCK FALSE
