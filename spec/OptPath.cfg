SPECIFICATION Spec
CONSTANTS
  RealPts <- RP
  Plus = "add"
  Times = "mul"
  LeafKind = "lin"
  MaxOperands = 3
  Tag = "optpath"
INVARIANT Inv_PathCorrect
INVARIANT Emit
CHECK_DEADLOCK FALSE
