------------------------------ MODULE OpsAlgebra ------------------------------
(***************************************************************************)
(* C15, model level: the CARRIERS of the laws of funsor.ops (the textbook    *)
(* meaning of every op is in OpsMeaning.tla) and the laws that the tables  *)
(*   DISTRIBUTIVE_OPS, UNITS, BINARY_INVERSES, SAFE_BINARY_INVERSES,       *)
(*   UNARY_INVERSES, PRODUCT_TO_POWER                                      *)
(* assert.  The tables are not transcribed here: the harness records them  *)
(* from the imported code at the start of every run (harness/opsdriver.py: *)
(* record_tables) and hands them over as a JSON file, env OPS_TABLES:      *)
(*   {"entries": [{"table", "a", "b", "v"}, ...]}                          *)
(*     UNITS                  a = op,  b = "",       v = exact unit value  *)
(*     DISTRIBUTIVE_OPS       a = plus, b = times                          *)
(*     (SAFE_)BINARY_INVERSES a = op,  b = inverse binary op               *)
(*     UNARY_INVERSES         a = op,  b = inverse unary op                *)
(*     PRODUCT_TO_POWER       a = op,  b = power op                        *)
(* Op names are funsor's op names without the trailing underscore.         *)
(*                                                                         *)
(* TLC decides every entry: one state per law instance (entry x carrier x  *)
(* operands) and one summary state per entry, which prints the verdict.    *)
(* A law instance is                                                       *)
(*   "ok"    both sides defined in the exact algebra and equal,            *)
(*   "bad"   both sides defined and different, or a side undefined on the  *)
(*           core carrier (where the law promises a value),                *)
(*   "skip"  a side undefined outside the core (0 * inf, inf - inf ...).   *)
(* An entry is true iff it has no bad instance and at least one ok one.    *)
(*                                                                         *)
(* The textbook meaning of the ops (M1, M2, UnitOf), the grid and the      *)
(* domains used by the S->C modules are in OpsMeaning.tla.                 *)
(***************************************************************************)
EXTENDS OpsMeaning

-----------------------------------------------------------------------------
(* carriers of the laws.  A carrier is [core, ext]: on core the law must    *)
(* hold with both sides defined; on ext \ core (infinities adjoined) it     *)
(* must hold wherever both sides are defined.                               *)

Car(core, ext) == [core |-> core, ext |-> ext]

UnitCars(op) ==
  CASE op \in {"add", "mul", "max", "min"} -> <<Car(Grid \cup LogFin, Grid \cup LogFin)>>
    [] op \in LaeOps -> <<Car(LogCore, LogCore \cup {PosInf})>>
    [] op \in LogicOps -> <<Car(Bools, Bools)>>
    [] OTHER -> <<Car(FinGrid, Grid)>>

\* (plus, times): max/min pair with mul only on the non-negative reals; or/and on booleans
DistCars(plus, times) ==
  CASE plus \in LogicOps \/ times \in LogicOps -> <<Car(Bools, Bools)>>
    [] plus \in LaeOps \/ times \in LaeOps -> <<Car(LogCore, LogCore \cup {PosInf})>>
    [] plus \in {"max", "min"} /\ times = "mul" -> <<Car(NonNegFin, NonNegFin \cup {PosInf})>>
    [] plus = "max" /\ times = "add" ->
         <<Car(FinGrid \cup {NegInf}, Grid), Car(LogCore, LogCore \cup {PosInf})>>
    [] plus = "min" /\ times = "add" ->
         <<Car(FinGrid \cup {PosInf}, Grid), Car(LogFin \cup {PosInf}, LogCore \cup {PosInf})>>
    [] OTHER -> <<Car(FinGrid, Grid)>>

InvCars(op) ==
  CASE op = "add" -> <<Car(FinGrid, Grid), Car(LogFin, LogCore \cup {PosInf})>>
    [] op \in LogicOps -> <<Car(Bools, Bools)>>
    [] op \in LaeOps -> <<Car(LogFin, LogCore)>>
    [] OTHER -> <<Car(FinGrid, Grid)>>

PowCars(op) ==
  CASE op = "add" -> <<Car(FinGrid, Grid), Car(LogFin, LogCore)>>
    [] op \in LogicOps -> <<Car(Bools, Bools)>>
    [] op \in LaeOps -> <<Car(LogFin, LogCore)>>
    [] OTHER -> <<Car(FinGrid, Grid)>>

\* b has an inverse under op (so that (a op b) op^-1 b = a is promised)
Invertible(op, b) == IF op = "mul" THEN b # Zero ELSE TRUE

MaxPower == 4

-----------------------------------------------------------------------------
(* the recorded tables *)

Tables == JsonDeserialize(IOEnv.OPS_TABLES)
Entries == Tables.entries
TableNames == {"UNITS", "DISTRIBUTIVE_OPS", "BINARY_INVERSES", "SAFE_BINARY_INVERSES",
               "UNARY_INVERSES", "PRODUCT_TO_POWER"}

Sig(e) == e.table \o "[" \o e.a \o (IF e.table = "DISTRIBUTIVE_OPS" THEN "," \o e.b ELSE "") \o "]"

Cars(e) ==
  CASE e.table = "UNITS" -> UnitCars(e.a)
    [] e.table = "DISTRIBUTIVE_OPS" -> DistCars(e.a, e.b)
    [] e.table \in {"BINARY_INVERSES", "SAFE_BINARY_INVERSES", "UNARY_INVERSES"} -> InvCars(e.a)
    [] e.table = "PRODUCT_TO_POWER" -> PowCars(e.a)
    [] OTHER -> <<>>

\* law instances of entry k: <<k, carrier index, exponent, a, b, c>> (unused slots are Zero/0)
InstancesOf(k) ==
  LET e == Entries[k]
      cs == Cars(e)
  IN UNION {
       LET X == cs[j].ext IN
       CASE e.table = "UNITS" -> {<<k, j, 0, a, Zero, Zero>> : a \in X}
         [] e.table = "DISTRIBUTIVE_OPS" -> {<<k, j, 0, a, b, c>> : a \in X, b \in X, c \in X}
         [] e.table \in {"BINARY_INVERSES", "SAFE_BINARY_INVERSES"} ->
              {<<k, j, 0, a, b, Zero>> : a \in X, b \in X}
         [] e.table = "UNARY_INVERSES" -> {<<k, j, 0, a, Zero, Zero>> : a \in X}
         [] e.table = "PRODUCT_TO_POWER" -> {<<k, j, n, a, Zero, Zero>> : n \in 0..MaxPower, a \in X}
         [] OTHER -> {}
       : j \in 1..Len(cs)}

\* the equations of one instance: [must, eqs = sequence of <<lhs, rhs>>]
Checks(s) ==
  LET e == Entries[s[1]]
      car == Cars(e)[s[2]]
      n == s[3]  a == s[4]  b == s[5]  c == s[6]
  IN CASE e.table = "UNITS" ->
            \* a declared unit is neutral on both sides
            [must |-> a \in car.core,
             eqs |-> << <<M2(e.a, e.v, a), a>>, <<M2(e.a, a, e.v), a>> >>]
       [] e.table = "DISTRIBUTIVE_OPS" ->
            \* a*(b+c) = (a*b)+(a*c) and (b+c)*a = (b*a)+(c*a)
            [must |-> {a, b, c} \subseteq car.core,
             eqs |-> << <<M2(e.b, a, M2(e.a, b, c)), M2(e.a, M2(e.b, a, b), M2(e.b, a, c))>>,
                        <<M2(e.b, M2(e.a, b, c), a), M2(e.a, M2(e.b, b, a), M2(e.b, c, a))>> >>]
       [] e.table \in {"BINARY_INVERSES", "SAFE_BINARY_INVERSES"} ->
            \* inv(a op b, b) = a and inv(b op a, b) = a
            [must |-> {a, b} \subseteq car.core /\ Invertible(e.a, b),
             eqs |-> << <<M2(e.b, M2(e.a, a, b), b), a>>, <<M2(e.b, M2(e.a, b, a), b), a>> >>]
       [] e.table = "UNARY_INVERSES" ->
            \* a op inv(a) = unit = inv(a) op a   (the textbook unit, not the declared one)
            [must |-> a \in car.core /\ Invertible(e.a, a),
             eqs |-> << <<M2(e.a, a, M1(e.b, a)), UnitOf(e.a)>>,
                        <<M2(e.a, M1(e.b, a), a), UnitOf(e.a)>> >>]
       [] e.table = "PRODUCT_TO_POWER" ->
            \* pow(a, n) = a op ... op a
            [must |-> a \in car.core,
             eqs |-> << <<M2(e.b, a, RInt(n)), Rep(e.a, a, n)>> >>]
       [] OTHER -> [must |-> TRUE, eqs |-> << <<Undef, Undef>> >>]

V1(eq, must) ==
  IF IsU(eq[1]) \/ IsU(eq[2]) THEN (IF must THEN "bad" ELSE "skip")
  ELSE IF eq[1] = eq[2] THEN "ok" ELSE "bad"

Verdict(s) ==
  LET ch == Checks(s)
      vs == {V1(ch.eqs[i], ch.must) : i \in 1..Len(ch.eqs)}
  IN IF "bad" \in vs THEN "bad" ELSE IF "ok" \in vs THEN "ok" ELSE "skip"

Witness(s) ==
  LET ch == Checks(s)
      i == CHOOSE i \in 1..Len(ch.eqs) : V1(ch.eqs[i], ch.must) = "bad"
  IN [kind |-> "witness", k |-> s[1], sig |-> Sig(Entries[s[1]]), carrier |-> s[2], n |-> s[3],
      a |-> s[4], b |-> s[5], c |-> s[6], side |-> i, on_core |-> ch.must,
      lhs |-> ch.eqs[i][1], rhs |-> ch.eqs[i][2]]

Summary(k) ==
  LET e == Entries[k]
      I == InstancesOf(k)
      bad == {s \in I : Verdict(s) = "bad"}
      nok == Cardinality({s \in I : Verdict(s) = "ok"})
  IN [kind |-> "entry", k |-> k, table |-> e.table, a |-> e.a, b |-> e.b, v |-> e.v,
      sig |-> Sig(e),
      ok |-> bad = {} /\ nok > 0,
      instances |-> Cardinality(I), n_ok |-> nok, n_bad |-> Cardinality(bad),
      n_skip |-> Cardinality(I) - nok - Cardinality(bad),
      known_table |-> e.table \in TableNames,
      known_ops |-> (e.a \in BinOps) /\ (e.table = "UNITS" \/ e.b \in BinOps \cup UnOps)]

-----------------------------------------------------------------------------
(* the model: every instance and every summary is one (initial) state *)

VARIABLE s

AllStates ==
  UNION {InstancesOf(k) \cup {<<k, 0, 0, Zero, Zero, Zero>>} : k \in 1..Len(Entries)}

Init == s \in AllStates
Next == FALSE /\ UNCHANGED s

Emit ==
  IF s[2] = 0 THEN PrintT(ToJson(Summary(s[1])))
  ELSE (Verdict(s) = "bad" => PrintT(ToJson(Witness(s))))

=============================================================================
