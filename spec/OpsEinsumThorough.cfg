INIT Init
NEXT Next
INVARIANT Emit
CHECK_DEADLOCK FALSE
CONSTANT MaxOperands = 3
CONSTANT Fills <- FillsThorough
