SPECIFICATION Spec
CONSTANTS
  Kinds = {"U", "adjoint", "memoize"}
  Modes = {"with"}
  MaxDepth = 8
  MaxEnters = 8
  MaxRaises = 0
  MaxDeco = 0
  Siblings = FALSE
  First = {}
INVARIANT BaseNeverPopped
INVARIANT RestoreInv
INVARIANT FramesOK
INVARIANT Innermost
INVARIANT ExcOK
INVARIANT Emit
PROPERTY Restore
PROPERTY Neutral
CHECK_DEADLOCK FALSE
