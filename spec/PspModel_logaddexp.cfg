SPECIFICATION MSpec
CONSTANTS
  RealPts <- RP
  VarNames <- VN
  PlateNames <- PN
  VarSize = 2
  PlateSize = 2
  Scales = {1}
  MaxFactors = 2
  Plus = "logaddexp"
  Times = "add"
  LeafKind = "log"
  CopyCap = 99
  ElimAll = FALSE
  Param = FALSE
  Tag = "psp_model_log"
INVARIANT Inv_ModelCorrect
INVARIANT Inv_IntractableOnlyIfIncomparable
INVARIANT EmitCalls
CHECK_DEADLOCK FALSE
