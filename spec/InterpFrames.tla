---------------------------- MODULE InterpFrames ----------------------------
(***************************************************************************)
(* Interpretation frames of funsor (C17), shared by InterpStack.tla (the   *)
(* model explored by TLC and replayed into the library) and by             *)
(* Trace_InterpStack.tla (the judge of recorded push/pop/probe traces).    *)
(*                                                                         *)
(* A frame is what one entry of funsor.interpreter._STACK is: a prioritised*)
(* sequence of sub-interpretation items, tried in order until one answers. *)
(* An item is a named rule table ("eager", "lazy", "U", ...), an adjoint   *)
(* tape (which records and then delegates to the rest of its frame), or a  *)
(* Memoize, which is ATOMIC: it wraps a whole frame and is one item.       *)
(* repr of a frame is the "/"-join of its items, a Memoize printing as     *)
(* Memoize(<frame>).                                                       *)
(***************************************************************************)
EXTENDS Naturals, Sequences, FiniteSets

TotalKinds   == {"eager", "lazy", "reflect", "normalize", "sequential", "moment_matching"}
PartialKinds == {"U", "adjoint"}          \* layered over the current top when entered
MemoKind     == "memoize"                 \* memoize(): wraps the current top
AllKinds     == TotalKinds \cup PartialKinds \cup {MemoKind}

Probes == {"add", "sub", "red", "subs"}
  \* add  : Number + Number                      (eager rule -> Number)
  \* sub  : Number - Number                      (the one pattern U rewrites, to a Variable)
  \* red  : Tensor.reduce(add, i)                (eager rule -> Tensor)
  \* subs : (x + Number)(x = Number)             (substitution: temporary push inside)

PrioLimit == 10     \* PrioritizedInterpretation asserts len(subinterpretations) < 10

-----------------------------------------------------------------------------
(* items and frames                                                         *)

It(k)    == [k |-> k, f |-> <<>>, id |-> 0]
Memo(fr) == [k |-> "Memoize", f |-> fr, id |-> 0]
Tape(id) == [k |-> "adjoint", f |-> <<>>, id |-> id]   \* id: lexical depth of its block

Tot(k) ==
  CASE k = "eager"           -> <<It("eager"), It("normalize"), It("reflect")>>
    [] k = "lazy"            -> <<It("lazy"), It("reflect")>>
    [] k = "reflect"         -> <<It("reflect")>>
    [] k = "normalize"       -> <<It("normalize"), It("reflect")>>
    [] k = "sequential"      -> <<It("sequential"), It("eager"), It("normalize"), It("reflect")>>
    [] k = "moment_matching" -> <<It("moment_matching"), It("eager"), It("normalize"), It("reflect")>>

BaseStack == << Tot("reflect"), Tot("eager") >>   \* interpretations.py: push(reflect); push(eager)

\* the frame pushed by entering kind k (block at lexical depth id) over the top frame
EnterFrame(k, top, id) ==
  CASE k \in TotalKinds -> Tot(k)
    [] k = "U"          -> <<It("U")>> \o top
    [] k = "adjoint"    -> <<Tape(id)>> \o top
    [] k = MemoKind     -> <<Memo(top)>>

\* entering a partial interpretation fails (AssertionError in __enter__, nothing pushed)
\* when the flattened priority list would reach the limit
Overflows(k, top) == k \in PartialKinds /\ Len(top) + 1 >= PrioLimit

IsTotalItem(it) == it.k \in {"reflect", "Memoize"}
FrameOK(fr) == /\ Len(fr) >= 1 /\ Len(fr) < PrioLimit
               /\ IsTotalItem(fr[Len(fr)])
               /\ \A i \in 1..(Len(fr) - 1) : ~IsTotalItem(fr[i])

RECURSIVE FrameStr(_)
ItemStr(it) == IF it.k = "Memoize" THEN "Memoize(" \o FrameStr(it.f) \o ")" ELSE it.k
FrameStr(fr) ==
  IF Len(fr) = 0 THEN ""
  ELSE IF Len(fr) = 1 THEN ItemStr(fr[1])
  ELSE ItemStr(fr[1]) \o "/" \o FrameStr(Tail(fr))

StackStr(st) == [i \in 1..Len(st) |-> FrameStr(st[i])]

-----------------------------------------------------------------------------
(* which rule table answers which probe (class of the term that comes back; *)
(* "" = no rule: the probe falls through to the next item)                  *)

Handles(k, p) ==
  CASE k = "eager"     -> (IF p = "red" THEN "Tensor" ELSE "Number")
    [] k = "lazy"      -> (IF p = "subs" THEN "Binary" ELSE "")
    [] k = "reflect"   -> (CASE p = "red" -> "Reduce" [] p = "subs" -> "Subs" [] OTHER -> "Binary")
    [] k = "normalize" -> "Contraction"
    [] k = "U"         -> (IF p = "sub" THEN "Variable" ELSE "")
    [] OTHER           -> ""           \* sequential, moment_matching: no rule for these probes

NoAnswer == [cls |-> "NONE", taped |-> <<>>]

\* implementation-shaped: PrioritizedInterpretation.interpret walks the items;
\* Memoize.interpret delegates to its wrapped frame; AdjointTape.interpret
\* delegates to the interpretation that was on top when it was entered (= the
\* rest of its frame) and appends to its tape.  taped = the tapes that record
\* the probe, innermost first.
RECURSIVE Ans(_, _)
Ans(fr, p) ==
  IF Len(fr) = 0 THEN NoAnswer
  ELSE LET it == fr[1] IN
       CASE it.k = "Memoize" -> Ans(it.f, p)
         [] it.k = "adjoint" -> LET r == Ans(Tail(fr), p)
                                IN [cls |-> r.cls, taped |-> <<it.id>> \o r.taped]
         [] OTHER -> IF Handles(it.k, p) # ""
                     THEN [cls |-> Handles(it.k, p), taped |-> <<>>]
                     ELSE Ans(Tail(fr), p)

AnsAll(fr) == [p \in Probes |-> Ans(fr, p)]

-----------------------------------------------------------------------------
(* lexical reading of the same question (the property "Innermost"): walk    *)
(* the open blocks outwards from the innermost; a total interpretation      *)
(* answers by itself, a partial one answers what it has a rule for and       *)
(* otherwise defers to the enclosing block, memoize is transparent, a tape  *)
(* records and defers; outside all blocks the default (eager) answers.      *)
(* kinds: sequence of the kinds of the open blocks, outermost first.        *)

RECURSIVE Lex(_, _, _)
Lex(kinds, n, p) ==
  IF n = 0 THEN Ans(Tot("eager"), p)
  ELSE LET k == kinds[n] IN
       CASE k \in TotalKinds -> Ans(Tot(k), p)
         [] k = "U"          -> IF Handles("U", p) # ""
                                THEN [cls |-> Handles("U", p), taped |-> <<>>]
                                ELSE Lex(kinds, n - 1, p)
         [] k = "adjoint"    -> LET r == Lex(kinds, n - 1, p)
                                IN [cls |-> r.cls, taped |-> <<n>> \o r.taped]
         [] k = MemoKind     -> Lex(kinds, n - 1, p)
=============================================================================
