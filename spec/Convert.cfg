SPECIFICATION Spec
CONSTANTS
  RealPts <- CRP
  MaxRank = 3
  MaxSize = 2
  MaxEvent = 2
  UnpackMaxIns = 2
  UnpackDims = 3
  AlignMaxIns = 3
  AlignTopSize = 2
  Families = {"pack", "unpack", "align", "atensor", "atensors", "lazy", "con", "delta", "mat", "gauss"}
  Tag = "convert_smoke"
INVARIANT Inv_Pack
INVARIANT Inv_Unpack
INVARIANT Inv_Align
INVARIANT Inv_ATensor
INVARIANT Inv_ATensors
INVARIANT Inv_Terms
INVARIANT Inv_Gauss
INVARIANT Emit
CHECK_DEADLOCK FALSE
