------------------------------- MODULE Judge --------------------------------
(***************************************************************************)
(* C->S: the generic trace judge.  It consumes an ndjson file of events    *)
(* recorded from the real library (one event per line, one TLC state per   *)
(* line) and decides each of them with the L1 semantics.  Verdicts are     *)
(* total: every line yields exactly one printed verdict record, a failing  *)
(* line names the clause that failed, and the rest of the file is still    *)
(* judged.  Acceptance (checked by the harness): number of distinct states *)
(* = number of lines + 1, and no verdict with ok = FALSE.                  *)
(*                                                                         *)
(* event kinds                                                             *)
(*   project  {id, t}                 oracle-batch: print Project(t)       *)
(*   deneq    {id, lhs, rhs}          rhs has lhs's value on lhs's inputs, *)
(*                                    inputs(rhs) among inputs(lhs)        *)
(*   deneqx   {id, lhs, rhs}          same, and inputs(rhs) need only be   *)
(*                                    among inputs(lhs) where it matters   *)
(*   typed    {id, t, ins, out}       declared inputs/output of a lazily   *)
(*                                    built term equal the typing rules    *)
(*   sample   {id, f, vars, sample_inputs, result}   relational sampling   *)
(*   mc       {id, f, g, vars, sample_inputs, result} Monte Carlo integral  *)
(***************************************************************************)
EXTENDS Sem, Json, IOUtils, TLCExt

VARIABLE l

TLog == ndJsonDeserialize(IOEnv.TRACE_FILE)

RPts == <<Q(-1, 1), Zero, Q(1, 2), Q(2, 1)>>

PtsOf(ins) ==
  [k \in 1..Len(ins) |->
     IF ins[k][2].dt = 0 THEN [j \in 1..Len(RealPts) |-> RealSample(ins[k][2].sh, j)] ELSE <<>>]

Out(r) == PrintT(ToJson(r))

\* first point (index into EnvSeq) where the two annotated terms differ, 0 if none;
\* points where either side is undefined in the value algebra (overflow of the exact
\* arithmetic, an op outside it) are not compared; they are counted in `undefined`
FirstDiff(a, b, es) ==
  LET bad == {k \in 1..Len(es) :
                LET x == Eval(a, es[k])  y == Eval(b, es[k]) IN ~HasU(x) /\ ~HasU(y) /\ x # y}
  IN IF bad = {} THEN 0 ELSE CHOOSE k \in bad : \A j \in bad : k <= j

Undefined(a, b, es) == Cardinality({k \in 1..Len(es) : HasU(Eval(a, es[k])) \/ HasU(Eval(b, es[k]))})

JudgeDenEq(e) ==
  LET a == Ann(e.lhs)
      b == Ann(e.rhs)
  IN IF ~InputsSubset(b, a)
     THEN Out([id |-> e.id, ok |-> FALSE, clause |-> "inputs_not_subset",
               lhs_ins |-> a.ti, rhs_ins |-> b.ti])
     ELSE IF a.to.sh # b.to.sh
     THEN Out([id |-> e.id, ok |-> FALSE, clause |-> "output_shape", lhs_out |-> a.to, rhs_out |-> b.to])
     ELSE LET es == EnvSeq(a.ti)
              k == FirstDiff(a, b, es)
              u == Undefined(a, b, es)
          IN IF k = 0
             THEN Out([id |-> e.id, ok |-> TRUE, points |-> Len(es), undefined |-> u])
             ELSE Out([id |-> e.id, ok |-> FALSE, clause |-> "value", point |-> k,
                       env |-> [n \in DOMAIN es[k] |-> es[k][n]],
                       want |-> Eval(a, es[k]), got |-> Eval(b, es[k])])

JudgeTyped(e) ==
  LET a == Ann(e.t) IN
  IF a.ti # e.ins
  THEN Out([id |-> e.id, ok |-> FALSE, clause |-> "declared_inputs", want |-> a.ti, got |-> e.ins])
  ELSE IF a.to # e.out
  THEN Out([id |-> e.id, ok |-> FALSE, clause |-> "declared_output", want |-> a.to, got |-> e.out])
  ELSE Out([id |-> e.id, ok |-> TRUE])

JudgeProject(e) ==
  LET a == Ann(e.t)
      tb == Table(a)
  IN Out([id |-> e.id, ok |-> TRUE,
          exp |-> [ins |-> a.ti, out |-> a.to, pts |-> PtsOf(a.ti), tab |-> tb,
                   core |-> FALSE, dep |-> DependsOnTab(a.ti, tb), defined |-> TabDefined(tb)]])

\* sample {id, f, vars, sample_inputs, result}: the relational specification of sampling.
\* result has f's inputs plus the sample inputs and f's output; for every batch element and
\* particle its points lie in the support of f and its total mass over the sampled
\* variables equals f's.  (Which point was drawn is not constrained: TLC accepts any.)
JudgeSample(e) ==
  LET a == Ann(e.f)
      r == Ann(e.result)
      vs == e.vars
      wantIns == Names(a.ti) \cup Names(e.sample_inputs)
      massF == Ann([c |-> "Red", op |-> "logaddexp", arg |-> e.f, vars |-> vs])
      massR == Ann([c |-> "Red", op |-> "logaddexp", arg |-> e.result, vars |-> vs])
      es == EnvSeq(r.ti)
  IN IF Names(r.ti) # wantIns
        \/ \E k \in 1..Len(r.ti) :
              r.ti[k][2] # (IF HasName(a.ti, r.ti[k][1]) THEN Lookup(a.ti, r.ti[k][1])
                           ELSE Lookup(e.sample_inputs, r.ti[k][1]))
     THEN Out([id |-> e.id, ok |-> FALSE, clause |-> "sample_inputs", got |-> r.ti, f_ins |-> a.ti])
     ELSE IF r.to # a.to
     THEN Out([id |-> e.id, ok |-> FALSE, clause |-> "sample_output", got |-> r.to])
     ELSE LET outside == {k \in 1..Len(es) :
                            LET x == Eval(r, es[k]) IN
                            ~HasU(x) /\ x # Scalar(NegInf) /\ Eval(a, es[k]) = Scalar(NegInf)}
              ems == EnvSeq(massR.ti)
              badmass == {k \in 1..Len(ems) :
                            LET x == Eval(massR, ems[k])  y == Eval(massF, ems[k]) IN
                            ~HasU(x) /\ ~HasU(y) /\ x # y}
          IN IF outside # {}
             THEN Out([id |-> e.id, ok |-> FALSE, clause |-> "sample_outside_support",
                       env |-> [n \in DOMAIN es[CHOOSE k \in outside : TRUE] |-> es[CHOOSE k \in outside : TRUE][n]]])
             ELSE IF badmass # {}
             THEN LET k == CHOOSE k \in badmass : TRUE IN
                  Out([id |-> e.id, ok |-> FALSE, clause |-> "sample_mass",
                       env |-> [n \in DOMAIN ems[k] |-> ems[k][n]],
                       want |-> Eval(massF, ems[k]), got |-> Eval(massR, ems[k])])
             ELSE Out([id |-> e.id, ok |-> TRUE, points |-> Len(es)])

\* mc {id, f, g, vars, sample_inputs, result}: Integrate(f, g, vars) under the MonteCarlo
\* interpretation.  Whatever was drawn, at every batch element and particle the result must be
\* mass(f) * g(x) for SOME point x of the support of f (the draw is not constrained), it has
\* exactly the inputs of f and g outside vars plus the sample inputs, and g's output.
JudgeMC(e) ==
  LET a == Ann(e.f)
      r == Ann(e.result)
      vs == e.vars
      massF == [c |-> "Un", op |-> [n |-> "exp", p |-> <<>>],
                arg |-> [c |-> "Red", op |-> "logaddexp", arg |-> e.f, vars |-> vs]]
      w == Ann([c |-> "Bin", op |-> [n |-> "mul", p |-> <<>>], l |-> massF, r |-> e.g])
      xs == EnvSeq(vs)
      allowed == [x \in 1..Len(w.ti) |-> w.ti[x]] \o e.sample_inputs
      es == EnvSeq(r.ti)
      okAt(k) == LET got == Eval(r, es[k])
                     cands == {j \in 1..Len(xs) : Eval(a, Override(es[k], xs[j])) # Scalar(NegInf)}
                 IN HasU(got)
                    \/ (cands = {} /\ got = Scalar(Zero))      \* empty support: mass 0
                    \/ \E j \in cands : LET v == Eval(w, Override(es[k], xs[j])) IN HasU(v) \/ v = got
      bad == {k \in 1..Len(es) : ~okAt(k)}
  IN IF (\E k1 \in 1..Len(r.ti) : ~(\E q \in 1..Len(allowed) : allowed[q] = r.ti[k1]))
        \/ (\E k2 \in 1..Len(r.ti) : \E q \in 1..Len(vs) : vs[q][1] = r.ti[k2][1])
        \/ (\E q \in 1..Len(allowed) :
               (\A q2 \in 1..Len(vs) : vs[q2][1] # allowed[q][1])
               /\ ~(\E k3 \in 1..Len(r.ti) : r.ti[k3] = allowed[q]))
     THEN Out([id |-> e.id, ok |-> FALSE, clause |-> "mc_inputs", got |-> r.ti])
     ELSE IF r.to # Ann(e.g).to
     THEN Out([id |-> e.id, ok |-> FALSE, clause |-> "mc_output", got |-> r.to])
     ELSE IF bad # {}
     THEN LET kb == CHOOSE kk \in bad : TRUE IN
          Out([id |-> e.id, ok |-> FALSE, clause |-> "mc_value_not_mass_times_integrand_at_a_support_point",
               env |-> [n \in DOMAIN es[kb] |-> es[kb][n]], got |-> Eval(r, es[kb])])
     ELSE Out([id |-> e.id, ok |-> TRUE, points |-> Len(es)])

Judge(e) ==
  CASE e.kind = "deneq" -> JudgeDenEq(e)
    [] e.kind = "mc" -> JudgeMC(e)
    [] e.kind = "sample" -> JudgeSample(e)
    [] e.kind = "typed" -> JudgeTyped(e)
    [] e.kind = "project" -> JudgeProject(e)
    [] OTHER -> Out([id |-> e.id, ok |-> FALSE, clause |-> "unknown_event_kind"])

Init == l = 1
Next == l <= Len(TLog) /\ Judge(TLog[l]) /\ l' = l + 1
Spec == Init /\ [][Next]_l
=============================================================================
