SPECIFICATION Spec
CONSTANTS
  Kinds = {"eager", "lazy", "reflect", "normalize", "sequential", "moment_matching", "U", "adjoint", "memoize"}
  Modes = {"with"}
  MaxDepth = 5
  MaxEnters = 5
  MaxRaises = 1
  MaxDeco = 0
  Siblings = FALSE
  First = {}
INVARIANT BaseNeverPopped
INVARIANT RestoreInv
INVARIANT FramesOK
INVARIANT Innermost
INVARIANT ExcOK
INVARIANT Emit
PROPERTY Restore
PROPERTY Neutral
CHECK_DEADLOCK FALSE
