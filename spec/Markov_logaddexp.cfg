SPECIFICATION Spec
CONSTANTS
  RealPts <- RP
  Durations = {1,2,3,4,5,6,7,8,9,10,11,12}
  Sizes = {2,3}
  MaxPairs = 2
  Plus = "logaddexp"
  Times = "add"
  LeafKind = "log"
  MaxParamT = 6
  Tag = "mk_logaddexp"
INVARIANT Inv_FoldInputs
INVARIANT Emit
CHECK_DEADLOCK FALSE
