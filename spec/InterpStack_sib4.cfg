SPECIFICATION Spec
CONSTANTS
  Kinds = {"lazy", "U", "adjoint", "memoize"}
  Modes = {"with", "deco"}
  MaxDepth = 3
  MaxEnters = 4
  MaxRaises = 2
  MaxDeco = 4
  Siblings = TRUE
  First = {}
INVARIANT BaseNeverPopped
INVARIANT RestoreInv
INVARIANT FramesOK
INVARIANT Innermost
INVARIANT ExcOK
INVARIANT Emit
PROPERTY Restore
PROPERTY Neutral
CHECK_DEADLOCK FALSE
