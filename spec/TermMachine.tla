---------------------------- MODULE TermMachine ----------------------------
(***************************************************************************)
(* L2: the build-and-evaluate machine.  A state is a pool of well-typed    *)
(* terms; every action is one call of funsor's public construction API     *)
(* (one constructor applied to terms already in the pool).  TLC explores   *)
(* every program of a lens; for every state it (a) checks the L1 theorems  *)
(* on the newest term and (b) emits the term together with its expected    *)
(* observable projection (inputs, output domain, value table), which the   *)
(* executor replays against the real library after each constructor call.  *)
(*                                                                         *)
(* A lens module EXTENDS this one and defines the constants.               *)
(***************************************************************************)
EXTENDS Sem, Json

CONSTANTS
  Leaves,      \* sequence of leaf terms (Ten / Num / Var / Slice)
  MaxLeaves,   \* how many leaves a program may start from
  MaxOps,      \* how many constructor applications after the leaves
  Acts,        \* set of enabled action names
  UnOps,       \* sequence of op records for Un
  BinOps,      \* sequence of op records for pointwise Bin / matmul
  RedOps,      \* sequence of associative op names for Red
  RedVars,     \* sequence of <<name, dom>>: the universe of reducible variables
  SubVals,     \* sequence of terms usable as substitution values
  NewNames,    \* sequence of fresh names (Stack / Cat / Lambda-free binders / renames)
  Tag          \* string naming the lens, copied into every emitted record

VARIABLES pool, nops

vars == <<pool, nops>>

Range(s) == {s[k] : k \in 1..Len(s)}
ASubVals == [k \in 1..Len(SubVals) |-> Ann(SubVals[k])]
Last == pool[Len(pool)]
Op0(n) == [n |-> n, p |-> <<>>]

-----------------------------------------------------------------------------
(* well-typedness: the documented preconditions of each constructor, for an *)
(* annotated node whose children are well-typed annotated terms             *)

SharedAgree(a, b) ==   \* inputs with the same name have the same domain
  \A k \in 1..Len(a) : HasName(b, a[k][1]) => Lookup(b, a[k][1]) = a[k][2]

WellTyped(t) ==
  CASE t.c \in {"Var", "Num", "Ten", "Gauss"} -> TRUE
    [] t.c = "Slice" -> t.step > 0 /\ t.start >= 0 /\ SliceSize(t) > 0
    [] t.c = "Un" ->
         LET d == t.arg.to IN
            CASE t.op.n \in ArrayReductions ->
                   /\ d.dt = 0 \/ t.op.n \in {"all", "any"}
                   /\ t.op.n \in {"all", "any"} => d.dt = 2
                   /\ t.op.p[1] = NoAxis \/ (t.op.p[1] >= -Len(d.sh) /\ t.op.p[1] < Len(d.sh))
              [] t.op.n \in ArrayReductions2 ->
                   LET nd == Len(d.sh)
                       n1 == IF t.op.p[1] < 0 THEN t.op.p[1] + nd ELSE t.op.p[1]
                       n2 == IF t.op.p[2] < 0 THEN t.op.p[2] + nd ELSE t.op.p[2]
                   IN d.dt = 0 /\ nd >= 2 /\ n1 >= 0 /\ n1 < nd /\ n2 >= 0 /\ n2 < nd /\ n1 # n2
              [] t.op.n \in ArrayStats ->
                   /\ d.dt = 0
                   /\ t.op.p[1] = NoAxis \/ (t.op.p[1] >= -Len(d.sh) /\ t.op.p[1] < Len(d.sh))
              [] t.op.n = "reshape" -> Size(t.op.p) = Size(d.sh)
              [] t.op.n = "getslice" ->
                   /\ Len(t.op.p) <= Len(d.sh)
                   /\ \A k \in 1..Len(t.op.p) :
                        LET q == t.op.p[k] IN
                        IF q.k = "int" THEN q.i >= 0 /\ q.i < d.sh[k]
                        ELSE q.n >= 1 /\ q.step >= 1 /\ q.start >= 0
                             /\ q.start + q.step * (q.n - 1) < d.sh[k]
              [] t.op.n \in {"invert", "not"} -> d.dt = 2
              [] t.op.n \in {"neg", "abs", "reciprocal", "sqrt", "log1p", "expm1"} -> d.dt = 0
              [] OTHER -> TRUE
    [] t.c = "Bin" ->
         /\ SharedAgree(t.l.ti, t.r.ti)
         /\ LET a == t.l.to  b == t.r.to IN
            CASE t.op.n = "getitem" ->
                   /\ t.op.p[1] < Len(a.sh) /\ IsBintD(b) /\ b.dt = a.sh[t.op.p[1] + 1]
              [] t.op.n = "matmul" ->
                   /\ a.dt = 0 /\ b.dt = 0 /\ Len(a.sh) \in {1, 2} /\ Len(b.sh) \in {1, 2}
                   /\ a.sh[Len(a.sh)] = b.sh[1]
              [] t.op.n \in {"and", "or", "xor"} -> a.dt = 2 /\ b.dt = 2 /\ BroadcastShape(a.sh, b.sh) # <<-1>>
              [] t.op.n \in {"sub", "truediv", "logaddexp", "safesub", "safediv"} ->
                   a.dt = 0 /\ b.dt = 0 /\ BroadcastShape(a.sh, b.sh) # <<-1>>
              [] OTHER -> BroadcastShape(a.sh, b.sh) # <<-1>>
    [] t.c = "Red" ->
         /\ \A k \in 1..Len(t.vars) :
              /\ IsBintD(t.vars[k][2])
              /\ HasName(t.arg.ti, t.vars[k][1]) => Lookup(t.arg.ti, t.vars[k][1]) = t.vars[k][2]
         /\ t.op \in {"and", "or"} => t.arg.to.dt = 2
         \* funsor types a reduction like its argument, which is only sound for
         \* idempotent ops on bounded integers; sums/products are over reals
         /\ t.op \in {"add", "mul", "logaddexp"} => t.arg.to.dt = 0
    [] t.c = "Sub" ->
         /\ \A k \in 1..Len(t.subs) :
              HasName(t.arg.ti, t.subs[k][1]) =>
                   LET d == Lookup(t.arg.ti, t.subs[k][1])
                       o == t.subs[k][2].to
                   IN o = d    \* a substituted value must have exactly the input's domain
         /\ \* the result's inputs must be consistently typed
            LET rest == FilterPairs(t.arg.ti, Names(t.subs)) IN
            \A k \in 1..Len(t.subs) :
              /\ SharedAgree(t.subs[k][2].ti, rest)
              /\ \A j \in 1..Len(t.subs) : SharedAgree(t.subs[k][2].ti, t.subs[j][2].ti)
    [] t.c = "Stack" ->
         \A k \in 1..Len(t.parts) :
              /\ ~HasName(t.parts[k].ti, t.name)
              /\ t.parts[k].to = t.parts[1].to
              /\ \A j \in 1..Len(t.parts) : SharedAgree(t.parts[k].ti, t.parts[j].ti)
    [] t.c = "Cat" ->
         \A k \in 1..Len(t.parts) :
              /\ HasName(t.parts[k].ti, t.pn)
              /\ IsBintD(Lookup(t.parts[k].ti, t.pn))
              /\ t.name # t.pn => ~HasName(t.parts[k].ti, t.name)
              /\ t.parts[k].to = t.parts[1].to
              /\ \A j \in 1..Len(t.parts) :
                   SharedAgree(FilterPairs(t.parts[k].ti, {t.pn}), FilterPairs(t.parts[j].ti, {t.pn}))
    [] t.c = "Lam" ->
         /\ IsBintD(t.var[2])
         /\ HasName(t.expr.ti, t.var[1]) => Lookup(t.expr.ti, t.var[1]) = t.var[2]
    [] t.c = "Indep" ->
         /\ HasName(t.fn.ti, t.bv) /\ HasName(t.fn.ti, t.dv)
         /\ IsBintD(Lookup(t.fn.ti, t.bv))
         /\ Lookup(t.fn.ti, t.dv).dt = 0
         /\ ~HasName(t.fn.ti, t.rv) \/ t.rv = t.dv
         /\ t.fn.to = RealD
    [] t.c = "Align" ->
         /\ {t.names[k] : k \in 1..Len(t.names)} = Names(t.arg.ti)
         /\ Len(t.names) = Len(t.arg.ti)
    [] t.c = "Delta" ->
         \A k \in 1..Len(t.terms) :
           /\ ~HasName(t.terms[k][2].ti, t.terms[k][1])
           /\ t.terms[k][3].to = RealD
    [] t.c = "Con" -> \A k \in 1..Len(t.vars) : IsBintD(t.vars[k][2])
    [] t.c = "Integ" ->
         /\ t.measure.to = RealD /\ t.integrand.to.dt = 0
         /\ SharedAgree(t.measure.ti, t.integrand.ti)
         /\ \A k \in 1..Len(t.vars) :
              /\ IsBintD(t.vars[k][2])
              /\ \A x \in {t.measure, t.integrand} :
                   HasName(x.ti, t.vars[k][1]) => Lookup(x.ti, t.vars[k][1]) = t.vars[k][2]
    [] OTHER -> FALSE

\* the value must fit the declared output domain at every point (type soundness)
TypeSound(t) ==
  LET tb == Table(t) IN \A k \in 1..Len(tb) : InDomain(tb[k], t.to)

\* funsor's documented core fragment: ground, integer-indexed tensor expressions on
\* which eager evaluation must complete to a concrete tensor.
RECURSIVE InCore(_)
CoreUn == {"neg", "abs", "exp", "log", "sum", "prod", "amax", "amin", "all", "any",
           "logsumexp", "reshape", "getslice"}
CoreBin == {"add", "sub", "mul", "max", "min", "eq", "ne", "lt", "le", "gt", "ge",
            "and", "or", "getitem"}
CoreRed == {"add", "mul", "max", "min", "logaddexp", "and", "or"}
RECURSIVE DistinctSeq(_)
DistinctSeq(s) == Cardinality(Range(s)) = Len(s)
InCore(t) ==
  CASE t.c \in {"Num", "Ten"} -> TRUE
    [] t.c = "Un" -> t.op.n \in CoreUn /\ InCore(t.arg)
    [] t.c = "Bin" -> t.op.n \in CoreBin /\ InCore(t.l) /\ InCore(t.r)
    [] t.c = "Red" ->
         /\ t.op \in CoreRed /\ InCore(t.arg)
         /\ Names(t.vars) \subseteq Names(t.arg.ti)
    [] t.c = "Sub" ->
         /\ InCore(t.arg)
         /\ \A k \in 1..Len(t.subs) :
              LET v == t.subs[k][2] IN
              \/ v.c \in {"Num", "Slice"}
              \/ v.c = "Ten"
              \/ v.c = "Var" /\ ~HasName(FilterPairs(t.arg.ti, Names(t.subs)), v.name)
         /\ \* distinct target names: no two substituted variables coincide
            LET tg == [k \in 1..Len(t.subs) |->
                         IF t.subs[k][2].c = "Var" THEN t.subs[k][2].name
                         ELSE IF t.subs[k][2].c = "Slice" THEN t.subs[k][2].name ELSE ""]
            IN \A i, j \in 1..Len(tg) : (i # j /\ tg[i] # "") => tg[i] # tg[j]
    [] t.c \in {"Stack", "Cat"} -> \A k \in 1..Len(t.parts) : InCore(t.parts[k])
    [] t.c = "Lam" -> InCore(t.expr) /\ HasName(t.expr.ti, t.var[1])
    [] OTHER -> FALSE

\* a core term is *ground* when all its inputs are bounded integers
GroundCore(t) == InCore(t) /\ \A k \in 1..Len(t.ti) : IsBintD(t.ti[k][2])

-----------------------------------------------------------------------------
(* candidate terms for one step, per action *)

Admissible(t) ==
  /\ WellTyped(t)
  /\ \A k \in 1..Len(pool) : pool[k] # t
  /\ DenDefined(t)

Push(t) == pool' = Append(pool, t) /\ nops' = nops + 1

AddLeaf ==
  /\ "Leaf" \in Acts /\ nops = 0 /\ Len(pool) < MaxLeaves
  /\ \E k \in 1..Len(Leaves) :
       \* with "OrderedLeaves" the leaves enter in catalogue order (one pool per leaf SET)
       /\ ("OrderedLeaves" \in Acts /\ pool # <<>>) =>
             \A k2 \in 1..Len(Leaves) : Ann(Leaves[k2]) = pool[Len(pool)] => k2 < k
       /\ \A j \in 1..Len(pool) : pool[j] # Ann(Leaves[k])
       /\ pool' = Append(pool, Ann(Leaves[k])) /\ nops' = nops

\* with "SubLast" a substitution is the last step of a program (nothing is built on top of it)
CanStep == pool # <<>> /\ nops < MaxOps /\ ("SubLast" \in Acts => Last.c # "Sub")

DoUn ==
  /\ "Un" \in Acts /\ CanStep
  /\ \E k \in 1..Len(UnOps) :
       LET t == Mk([c |-> "Un", op |-> UnOps[k], arg |-> Last]) IN Admissible(t) /\ Push(t)

DoBin ==
  /\ "Bin" \in Acts /\ CanStep
  /\ \E k \in 1..Len(BinOps), j \in 1..Len(pool), flip \in BOOLEAN :
       LET t == IF flip THEN Mk([c |-> "Bin", op |-> BinOps[k], l |-> pool[j], r |-> Last])
                ELSE Mk([c |-> "Bin", op |-> BinOps[k], l |-> Last, r |-> pool[j]])
       IN Admissible(t) /\ Push(t)

DoGetitem ==
  /\ "Getitem" \in Acts /\ CanStep
  /\ \E j \in 1..Len(pool), flip \in BOOLEAN :
       LET x == IF flip THEN pool[j] ELSE Last
           i == IF flip THEN Last ELSE pool[j]
       IN \E off \in 0..(Len(x.to.sh) - 1) :
            LET t == Mk([c |-> "Bin", op |-> [n |-> "getitem", p |-> <<off>>], l |-> x, r |-> i])
            IN Admissible(t) /\ Push(t)

\* every non-empty sub-sequence of RedVars, chosen by a bit mask
SubSeqByMask(s, mask) ==
  LET RECURSIVE go(_)
      go(k) == IF k > Len(s) THEN <<>>
               ELSE (IF (mask \div IPow(2, k - 1)) % 2 = 1 THEN <<s[k]>> ELSE <<>>) \o go(k + 1)
  IN go(1)

DoRed ==
  /\ "Red" \in Acts /\ CanStep
  /\ \E k \in 1..Len(RedOps), mask \in 1..(IPow(2, Len(RedVars)) - 1) :
       LET t == Mk([c |-> "Red", op |-> RedOps[k], arg |-> Last, vars |-> SubSeqByMask(RedVars, mask)])
       IN Admissible(t) /\ Push(t)

\* substitution maps: every input of the target (plus one name it does not have)
\* is either left alone (0) or mapped to SubVals[k]
DoSub ==
  /\ "Sub" \in Acts /\ CanStep
  /\ LET ai == Last.ti
         keys == NameSeq(ai) \o (IF HasName(ai, NewNames[1]) THEN <<>> ELSE <<NewNames[1]>>)
     IN \E f \in [1..Len(keys) -> 0..Len(SubVals)] :
          /\ \E k \in 1..Len(keys) : f[k] # 0
          /\ LET RECURSIVE mk(_)
                 mk(k) == IF k > Len(keys) THEN <<>>
                          ELSE (IF f[k] = 0 THEN <<>> ELSE << <<keys[k], ASubVals[f[k]]>> >>) \o mk(k + 1)
                 t == Mk([c |-> "Sub", arg |-> Last, subs |-> mk(1)])
             IN Admissible(t) /\ Push(t)

DoLam ==
  /\ "Lam" \in Acts /\ CanStep
  /\ \E k \in 1..Len(RedVars) :
       LET t == Mk([c |-> "Lam", var |-> RedVars[k], expr |-> Last]) IN Admissible(t) /\ Push(t)

DoStack ==
  /\ "Stack" \in Acts /\ CanStep
  /\ \E j \in 1..Len(pool), n \in 1..Len(NewNames), flip \in BOOLEAN :
       LET t == Mk([c |-> "Stack", name |-> NewNames[n],
                 parts |-> IF flip THEN <<pool[j], Last>> ELSE <<Last, pool[j]>>])
       IN Admissible(t) /\ Push(t)

DoCat ==
  /\ "Cat" \in Acts /\ CanStep
  /\ \E j \in 1..Len(pool), n \in 0..Len(NewNames), p \in 1..Len(RedVars), flip \in BOOLEAN :
       LET pn == RedVars[p][1]
           t == Mk([c |-> "Cat", name |-> IF n = 0 THEN pn ELSE NewNames[n],
                 parts |-> IF flip THEN <<pool[j], Last>> ELSE <<Last, pool[j]>>, pn |-> pn])
       IN Admissible(t) /\ Push(t)

\* a Cat of THREE parts at once (the newest term and two others), under a new name
DoCat3 ==
  /\ "Cat3" \in Acts /\ CanStep /\ Len(pool) >= 3
  /\ \E j1, j2 \in 1..(Len(pool) - 1), n \in 1..Len(NewNames), p \in 1..Len(RedVars), pos \in 1..3 :
       LET pn == RedVars[p][1]
           parts == IF pos = 1 THEN <<Last, pool[j1], pool[j2]>>
                    ELSE IF pos = 2 THEN <<pool[j1], Last, pool[j2]>> ELSE <<pool[j1], pool[j2], Last>>
           t == Mk([c |-> "Cat", name |-> NewNames[n], parts |-> parts, pn |-> pn])
       IN j1 # j2 /\ Admissible(t) /\ Push(t)

DoAlign ==
  /\ "Align" \in Acts /\ CanStep
  /\ LET ns == NameSeq(Last.ti) IN
     \E perm \in [1..Len(ns) -> 1..Len(ns)] :
       /\ \A a, b \in 1..Len(ns) : a # b => perm[a] # perm[b]
       /\ \E a \in 1..Len(ns) : perm[a] # a
       /\ LET t == Mk([c |-> "Align", arg |-> Last, names |-> [k \in 1..Len(ns) |-> ns[perm[k]]]])
          IN Admissible(t) /\ Push(t)

DoIndep ==
  /\ "Indep" \in Acts /\ CanStep
  /\ \E b \in 1..Len(RedVars), n \in 0..Len(NewNames) :
       LET fi == Last.ti IN
       \E d \in 1..Len(fi) :
         /\ fi[d][2].dt = 0
         \* n = 0: the new real input reuses the name of the diagonal variable it replaces
         \* (Independent(f, "value", name, "value"), as funsor.distribution writes it)
         /\ LET t == Mk([c |-> "Indep", fn |-> Last, rv |-> IF n = 0 THEN fi[d][1] ELSE NewNames[n],
                      bv |-> RedVars[b][1], dv |-> fi[d][1]])
            IN Admissible(t) /\ Push(t)

\* a Contraction node built directly: red over a subset of RedVars (present in all, some
\* or none of the operands) of the bin-product of the newest term with 1 or 2 others
DoCon ==
  /\ "Con" \in Acts /\ CanStep /\ Len(pool) >= 2
  /\ \E r \in 1..Len(RedOps), b \in 1..Len(BinOps), mask \in 0..(IPow(2, Len(RedVars)) - 1),
        j \in 1..(Len(pool) - 1), k \in 0..(Len(pool) - 1) :
       /\ k # j
       /\ LET ts == IF k = 0 THEN <<pool[j], Last>> ELSE <<pool[j], Last, pool[k]>>
              t == Mk([c |-> "Con", red |-> IF mask = 0 THEN "nullop" ELSE RedOps[r],
                       bin |-> BinOps[b].n, vars |-> SubSeqByMask(RedVars, mask), terms |-> ts])
          IN /\ mask = 0 => r = 1
             /\ \A x, y \in 1..Len(ts) : SharedAgree(ts[x].ti, ts[y].ti)
             /\ Admissible(t) /\ Push(t)

\* a point mass at the newest term: Delta(name, point = Last, log_density)
DeltaLds == << [c |-> "Num", v |-> Zero, dt |-> 0], [c |-> "Num", v |-> MkL(3, 1), dt |-> 0] >>
DoDelta ==
  /\ "Delta" \in Acts /\ CanStep
  /\ \E n \in 1..Len(NewNames), d \in 1..Len(DeltaLds) :
       LET t == Mk([c |-> "Delta", terms |-> << <<NewNames[n], Last, Mk(DeltaLds[d])>> >>])
       IN Last.c # "Delta" /\ Admissible(t) /\ Push(t)

\* a point mass over TWO variables at once: Delta(((n1, (Last, ld)), (n2, (pool[j], ld'))))
DoDelta2 ==
  /\ "Delta2" \in Acts /\ CanStep /\ Len(pool) >= 2 /\ Len(NewNames) >= 2
  /\ \E j \in 1..(Len(pool) - 1), d \in 1..Len(DeltaLds), flip \in BOOLEAN :
       LET n1 == IF flip THEN NewNames[2] ELSE NewNames[1]
           n2 == IF flip THEN NewNames[1] ELSE NewNames[2]
           t == Mk([c |-> "Delta", terms |-> << <<n1, Last, Mk(DeltaLds[d])>>, <<n2, pool[j], Mk(DeltaLds[1])>> >>])
       IN Last.c # "Delta" /\ pool[j].c # "Delta" /\ Admissible(t) /\ Push(t)

\* Integrate(log_measure, integrand, reduced_vars): measure and integrand from the pool
DoInteg ==
  /\ "Integ" \in Acts /\ CanStep /\ Len(pool) >= 2
  /\ \E j \in 1..(Len(pool) - 1), flip \in BOOLEAN, mask \in 1..(IPow(2, Len(RedVars)) - 1) :
       LET t == Mk([c |-> "Integ", measure |-> IF flip THEN Last ELSE pool[j],
                    integrand |-> IF flip THEN pool[j] ELSE Last, vars |-> SubSeqByMask(RedVars, mask)])
       IN Admissible(t) /\ Push(t)

Next == DoInteg \/ DoDelta \/ DoDelta2 \/ DoCat3 \/ DoCon \/ AddLeaf \/ DoUn \/ DoBin \/ DoGetitem \/ DoRed \/ DoSub \/ DoLam \/ DoStack
        \/ DoCat \/ DoAlign \/ DoIndep

Init == pool = <<>> /\ nops = 0
Spec == Init /\ [][Next]_vars

-----------------------------------------------------------------------------
(* model-level theorems checked on every reachable pool *)

Inv_TypeSound == pool # <<>> => TypeSound(Last)

Inv_InputsDistinct ==
  pool # <<>> => Cardinality(Names(Last.ti)) = Len(Last.ti)

-----------------------------------------------------------------------------
(* homogeneity in the log-valued tensor leaves (C08, float range).  In the (logaddexp, add)
   semiring a term in which every monomial contains the same number d of tensor leaves
   satisfies  [[t with every leaf + c]] = [[t]] + d*c.  HomDeg computes d structurally (HD_None:
   not homogeneous / outside the fragment; HD_Any: the constant -inf, homogeneous of every
   degree), Inv_Homogeneous checks the law on every reachable program for c = log 2 (exactly
   representable), and the harness uses it with |c| = 400, where a naive exp over/underflows:
   the exact algebra cannot hold log k - 400, the law can. *)
HD_None == -1
HD_Any == 99
HdSum(a, b) == IF a = HD_None \/ b = HD_None THEN HD_None
               ELSE IF a = HD_Any \/ b = HD_Any THEN HD_Any ELSE a + b
HdJoin(a, b) == IF a = HD_None \/ b = HD_None THEN HD_None
                ELSE IF a = HD_Any THEN b ELSE IF b = HD_Any THEN a
                ELSE IF a = b THEN a ELSE HD_None
RECURSIVE HomDeg(_)
HomDeg(t) ==
  CASE t.c = "Ten" -> IF t.dt = 0 /\ \A k \in 1..Len(t.data) : (IsLogish(t.data[k]) \/ t.data[k] = NegInf)
                      THEN 1 ELSE HD_None
    [] t.c = "Num" -> IF t.v = NegInf THEN HD_Any ELSE IF IsLogish(t.v) /\ t.dt = 0 THEN 0 ELSE HD_None
    [] t.c = "Bin" -> IF t.op.n = "add" THEN HdSum(HomDeg(t.l), HomDeg(t.r))
                      ELSE IF t.op.n = "logaddexp" THEN HdJoin(HomDeg(t.l), HomDeg(t.r))
                      ELSE HD_None
    [] t.c = "Red" -> IF t.op = "logaddexp" THEN HomDeg(t.arg) ELSE HD_None
    [] t.c = "Con" -> IF t.bin = "add" /\ t.red \in {"logaddexp", "nullop"}
                      THEN LET RECURSIVE go(_)
                               go(k) == IF k > Len(t.terms) THEN 0 ELSE HdSum(HomDeg(t.terms[k]), go(k + 1))
                           IN go(1)
                      ELSE HD_None
    [] OTHER -> HD_None

ShiftScalar(v) == IF v = NegInf THEN v ELSE IF MulOK(2, LN(v)) THEN MkL(2 * LN(v), LD(v)) ELSE Undef
RECURSIVE ShiftLeaves(_)
\* the raw term with log 2 added to every tensor leaf
ShiftLeaves(t) ==
  CASE t.c = "Ten" -> [t EXCEPT !.data = [k \in 1..Len(t.data) |-> ShiftScalar(t.data[k])]]
    [] t.c = "Bin" -> [t EXCEPT !.l = ShiftLeaves(t.l), !.r = ShiftLeaves(t.r)]
    [] t.c = "Red" -> [t EXCEPT !.arg = ShiftLeaves(t.arg)]
    [] t.c = "Con" -> [t EXCEPT !.terms = [k \in 1..Len(t.terms) |-> ShiftLeaves(t.terms[k])]]
    [] OTHER -> t

Inv_Homogeneous ==
  pool # <<>> =>
    LET raw == Strip(Last)
        d == HomDeg(raw)
    IN (d # HD_None /\ d # HD_Any) =>
         LET tb == Table(Last)
             ts == Table(Ann(ShiftLeaves(raw)))
             by == MkL(IPow(2, d), 1)
         IN \A k \in 1..Len(tb) :
              \A j \in 1..Len(tb[k].v) :
                 IsU(tb[k].v[j]) \/ IsU(ts[k].v[j]) \/ ts[k].v[j] = Add(tb[k].v[j], by)

-----------------------------------------------------------------------------
(* emission: one JSON record per state, consumed by harness/replay *)

PtsOf(ins) ==
  [k \in 1..Len(ins) |->
     IF ins[k][2].dt = 0 THEN [j \in 1..Len(RealPts) |-> RealSample(ins[k][2].sh, j)] ELSE <<>>]

Project(t) ==
  LET ins == t.ti  tb == Table(t) IN
  [ins |-> ins, out |-> t.to, pts |-> PtsOf(ins), tab |-> tb,
   core |-> GroundCore(t), dep |-> DependsOnTab(ins, tb), hdeg |-> HomDeg(Strip(t))]

Emit ==
  pool # <<>> /\ (nops > 0 \/ Len(pool) = 1) =>
    PrintT(ToJson([tag |-> Tag, t |-> Strip(Last), exp |-> Project(Last)]))

=============================================================================
