SPECIFICATION Spec
CONSTANTS
  Kinds = {"eager", "lazy", "reflect", "normalize", "sequential", "moment_matching", "U", "adjoint", "memoize"}
  Modes = {"with", "deco"}
  MaxDepth = 4
  MaxEnters = 4
  MaxRaises = 1
  MaxDeco = 2
  Siblings = FALSE
  First = {}
INVARIANT BaseNeverPopped
INVARIANT RestoreInv
INVARIANT FramesOK
INVARIANT Innermost
INVARIANT ExcOK
INVARIANT Emit
PROPERTY Restore
PROPERTY Neutral
CHECK_DEADLOCK FALSE
