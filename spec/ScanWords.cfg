SPECIFICATION Spec
CONSTANTS
  MaxT = 16
  Tag = "scanwords"
INVARIANT ScanInv
INVARIANT FinalEq
INVARIANT Inv_Functional
INVARIANT Emit
CHECK_DEADLOCK FALSE
