------------------------------ MODULE OpProgram ------------------------------
(***************************************************************************)
(* L2, property C18: the straight-line op-program machine, the lowering    *)
(* model and the expression generator of the compiler's fragment.          *)
(*                                                                         *)
(* Phase "build" (a TermMachine-like lens): the state is a pool of         *)
(* well-typed annotated terms of the compiler fragment; an action applies  *)
(* one constructor (Unary, Binary, Contraction without reduction, Tuple) to *)
(* ANY terms of the pool, so shared subexpressions and bushy expressions   *)
(* arise; the newest term is `the expression`.  With Emit the lens prints   *)
(* every expression as an AST for harness/progdriver.py, which hands it to *)
(* the real compiler.                                                      *)
(*                                                                         *)
(* Phase "load".."done" (RunMachine = TRUE): the expression is lowered by  *)
(* the MODEL (ProgSem!Lower) and the program machine runs on it, for every *)
(* binding of the inputs and for bindings with a missing / an unexpected   *)
(* name:                                                                   *)
(*      Compile -> Load -> Bind | Reject -> Exec* -> Return                *)
(* state env (sequence of values), pc.                                     *)
(*                                                                         *)
(* Theorems (invariants, checked by TLC on every reachable state):         *)
(*   Inv_WellFormed    Lower(e) is topologically numbered, arities right   *)
(*   Inv_LowerCorrect  Run(Lower(e), data) = EvalX(e, data) for all data   *)
(*   Inv_SharedOnce    one operation per distinct non-leaf subterm         *)
(*   Inv_RunEq         the step machine computes the function Run          *)
(*   Inv_Result        a finished machine holds the denotation             *)
(*   Inv_Reject        the machine rejects exactly the inexact bindings    *)
(*   Inv_EnvShape      env grows by one value per step; no stuck value     *)
(***************************************************************************)
EXTENDS ProgSem, Json

CONSTANTS
  Leaves,      \* sequence of leaf terms (Var / Num / Ten)
  MaxLeaves,   \* how many leaves a pool may start from
  MaxOps,      \* how many constructor applications after the leaves
  UnOps,       \* sequence of op records for Unary
  BinOps,      \* sequence of op records for Binary
  ConOps,      \* sequence of associative op names for Contraction (red = nullop, no vars)
  ConMax,      \* largest number of Contraction terms (0: no Contraction)
  TupMax,      \* largest Tuple width (0: no Tuple); a Tuple closes the pool
  TupNest,     \* TRUE: a Tuple may contain an earlier Tuple (the model lowers it; compile_funsor mis-numbers it)
  RunMachine,  \* TRUE: run the program machine on every expression
  CheckModel,  \* TRUE: check the lowering theorems on every expression
  Tag          \* lens name copied into emitted records

VARIABLES pool, nleaf, nops, closed, st, prog, kw, env, pc, res

vars == <<pool, nleaf, nops, closed, st, prog, kw, env, pc, res>>
mvars == <<prog, kw, env, pc, res>>

Last == pool[Len(pool)]
Op0(n) == [n |-> n, p |-> <<>>]
NoProg == [consts |-> <<>>, inputs |-> <<>>, ops |-> <<>>]
NoKw == [x \in {} |-> 0]
NoVal == ErrV("none")

-----------------------------------------------------------------------------
(* typing of the fragment: the documented preconditions of each constructor *)

SharedAgree(a, b) ==
  \A k \in 1..Len(a) : HasName(b, a[k][1]) => Lookup(b, a[k][1]) = a[k][2]

Arith == {"add", "sub", "mul", "truediv", "pow", "floordiv", "mod", "logaddexp", "safesub", "safediv"}

UnTypeOK(op, d) ==
  CASE op.n \in {"invert", "not"} -> d.dt = 2
    [] op.n \in ArrayReductions ->
         /\ d.dt = 0 /\ op.n \notin {"all", "any"}
         /\ op.p[1] = NoAxis \/ (op.p[1] >= -Len(d.sh) /\ op.p[1] < Len(d.sh))
    [] op.n = "reshape" -> Size(op.p) = Size(d.sh)
    [] op.n = "getslice" ->
         /\ Len(op.p) <= Len(d.sh)
         /\ \A k \in 1..Len(op.p) : op.p[k].k = "int" /\ op.p[k].i >= 0 /\ op.p[k].i < d.sh[k]
    [] op.n \in PointwiseUnary -> d.dt = 0
    [] OTHER -> FALSE

BinTypeOK(op, a, b) ==
  CASE op.n = "getitem" ->
         /\ op.p[1] < Len(a.sh) /\ IsBintD(b) /\ b.dt = a.sh[op.p[1] + 1]
    [] op.n \in {"and", "or", "xor"} -> a.dt = 2 /\ b.dt = 2 /\ BroadcastShape(a.sh, b.sh) # <<-1>>
    [] op.n \in {"sub", "truediv", "logaddexp", "safesub", "safediv"} ->
         a.dt = 0 /\ b.dt = 0 /\ BroadcastShape(a.sh, b.sh) # <<-1>>
    [] op.n \in {"floordiv", "mod"} -> a.dt > 2 /\ b.dt > 2 /\ a.sh = <<>> /\ b.sh = <<>>
    \* sums/products of two boolean arrays are the business of C01 (numpy computes OR)
    [] op.n \in Arith -> a.dt # 2 /\ b.dt # 2 /\ BroadcastShape(a.sh, b.sh) # <<-1>>
    [] op.n \in PointwiseBinary -> BroadcastShape(a.sh, b.sh) # <<-1>>
    [] OTHER -> FALSE

RECURSIVE ChainOK(_, _)
\* (IF, not a disjunction: inside an action TLC explores both sides of a disjunction)
ChainOK(b, s) ==
  IF Len(s) <= 1 THEN TRUE
  ELSE /\ ChainOK(b, SubSeq(s, 1, Len(s) - 1))
       /\ BinTypeOK(Op0(b), FoldBin(b, SubSeq(s, 1, Len(s) - 1)).to, s[Len(s)].to)

WellTypedP(t) ==
  CASE t.c \in {"Var", "Num", "Ten"} -> TRUE
    [] t.c = "Un" -> UnTypeOK(t.op, t.arg.to)
    [] t.c = "Bin" -> SharedAgree(t.l.ti, t.r.ti) /\ BinTypeOK(t.op, t.l.to, t.r.to)
    [] t.c = "Con" ->
         /\ \A i, j \in 1..Len(t.terms) : SharedAgree(t.terms[i].ti, t.terms[j].ti)
         /\ ChainOK(t.bin, t.terms)
    [] t.c = "Tup" -> \A i, j \in 1..Len(t.args) : SharedAgree(t.args[i].ti, t.args[j].ti)
    [] OTHER -> FALSE

\* pool entries that are not a subterm of another entry.  An expression is emitted from the
\* pool that holds exactly its own subterms (one root); a step that leaves more roots than
\* the remaining steps can join is pruned (no expression is lost: every DAG with at most
\* MaxLeaves leaves and MaxOps inner nodes is built by a pool of its subterms, in every
\* topological order).
NRoots(pl) ==
  Cardinality({k \in 1..Len(pl) : \A j \in 1..Len(pl) : j = k \/ pl[k] \notin SubTerms(pl[j])})
MaxAr == IMax(IMax(IF BinOps = <<>> THEN 1 ELSE 2, ConMax), TupMax)
Joinable(pl, left) == NRoots(pl) - 1 <= left * (MaxAr - 1)

Admissible(t) ==
  /\ WellTypedP(t)
  /\ \A k \in 1..Len(pool) : pool[k] # t
  /\ Joinable(Append(pool, t), MaxOps - (nops + 1))
  /\ DefinedX(t, RealPts)

-----------------------------------------------------------------------------
(* phase build *)

Building == st = "build"
CanStep == Building /\ pool # <<>> /\ nops < MaxOps /\ ~closed

Push(t) ==
  /\ pool' = Append(pool, t) /\ nops' = nops + 1 /\ UNCHANGED <<nleaf, st>> /\ UNCHANGED mvars

\* leaves are taken in increasing index order (a pool is a set of leaves, not a permutation)
AddLeaf ==
  /\ Building /\ nops = 0 /\ Len(pool) < MaxLeaves
  /\ \E k \in (nleaf + 1)..Len(Leaves) :
       /\ pool' = Append(pool, Mk(Leaves[k])) /\ nleaf' = k
       /\ UNCHANGED <<nops, closed, st>> /\ UNCHANGED mvars

DoUn ==
  /\ CanStep
  /\ \E k \in 1..Len(UnOps), j \in 1..Len(pool) :
       LET t == Mk([c |-> "Un", op |-> UnOps[k], arg |-> pool[j]])
       IN Admissible(t) /\ Push(t) /\ UNCHANGED closed

DoBin ==
  /\ CanStep
  /\ \E k \in 1..Len(BinOps), i \in 1..Len(pool), j \in 1..Len(pool) :
       LET t == Mk([c |-> "Bin", op |-> BinOps[k], l |-> pool[i], r |-> pool[j]])
       IN Admissible(t) /\ Push(t) /\ UNCHANGED closed

\* every sequence of n pool positions (repetitions allowed: x * x * y is a Contraction)
DoCon ==
  /\ CanStep /\ ConMax >= 2
  /\ \E k \in 1..Len(ConOps), n \in 2..ConMax :
       \E f \in [1..n -> 1..Len(pool)] :
         LET t == Mk([c |-> "Con", red |-> "nullop", bin |-> ConOps[k], vars |-> <<>>,
                      terms |-> [q \in 1..n |-> pool[f[q]]]])
         IN Admissible(t) /\ Push(t) /\ UNCHANGED closed

DoTup ==
  /\ Building /\ pool # <<>> /\ nops < MaxOps /\ TupMax >= 1
  /\ closed => TupNest
  /\ \E n \in 1..TupMax :
       \E f \in [1..n -> 1..Len(pool)] :
         /\ TupNest \/ \A q \in 1..n : pool[f[q]].c # "Tup"
         /\ closed => \E q \in 1..n : f[q] = Len(pool)
         /\ LET t == Mk([c |-> "Tup", args |-> [q \in 1..n |-> pool[f[q]]]])
            IN Admissible(t) /\ Push(t) /\ closed' = TRUE

-----------------------------------------------------------------------------
(* the program machine *)

\* the bindings a program is run on: every point of the sampled input space, the first
\* point with one name missing (for every name), and the first point with one more name
Bindings(e) ==
  LET es == EnvSeq(e.ti)
      full == {es[k] : k \in 1..Len(es)}
      b1 == es[1]
      missing == {[x \in (DOMAIN b1) \ {n} |-> b1[x]] : n \in DOMAIN b1}
      extra == {[x \in (DOMAIN b1) \cup {"unexpected"} |-> IF x \in DOMAIN b1 THEN b1[x] ELSE Scalar(One)]}
  IN full \cup missing \cup extra

Compile ==
  /\ Building /\ RunMachine /\ pool # <<>> /\ InFragment(Last)
  /\ \E b \in Bindings(Last) :
       /\ st' = "load" /\ prog' = Lower(Last) /\ kw' = b /\ env' = <<>> /\ pc' = 0
       /\ UNCHANGED <<pool, nleaf, nops, closed, res>>

Load ==
  /\ st = "load"
  /\ env' = prog.consts /\ st' = "bind"
  /\ UNCHANGED <<pool, nleaf, nops, closed, prog, kw, pc, res>>

Bind ==
  /\ st = "bind" /\ BindOK(prog, kw)
  /\ env' = env \o [k \in 1..Len(prog.inputs) |-> kw[prog.inputs[k]]]
  /\ st' = "exec" /\ pc' = 1
  /\ UNCHANGED <<pool, nleaf, nops, closed, prog, kw, res>>

Reject ==
  /\ st = "bind" /\ ~BindOK(prog, kw)
  /\ st' = "rejected"
  /\ UNCHANGED <<pool, nleaf, nops, closed, prog, kw, env, pc, res>>

Exec ==
  /\ st = "exec" /\ pc <= Len(prog.ops)
  /\ env' = Append(env, ExecOp(prog.ops[pc], env))
  /\ pc' = pc + 1
  /\ UNCHANGED <<pool, nleaf, nops, closed, st, prog, kw, res>>

Return ==
  /\ st = "exec" /\ pc > Len(prog.ops) /\ env # <<>>
  /\ res' = env[Len(env)] /\ st' = "done"
  /\ UNCHANGED <<pool, nleaf, nops, closed, prog, kw, env, pc>>

Next == AddLeaf \/ DoUn \/ DoBin \/ DoCon \/ DoTup
        \/ Compile \/ Load \/ Bind \/ Reject \/ Exec \/ Return

Init ==
  /\ pool = <<>> /\ nleaf = 0 /\ nops = 0 /\ closed = FALSE /\ st = "build"
  /\ prog = NoProg /\ kw = NoKw /\ env = <<>> /\ pc = 0 /\ res = NoVal

Spec == Init /\ [][Next]_vars

-----------------------------------------------------------------------------
(* theorems about the lowering model (on every expression of the lens) *)

OnExpr == Building /\ CheckModel /\ pool # <<>> /\ InFragment(Last)

Inv_WellFormed == OnExpr => WellFormed(Lower(Last)) = "ok"

Inv_LowerCorrect ==
  OnExpr =>
    LET p == Lower(Last)
        es == EnvSeq(Last.ti)
    IN \A k \in 1..Len(es) : Run(p, es[k]) = EvalX(Last, es[k])

Inv_SharedOnce ==
  OnExpr =>
    LET p == Lower(Last) IN
    /\ Len(p.ops) = DistinctOpNodes(Last)
    /\ Len(p.consts) = DistinctConstNodes(Last)
    /\ SeqRange(p.inputs) = Names(Last.ti)

(* theorems about the machine *)

Inv_RunEq == st = "done" => res = Run(prog, kw)

Inv_Result == st = "done" => res = EvalX(Last, kw)

Inv_Reject ==
  /\ st \in {"exec", "done"} => DOMAIN kw = Names(Last.ti)
  /\ st = "rejected" => DOMAIN kw # Names(Last.ti) /\ Run(prog, kw) = ErrV("rejected")

Inv_EnvShape ==
  /\ st = "bind" => Len(env) = Len(prog.consts)
  /\ st \in {"exec", "done"} =>
       /\ Len(env) = NLeaves(prog) + (pc - 1)
       /\ \A k \in 1..Len(env) : ~IsErrV(env[k])
       /\ env = ExecFrom([prog EXCEPT !.ops = SubSeq(prog.ops, 1, pc - 1)], Env0(prog, kw), 1)

\* every emitted expression is inside the model's fragment unless the lens says otherwise
Inv_Fragment == (Building /\ pool # <<>> /\ \A k \in 1..Len(Leaves) : InFragment(Leaves[k]))
                   => InFragment(Last)

-----------------------------------------------------------------------------
(* emission for harness/progdriver.py: the expression, its inputs, the sample points
   and the size of the model's program *)

AllUsed == NRoots(pool) = 1

Emit ==
  (Building /\ pool # <<>> /\ AllUsed) =>
    PrintT(ToJson([tag |-> Tag, t |-> StripX(Last), ins |-> Last.ti, pts |-> RealPts,
                   frag |-> InFragment(Last),
                   mops |-> IF InFragment(Last) THEN Len(Lower(Last).ops) ELSE -1]))

-----------------------------------------------------------------------------
(* leaf builders for the lenses (spec/lens/prog_*.tla) and the model lens of OpProgram.cfg *)

V(n, d) == [c |-> "Var", name |-> n, dom |-> d]
N(x, dt) == [c |-> "Num", v |-> RInt(x), dt |-> dt]
NS(s) == [c |-> "Num", v |-> s, dt |-> 0]
TenS(ins, sh, dt, xs) == [c |-> "Ten", ins |-> ins, dt |-> dt, sh |-> sh, data |-> xs]
Red1(n, axis, keep) == [n |-> n, p |-> <<axis, keep>>]
GetI(off) == [n |-> "getitem", p |-> <<off>>]
IntP(i) == [k |-> "int", i |-> i]

\* signed non-zero dyadic sample points: division by an input is defined, results exact
PtsSigned == <<Q(-2, 1), Q(-1, 2), One, Q(4, 1)>>
\* positive points with rational square roots; log / log1p of them stay inside the algebra
PtsPos == <<Q(1, 4), One, Q(4, 1), Q(9, 1)>>

M_Leaves == <<V("x", RealD), V("y", Dom(0, <<2>>)), V("i", BintD(3)), NS(Q(2, 1))>>
M_UnOps == <<Op0("neg")>>
M_BinOps == <<Op0("sub"), Op0("truediv"), Op0("lt")>>
M_ConOps == <<"mul">>
\* the thorough model lens (OpProgram_t.cfg)
MT_Leaves == M_Leaves \o <<TenS(<<>>, <<2>>, 0, <<Q(1, 2), Q(3, 1)>>)>>
MT_UnOps == <<Op0("neg"), Red1("sum", NoAxis, 0)>>
MT_BinOps == <<Op0("sub"), Op0("truediv"), Op0("lt"), Op0("pow"), GetI(0)>>
MT_ConOps == <<"mul", "add">>

=============================================================================
