SPECIFICATION Spec
CONSTANTS
  RealPts <- RP
  Tag = "sample"
INVARIANT Emit
CHECK_DEADLOCK FALSE
