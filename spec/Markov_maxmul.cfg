SPECIFICATION Spec
CONSTANTS
  RealPts <- RP
  Durations = {1,2,3,5,8,12}
  Sizes = {2}
  MaxPairs = 2
  Plus = "max"
  Times = "mul"
  LeafKind = "lin"
  MaxParamT = 6
  Tag = "mk_maxmul"
INVARIANT Inv_FoldInputs
INVARIANT Emit
CHECK_DEADLOCK FALSE
