------------------------------- MODULE Values -------------------------------
(***************************************************************************)
(* L0: the exact value algebra underneath every funsor term.               *)
(*                                                                         *)
(* A scalar is a uniform triple <<kind, n, d>> (TLC cannot compare an      *)
(* integer with a tuple or a string, so every scalar has the same shape):  *)
(*   <<"R", n, d>>   the rational n/d, d > 0, gcd(n,d) = 1                 *)
(*   <<"L", n, d>>   log(n/d), n > 0, d > 0, n # d, gcd = 1                *)
(*   <<"NI",0,1>>    minus infinity        <<"PI",0,1>>  plus infinity     *)
(*   <<"U", 0,1>>    undefined / outside the algebra (NaN, mixed kinds,    *)
(*                   irrational results).  U is absorbing.                 *)
(* log(1) is canonically R(0): MkL(1,1) = Zero, and Zero is accepted by    *)
(* every log-domain operation.                                             *)
(*                                                                         *)
(* An array value is [sh |-> shape, v |-> row-major scalars]; a plain      *)
(* scalar is the array of shape <<>> with one element.  Multi-indices and  *)
(* flat offsets are 0-based; v is a TLA+ sequence, so element k is v[k+1]. *)
(***************************************************************************)
EXTENDS Integers, Sequences, FiniteSets, TLC

-----------------------------------------------------------------------------
(* integer helpers *)

IAbs(x) == IF x < 0 THEN -x ELSE x
IMax(a, b) == IF a >= b THEN a ELSE b
IMin(a, b) == IF a <= b THEN a ELSE b

RECURSIVE GCD(_, _)
GCD(a, b) == IF b = 0 THEN a ELSE GCD(b, a % b)

\* TLC integers are 32-bit and overflow is a run-time error.  Every product the
\* algebra forms is guarded; a result that would not fit is Undef (never wrong).
MaxI == 1073741824
MulOK(a, b) == a = 0 \/ b = 0 \/ IAbs(a) <= MaxI \div IAbs(b)
Sat == MaxI + 1
RECURSIVE IPowR(_, _)
IPowR(b, e) ==
  IF e = 0 THEN 1
  ELSE LET r == IPowR(b, e - 1) IN
       IF r = Sat \/ ~MulOK(r, b) THEN Sat ELSE r * b
\* b^e (e >= 0), or Sat when it does not fit; recursion depth is at most 31
IPow(b, e) ==
  CASE e <= 0 -> 1
    [] b = 0 -> 0
    [] b = 1 -> 1
    [] b = -1 -> (IF e % 2 = 0 THEN 1 ELSE -1)
    [] e > 31 -> Sat
    [] OTHER -> IPowR(b, e)

\* floor division and python-style modulus for any non-zero divisor
FloorDiv(a, b) == IF b > 0 THEN a \div b ELSE (-a) \div (-b)
PyMod(a, b) == a - b * FloorDiv(a, b)
CeilDiv(a, b) == -FloorDiv(-a, b)

RECURSIVE SeqProd(_)
SeqProd(s) == IF s = <<>> THEN 1 ELSE Head(s) * SeqProd(Tail(s))

RECURSIVE SeqSum(_)
SeqSum(s) == IF s = <<>> THEN 0 ELSE Head(s) + SeqSum(Tail(s))

-----------------------------------------------------------------------------
(* scalars *)

Undef  == <<"U", 0, 1>>
NegInf == <<"NI", 0, 1>>
PosInf == <<"PI", 0, 1>>
Zero   == <<"R", 0, 1>>
One    == <<"R", 1, 1>>

Q(n, d) ==
  IF d = 0 THEN Undef
  ELSE LET s == IF d < 0 THEN -1 ELSE 1
           g == GCD(IAbs(n), IAbs(d))
       IN <<"R", (s * n) \div g, (s * d) \div g>>

RInt(n) == <<"R", n, 1>>

MkL(n, d) ==
  IF n <= 0 \/ d <= 0 THEN Undef
  ELSE LET g == GCD(n, d) IN
       IF n = d THEN Zero ELSE <<"L", n \div g, d \div g>>

Kind(v) == v[1]
IsU(v) == v[1] = "U"
IsR(v) == v[1] = "R"
IsL(v) == v[1] = "L"
IsInf(v) == v[1] = "NI" \/ v[1] = "PI"
IsLogish(v) == v[1] = "L" \/ v = Zero
\* ratio inside the logarithm (Zero is log 1)
LN(v) == IF v[1] = "L" THEN v[2] ELSE 1
LD(v) == IF v[1] = "L" THEN v[3] ELSE 1
IsIntR(v) == v[1] = "R" /\ v[3] = 1
IsBoolR(v) == v = Zero \/ v = One
Bool(b) == IF b THEN One ELSE Zero

\* sign of a defined scalar: -1, 0, 1
Sgn(v) ==
  CASE v[1] = "R" -> (IF v[2] > 0 THEN 1 ELSE IF v[2] < 0 THEN -1 ELSE 0)
    [] v[1] = "L" -> (IF v[2] > v[3] THEN 1 ELSE -1)
    [] v[1] = "NI" -> -1
    [] v[1] = "PI" -> 1
    [] OTHER -> 0

\* total order where defined: -1, 0, 1, or 2 for "not comparable"
Cmp(a, b) ==
  CASE IsU(a) \/ IsU(b) -> 2
    [] a = b -> 0
    [] a[1] = "NI" \/ b[1] = "PI" -> -1
    [] a[1] = "PI" \/ b[1] = "NI" -> 1
    [] IsR(a) /\ IsR(b) ->
         (IF ~(MulOK(a[2], b[3]) /\ MulOK(b[2], a[3])) THEN 2 ELSE
          LET x == a[2] * b[3]  y == b[2] * a[3]
          IN IF x < y THEN -1 ELSE IF x > y THEN 1 ELSE 0)
    [] IsLogish(a) /\ IsLogish(b) ->
         (IF ~(MulOK(LN(a), LD(b)) /\ MulOK(LN(b), LD(a))) THEN 2 ELSE
          LET x == LN(a) * LD(b)  y == LN(b) * LD(a)
          IN IF x < y THEN -1 ELSE IF x > y THEN 1 ELSE 0)
    [] IsR(a) /\ IsL(b) -> (IF Sgn(a) # Sgn(b) THEN (IF Sgn(a) < Sgn(b) THEN -1 ELSE 1) ELSE 2)
    [] IsL(a) /\ IsR(b) -> (IF Sgn(a) # Sgn(b) THEN (IF Sgn(a) < Sgn(b) THEN -1 ELSE 1) ELSE 2)
    [] OTHER -> 2

Neg(v) ==
  CASE IsR(v) -> Q(-v[2], v[3])
    [] IsL(v) -> MkL(v[3], v[2])
    [] v[1] = "NI" -> PosInf
    [] v[1] = "PI" -> NegInf
    [] OTHER -> Undef

Add(a, b) ==
  CASE IsU(a) \/ IsU(b) -> Undef
    [] IsR(a) /\ IsR(b) ->
         (IF a[3] = 1 /\ b[3] = 1
          THEN (IF IAbs(a[2]) < MaxI \div 2 /\ IAbs(b[2]) < MaxI \div 2 THEN RInt(a[2] + b[2]) ELSE Undef)
          ELSE IF MulOK(a[2], b[3]) /\ MulOK(b[2], a[3]) /\ MulOK(a[3], b[3])
                  /\ IAbs(a[2] * b[3]) < MaxI \div 2 /\ IAbs(b[2] * a[3]) < MaxI \div 2
          THEN Q(a[2] * b[3] + b[2] * a[3], a[3] * b[3]) ELSE Undef)
    [] IsInf(a) /\ IsInf(b) -> (IF a = b THEN a ELSE Undef)
    [] IsInf(a) -> a
    [] IsInf(b) -> b
    [] IsLogish(a) /\ IsLogish(b) ->
         (IF MulOK(LN(a), LN(b)) /\ MulOK(LD(a), LD(b))
          THEN MkL(LN(a) * LN(b), LD(a) * LD(b)) ELSE Undef)
    [] OTHER -> Undef

Sub(a, b) == Add(a, Neg(b))

\* n-th power of the ratio inside a log:  k * log(n/d)
MkLS(n, d) == IF n = Sat \/ d = Sat THEN Undef ELSE MkL(n, d)
QS(n, d) == IF n = Sat \/ d = Sat \/ n = -Sat THEN Undef ELSE Q(n, d)
LogScale(k, v) ==
  IF k = 0 THEN Zero
  ELSE IF k > 0 THEN MkLS(IPow(LN(v), k), IPow(LD(v), k))
  ELSE MkLS(IPow(LD(v), -k), IPow(LN(v), -k))

Mul(a, b) ==
  CASE IsU(a) \/ IsU(b) -> Undef
    [] IsR(a) /\ IsR(b) ->
         (IF MulOK(a[2], b[2]) /\ MulOK(a[3], b[3]) THEN Q(a[2] * b[2], a[3] * b[3]) ELSE Undef)
    [] IsInf(a) /\ IsInf(b) -> (IF a = b THEN PosInf ELSE NegInf)
    [] IsInf(a) -> (IF Sgn(b) = 0 THEN Undef ELSE IF Sgn(b) > 0 THEN a ELSE Neg(a))
    [] IsInf(b) -> (IF Sgn(a) = 0 THEN Undef ELSE IF Sgn(a) > 0 THEN b ELSE Neg(b))
    [] IsIntR(a) /\ IsL(b) -> LogScale(a[2], b)
    [] IsL(a) /\ IsIntR(b) -> LogScale(b[2], a)
    [] OTHER -> Undef

Recip(v) ==
  CASE IsR(v) /\ v[2] # 0 -> Q(v[3], v[2])
    [] IsInf(v) -> Zero
    [] OTHER -> Undef

TrueDiv(a, b) ==
  CASE IsU(a) \/ IsU(b) -> Undef
    [] IsR(b) /\ b[2] = 0 -> Undef
    [] IsInf(a) /\ IsInf(b) -> Undef
    [] IsL(a) /\ IsIntR(b) /\ IAbs(b[2]) = 1 -> Mul(a, b)
    [] IsL(a) \/ IsL(b) -> Undef
    [] OTHER -> Mul(a, Recip(b))

SMax(a, b) == LET c == Cmp(a, b) IN IF c = 2 THEN Undef ELSE IF c >= 0 THEN a ELSE b
SMin(a, b) == LET c == Cmp(a, b) IN IF c = 2 THEN Undef ELSE IF c <= 0 THEN a ELSE b

LogAddExp(a, b) ==
  CASE IsU(a) \/ IsU(b) -> Undef
    [] a[1] = "PI" \/ b[1] = "PI" -> PosInf
    [] a[1] = "NI" -> b
    [] b[1] = "NI" -> a
    [] IsLogish(a) /\ IsLogish(b) ->
         (IF MulOK(LN(a), LD(b)) /\ MulOK(LN(b), LD(a)) /\ MulOK(LD(a), LD(b))
             /\ LN(a) * LD(b) < MaxI \div 2 /\ LN(b) * LD(a) < MaxI \div 2
          THEN MkL(LN(a) * LD(b) + LN(b) * LD(a), LD(a) * LD(b)) ELSE Undef)
    [] OTHER -> Undef

Exp(v) ==
  CASE IsLogish(v) -> Q(LN(v), LD(v))
    [] v[1] = "NI" -> Zero
    [] v[1] = "PI" -> PosInf
    [] OTHER -> Undef

Log(v) ==
  CASE IsR(v) /\ v[2] > 0 -> MkL(v[2], v[3])
    [] v = Zero -> NegInf
    [] v[1] = "PI" -> PosInf
    [] OTHER -> Undef

SAbs(v) == IF IsU(v) THEN Undef ELSE IF Sgn(v) < 0 THEN Neg(v) ELSE v

SPow(a, b) ==
  CASE IsU(a) \/ IsU(b) -> Undef
    [] IsR(a) /\ IsIntR(b) /\ b[2] >= 0 /\ b[2] <= 64 ->
         (LET m == IPow(IAbs(a[2]), b[2])
              sg == IF a[2] < 0 /\ b[2] % 2 = 1 THEN -1 ELSE 1
          IN IF m = Sat THEN Undef ELSE QS(sg * m, IPow(a[3], b[2])))
    [] IsR(a) /\ IsIntR(b) /\ b[2] < 0 /\ b[2] >= -64 /\ a[2] # 0 ->
         (LET m == IPow(IAbs(a[2]), -b[2])
              sg == IF a[2] < 0 /\ (-b[2]) % 2 = 1 THEN -1 ELSE 1
          IN IF m = Sat THEN Undef ELSE QS(sg * IPow(a[3], -b[2]), m))
    [] OTHER -> Undef

SFloorDiv(a, b) ==
  IF IsIntR(a) /\ IsIntR(b) /\ b[2] # 0 THEN RInt(FloorDiv(a[2], b[2])) ELSE Undef
SMod(a, b) ==
  IF IsIntR(a) /\ IsIntR(b) /\ b[2] # 0 THEN RInt(PyMod(a[2], b[2])) ELSE Undef

Compare(op, a, b) ==
  LET c == Cmp(a, b) IN
  IF c = 2 THEN Undef
  ELSE Bool(CASE op = "eq" -> c = 0
              [] op = "ne" -> c # 0
              [] op = "lt" -> c < 0
              [] op = "le" -> c <= 0
              [] op = "gt" -> c > 0
              [] op = "ge" -> c >= 0)

Logic(op, a, b) ==
  IF ~(IsBoolR(a) /\ IsBoolR(b)) THEN Undef
  ELSE Bool(CASE op = "and" -> a = One /\ b = One
              [] op = "or"  -> a = One \/ b = One
              [] op = "xor" -> a # b)

\* integer square root for perfect squares
RECURSIVE ISqrtFrom(_, _)
ISqrtFrom(n, k) == IF k * k >= n THEN k ELSE ISqrtFrom(n, k + 1)
Sqrt(v) ==
  IF IsR(v) /\ v[2] >= 0
  THEN LET a == ISqrtFrom(v[2], 0)  b == ISqrtFrom(v[3], 0)
       IN IF a * a = v[2] /\ b * b = v[3] THEN Q(a, b) ELSE Undef
  ELSE IF v[1] = "PI" THEN PosInf ELSE Undef

-----------------------------------------------------------------------------
(* the scalar op tables; op names are funsor's op names *)

BinaryOpNames == {"add", "sub", "mul", "truediv", "max", "min", "logaddexp", "pow",
                  "floordiv", "mod", "eq", "ne", "lt", "le", "gt", "ge",
                  "and", "or", "xor", "safesub", "safediv", "sample", "nullop"}
UnaryOpNames == {"neg", "abs", "exp", "log", "reciprocal", "invert", "sqrt",
                 "pos", "log1p", "expm1", "not"}

Apply2(op, a, b) ==
  CASE op = "add" -> Add(a, b)
    [] op = "sub" -> Sub(a, b)
    [] op = "mul" -> Mul(a, b)
    [] op = "truediv" -> TrueDiv(a, b)
    [] op = "max" -> SMax(a, b)
    [] op = "min" -> SMin(a, b)
    [] op = "logaddexp" -> LogAddExp(a, b)
    [] op = "pow" -> SPow(a, b)
    [] op = "floordiv" -> SFloorDiv(a, b)
    [] op = "mod" -> SMod(a, b)
    [] op \in {"eq", "ne", "lt", "le", "gt", "ge"} -> Compare(op, a, b)
    [] op \in {"and", "or", "xor"} -> Logic(op, a, b)
    [] op = "safesub" -> Sub(a, b)
    [] op = "safediv" -> TrueDiv(a, b)
    [] OTHER -> Undef

Apply1(op, a) ==
  CASE op = "neg" -> Neg(a)
    [] op = "pos" -> a
    [] op = "abs" -> SAbs(a)
    [] op = "exp" -> Exp(a)
    [] op = "log" -> Log(a)
    [] op = "reciprocal" -> Recip(a)
    [] op = "sqrt" -> Sqrt(a)
    [] op = "invert" -> (IF IsBoolR(a) THEN Bool(a = Zero) ELSE Undef)
    [] op = "not" -> (IF IsBoolR(a) THEN Bool(a = Zero) ELSE Undef)
    [] op = "log1p" -> (IF IsR(a) THEN Log(Add(a, One)) ELSE Undef)
    [] op = "expm1" -> (IF IsLogish(a) \/ a[1] = "NI" THEN Sub(Exp(a), One) ELSE Undef)
    [] OTHER -> Undef

\* textbook unit of an associative op (the neutral element of its monoid)
TextbookUnit(op) ==
  CASE op = "add" -> Zero
    [] op = "mul" -> One
    [] op = "logaddexp" -> NegInf
    [] op = "max" -> NegInf
    [] op = "min" -> PosInf
    [] op = "and" -> One
    [] op = "or" -> Zero
    [] op = "xor" -> Zero
    [] OTHER -> Undef

RECURSIVE FoldOp(_, _)
\* fold of a non-empty sequence of scalars with an associative op
FoldOp(op, s) ==   \* balanced, so that the recursion depth is logarithmic
  IF Len(s) = 1 THEN s[1]
  ELSE LET m == Len(s) \div 2 IN
       Apply2(op, FoldOp(op, SubSeq(s, 1, m)), FoldOp(op, SubSeq(s, m + 1, Len(s))))

FoldOpU(op, s) == IF s = <<>> THEN TextbookUnit(op) ELSE FoldOp(op, s)

\* n-fold op-product of v with itself (n >= 1): the value of reducing, with op,
\* over a variable of size n that the argument does not mention
OpPower(op, v, n) ==
  CASE n = 1 -> v
    [] op = "add" -> Mul(RInt(n), v)
    [] op = "mul" -> SPow(v, RInt(n))
    [] op = "logaddexp" -> (IF v[1] = "NI" THEN v ELSE Add(v, Log(RInt(n))))
    [] op \in {"max", "min", "and", "or"} -> v
    [] op = "xor" -> (IF n % 2 = 1 THEN v ELSE (IF IsBoolR(v) THEN Zero ELSE Undef))
    [] OTHER -> Undef

-----------------------------------------------------------------------------
(* arrays *)

Arr(sh, v) == [sh |-> sh, v |-> v]
Scalar(x) == [sh |-> <<>>, v |-> <<x>>]
IsArr(a) == TRUE
Size(sh) == SeqProd(sh)
HasU(a) == \E k \in 1..Len(a.v) : IsU(a.v[k])
UArr == Scalar(Undef)
ScalarOf(a) == a.v[1]

\* row-major flat offset (0-based) of a 0-based multi-index
RECURSIVE Flat(_, _)
Flat(idx, sh) ==
  IF idx = <<>> THEN 0
  ELSE Head(idx) * SeqProd(Tail(sh)) + Flat(Tail(idx), Tail(sh))

RECURSIVE Unflat(_, _)
Unflat(k, sh) ==
  IF sh = <<>> THEN <<>>
  ELSE LET p == SeqProd(Tail(sh)) IN <<k \div p>> \o Unflat(k % p, Tail(sh))

At(a, idx) == a.v[Flat(idx, a.sh) + 1]

\* numpy broadcasting of two shapes (right aligned); <<-1>> if incompatible
RECURSIVE BroadcastShape(_, _)
BroadcastShape(s1, s2) ==
  IF s1 = <<>> THEN s2
  ELSE IF s2 = <<>> THEN s1
  ELSE LET a == s1[Len(s1)]  b == s2[Len(s2)]
           rest == BroadcastShape(SubSeq(s1, 1, Len(s1) - 1), SubSeq(s2, 1, Len(s2) - 1))
       IN IF rest = <<-1>> \/ (a # b /\ a # 1 /\ b # 1) THEN <<-1>>
          ELSE Append(rest, IMax(a, b))

\* read element of `a` at the position that broadcasting maps result index idx to
BAt(a, idx) ==
  LET off == Len(idx) - Len(a.sh)
      own == [j \in 1..Len(a.sh) |-> IF a.sh[j] = 1 THEN 0 ELSE idx[off + j]]
  IN At(a, own)

Pointwise1(op, a) == [sh |-> a.sh, v |-> [k \in 1..Len(a.v) |-> Apply1(op, a.v[k])]]

Pointwise2(op, a, b) ==
  LET sh == BroadcastShape(a.sh, b.sh) IN
  IF sh = <<-1>> THEN UArr
  ELSE IF a.sh = b.sh
  THEN [sh |-> sh, v |-> [k \in 1..Len(a.v) |-> Apply2(op, a.v[k], b.v[k])]]
  ELSE [sh |-> sh,
        v |-> [k \in 1..Size(sh) |->
                 LET idx == Unflat(k - 1, sh) IN Apply2(op, BAt(a, idx), BAt(b, idx))]]

Broadcast(a, sh) ==
  [sh |-> sh, v |-> [k \in 1..Size(sh) |-> BAt(a, Unflat(k - 1, sh))]]

\* remove position p (1-based) of a sequence
DropAt(s, p) == IF p < 1 \/ p > Len(s) THEN s ELSE SubSeq(s, 1, p - 1) \o SubSeq(s, p + 1, Len(s))
InsertAt(s, p, x) == SubSeq(s, 1, p - 1) \o <<x>> \o SubSeq(s, p, Len(s))

\* reduce one axis (0-based, already non-negative) with an associative op
ReduceAxis1(op, a, axis, keepdims) ==
  LET n == a.sh[axis + 1]
      rsh == DropAt(a.sh, axis + 1)
      ksh == IF keepdims THEN [j \in 1..Len(a.sh) |-> IF j = axis + 1 THEN 1 ELSE a.sh[j]]
             ELSE rsh
  IN [sh |-> ksh,
      v |-> [k \in 1..Size(rsh) |->
               LET ridx == Unflat(k - 1, rsh)
               IN FoldOpU(op, [i \in 1..n |-> At(a, InsertAt(ridx, axis + 1, i - 1))])]]

RECURSIVE ReduceAll(_, _)
ReduceAll(op, a) == Scalar(FoldOpU(op, a.v))

\* statistics of a non-empty sequence of scalars: mean, variance with `ddof` delta degrees of
\* freedom (numpy: sum((x - mean)^2) / (n - ddof)), standard deviation (defined in the exact
\* algebra only when the variance is a perfect square)
SeqMean(xs) == TrueDiv(FoldOpU("add", xs), RInt(Len(xs)))
SeqVar(xs, ddof) ==
  LET m == SeqMean(xs)
      sq == [k \in 1..Len(xs) |-> LET dlt == Sub(xs[k], m) IN Mul(dlt, dlt)]
  IN IF Len(xs) - ddof <= 0 THEN Undef ELSE TrueDiv(FoldOpU("add", sq), RInt(Len(xs) - ddof))
StatOf(r, xs, ddof) ==
  CASE r = "mean" -> SeqMean(xs)
    [] r = "var" -> SeqVar(xs, ddof)
    [] r = "std" -> Sqrt(SeqVar(xs, ddof))
    [] OTHER -> Undef
StatAxis1(r, a, axis, keepdims, ddof) ==
  LET n == a.sh[axis + 1]
      rsh == DropAt(a.sh, axis + 1)
      ksh == IF keepdims THEN [j \in 1..Len(a.sh) |-> IF j = axis + 1 THEN 1 ELSE a.sh[j]]
             ELSE rsh
  IN [sh |-> ksh,
      v |-> [k \in 1..Size(rsh) |->
               LET ridx == Unflat(k - 1, rsh)
               IN StatOf(r, [i \in 1..n |-> At(a, InsertAt(ridx, axis + 1, i - 1))], ddof)]]

ReduceName2Op(r) ==
  CASE r = "sum" -> "add"
    [] r = "prod" -> "mul"
    [] r = "amax" -> "max"
    [] r = "amin" -> "min"
    [] r = "all" -> "and"
    [] r = "any" -> "or"
    [] r = "logsumexp" -> "logaddexp"
    [] OTHER -> "none"

\* numpy-style reduction: axis = -100 encodes axis=None
NoAxis == -100
StatArr(r, a, axis, keepdims, ddof) ==
  IF axis = NoAxis
  THEN IF keepdims
       THEN [sh |-> [j \in 1..Len(a.sh) |-> 1], v |-> <<StatOf(r, a.v, ddof)>>]
       ELSE Scalar(StatOf(r, a.v, ddof))
  ELSE StatAxis1(r, a, IF axis < 0 THEN axis + Len(a.sh) ELSE axis, keepdims, ddof)

ReduceArr(r, a, axis, keepdims) ==
  LET op == ReduceName2Op(r) IN
  IF axis = NoAxis
  THEN IF keepdims
       THEN [sh |-> [j \in 1..Len(a.sh) |-> 1], v |-> <<FoldOpU(op, a.v)>>]
       ELSE Scalar(FoldOpU(op, a.v))
  ELSE ReduceAxis1(op, a, IF axis < 0 THEN axis + Len(a.sh) ELSE axis, keepdims)

\* reduction over TWO axes given as a tuple (each possibly negative, distinct after
\* normalisation): numpy's axis=(a1, a2)
NormAxis(ax, nd) == IF ax < 0 THEN ax + nd ELSE ax
ReduceArr2(r, a, ax1, ax2, keepdims) ==
  LET op == ReduceName2Op(r)
      nd == Len(a.sh)
      n1 == NormAxis(ax1, nd)
      n2 == NormAxis(ax2, nd)
      hi == IF n1 > n2 THEN n1 ELSE n2
      lo == IF n1 > n2 THEN n2 ELSE n1
      red == ReduceAxis1(op, ReduceAxis1(op, a, hi, FALSE), lo, FALSE)
  IN IF nd < 2 \/ n1 < 0 \/ n2 < 0 \/ n1 >= nd \/ n2 >= nd \/ n1 = n2 THEN UArr
     ELSE IF keepdims
     THEN [sh |-> [j \in 1..nd |-> IF j = n1 + 1 \/ j = n2 + 1 THEN 1 ELSE a.sh[j]], v |-> red.v]
     ELSE red

Reshape(a, sh) == IF Size(sh) = Size(a.sh) THEN [sh |-> sh, v |-> a.v] ELSE UArr

\* x[..., i] along 0-based axis `axis` of the event shape
TakeAxis(a, axis, i) ==
  LET rsh == DropAt(a.sh, axis + 1) IN
  IF i < 0 \/ i >= a.sh[axis + 1] THEN UArr
  ELSE [sh |-> rsh,
        v |-> [k \in 1..Size(rsh) |-> At(a, InsertAt(Unflat(k - 1, rsh), axis + 1, i))]]

\* basic slicing along one axis: indices start, start+step, ... (count n)
SliceAxis(a, axis, start, step, n) ==
  LET nsh == [j \in 1..Len(a.sh) |-> IF j = axis + 1 THEN n ELSE a.sh[j]] IN
  [sh |-> nsh,
   v |-> [k \in 1..Size(nsh) |->
            LET idx == Unflat(k - 1, nsh)
            IN At(a, [j \in 1..Len(idx) |-> IF j = axis + 1 THEN start + step * idx[j] ELSE idx[j]])]]

Permute(a, perm) ==  \* perm[j] = source axis (1-based) of result axis j
  LET nsh == [j \in 1..Len(perm) |-> a.sh[perm[j]]] IN
  [sh |-> nsh,
   v |-> [k \in 1..Size(nsh) |->
            LET idx == Unflat(k - 1, nsh)
                src == [s \in 1..Len(perm) |->
                          idx[CHOOSE j \in 1..Len(perm) : perm[j] = s]]
            IN At(a, src)]]

\* matrix product in the (add, mul) semiring, numpy shape rules for rank <= 2
MatMul(a, b) ==
  LET ra == Len(a.sh)  rb == Len(b.sh) IN
  CASE ra = 1 /\ rb = 1 /\ a.sh = b.sh ->
         Scalar(FoldOpU("add", [i \in 1..a.sh[1] |-> Mul(a.v[i], b.v[i])]))
    [] ra = 2 /\ rb = 1 /\ a.sh[2] = b.sh[1] ->
         [sh |-> <<a.sh[1]>>,
          v |-> [r \in 1..a.sh[1] |->
                   FoldOpU("add", [i \in 1..a.sh[2] |-> Mul(At(a, <<r - 1, i - 1>>), b.v[i])])]]
    [] ra = 1 /\ rb = 2 /\ a.sh[1] = b.sh[1] ->
         [sh |-> <<b.sh[2]>>,
          v |-> [c \in 1..b.sh[2] |->
                   FoldOpU("add", [i \in 1..a.sh[1] |-> Mul(a.v[i], At(b, <<i - 1, c - 1>>))])]]
    [] ra = 2 /\ rb = 2 /\ a.sh[2] = b.sh[1] ->
         [sh |-> <<a.sh[1], b.sh[2]>>,
          v |-> [k \in 1..(a.sh[1] * b.sh[2]) |->
                   LET r == (k - 1) \div b.sh[2]  c == (k - 1) % b.sh[2] IN
                   FoldOpU("add", [i \in 1..a.sh[2] |->
                                     Mul(At(a, <<r, i - 1>>), At(b, <<i - 1, c>>))])]]
    [] OTHER -> UArr

\* stack a non-empty sequence of equal-shaped arrays along a new leading axis
StackArr(as) ==
  [sh |-> <<Len(as)>> \o as[1].sh,
   v |-> [k \in 1..(Len(as) * Size(as[1].sh)) |->
            as[((k - 1) \div Size(as[1].sh)) + 1].v[((k - 1) % Size(as[1].sh)) + 1]]]

=============================================================================
