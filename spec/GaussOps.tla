------------------------------ MODULE GaussOps ------------------------------
(***************************************************************************)
(* L2: closed forms for Gaussian marginals, normalisers, plate sums,       *)
(* mixtures and integrals (C13), over exact rationals.                     *)
(*                                                                         *)
(* A Gaussian leaf [c |-> "Gauss", ins, rank, S, w] (see Sem.tla) has, per *)
(* batch index, the dense form   q(x) = -1/2 x'Px + x'eta + c   with       *)
(*   P = S S',  eta = S w,  c = -1/2 w'w.                                  *)
(* Marginalising the real block B (keeping A):                             *)
(*   P'   = P_AA - P_AB P_BB^-1 P_BA                                       *)
(*   eta' = eta_A - P_AB P_BB^-1 eta_B                                     *)
(*   c'   = c + 1/2 eta_B' P_BB^-1 eta_B + |B|/2 log(2 pi) - 1/2 log det P_BB *)
(* A value of the form  q + (k/2) log(2 pi) - 1/2 log p  is emitted as the *)
(* record [q, k, p] (q, p exact rationals); the harness only converts it   *)
(* to a float.  P_BB^-1 is computed by the adjugate for |B| <= 2 and by    *)
(* Gauss-Jordan elimination over the rationals for |B| = 3.                *)
(*                                                                         *)
(* TLC enumerates (leaf, reduced subset) problems and emits: the marginal  *)
(* at every sample point of the kept inputs; the log-normaliser; the mean; *)
(* E[x] and E[f] for a second Gaussian f (Integrate); per-component values *)
(* for mixture reductions.  Model-level theorems checked on every problem: *)
(* marginalising B1 then B2 equals marginalising B1 u B2 (Inv_Commute) and *)
(* marginalising then evaluating the kept inputs equals evaluating then    *)
(* marginalising (Inv_EvalCommute).                                        *)
(***************************************************************************)
EXTENDS Sem, Json

CONSTANTS GLeaves, Tag
VARIABLE g      \* [leaf |-> index into GLeaves, red |-> set of real input names]

RP == <<Q(-1, 1), Zero, Q(1, 2), Q(2, 1)>>

-----------------------------------------------------------------------------
(* rational matrices: sequences of rows of scalars *)

MGet(M, i, j) == M[i][j]
MRows(M) == Len(M)
MCols(M) == IF M = <<>> THEN 0 ELSE Len(M[1])
Dot(u, v) == FoldOpU("add", [k \in 1..Len(u) |-> Mul(u[k], v[k])])
MT(M) == [j \in 1..MCols(M) |-> [i \in 1..MRows(M) |-> M[i][j]]]
MMul(A, B) == [i \in 1..MRows(A) |-> [j \in 1..MCols(B) |-> Dot(A[i], [k \in 1..MRows(B) |-> B[k][j]])]]
MVec(A, v) == [i \in 1..MRows(A) |-> Dot(A[i], v)]
MSub(A, B) == [i \in 1..MRows(A) |-> [j \in 1..MCols(A) |-> Sub(A[i][j], B[i][j])]]
VSub(u, v) == [k \in 1..Len(u) |-> Sub(u[k], v[k])]
SubMat(M, rs, cs) == [i \in 1..Len(rs) |-> [j \in 1..Len(cs) |-> M[rs[i]][cs[j]]]]
SubVec(v, rs) == [i \in 1..Len(rs) |-> v[rs[i]]]

Det(M) ==
  CASE MRows(M) = 0 -> One
    [] MRows(M) = 1 -> M[1][1]
    [] MRows(M) = 2 -> Sub(Mul(M[1][1], M[2][2]), Mul(M[1][2], M[2][1]))
    [] MRows(M) = 3 ->
         Add(Sub(Mul(M[1][1], Sub(Mul(M[2][2], M[3][3]), Mul(M[2][3], M[3][2]))),
                 Mul(M[1][2], Sub(Mul(M[2][1], M[3][3]), Mul(M[2][3], M[3][1])))),
             Mul(M[1][3], Sub(Mul(M[2][1], M[3][2]), Mul(M[2][2], M[3][1]))))
    [] OTHER -> Undef

Cof3(M, i, j) ==   \* cofactor of a 3x3 matrix
  LET rs == SelectSeq(<<1, 2, 3>>, LAMBDA r : r # i)
      cs == SelectSeq(<<1, 2, 3>>, LAMBDA c : c # j)
      m == Sub(Mul(M[rs[1]][cs[1]], M[rs[2]][cs[2]]), Mul(M[rs[1]][cs[2]], M[rs[2]][cs[1]]))
  IN IF (i + j) % 2 = 0 THEN m ELSE Neg(m)

\* inverse by the adjugate (sizes 0..3); only used when Det # 0
Inv(M) ==
  LET d == Det(M) IN
  CASE MRows(M) = 0 -> <<>>
    [] MRows(M) = 1 -> << <<Recip(d)>> >>
    [] MRows(M) = 2 -> << <<TrueDiv(M[2][2], d), TrueDiv(Neg(M[1][2]), d)>>,
                          <<TrueDiv(Neg(M[2][1]), d), TrueDiv(M[1][1], d)>> >>
    [] MRows(M) = 3 -> [i \in 1..3 |-> [j \in 1..3 |-> TrueDiv(Cof3(M, j, i), d)]]
    [] OTHER -> <<>>

-----------------------------------------------------------------------------
(* dense form of a Gaussian leaf at batch index b (0-based flat) *)

RealIns(t) == SelectSeq(t.ins, LAMBDA q : ~IsBintD(q[2]))
IntIns(t) == SelectSeq(t.ins, LAMBDA q : IsBintD(q[2]))
DimOf(d) == Size(d.sh)
TotalDim(t) == SeqSum([k \in 1..Len(RealIns(t)) |-> DimOf(RealIns(t)[k][2])])
BatchSize(t) == SeqProd([k \in 1..Len(IntIns(t)) |-> IntIns(t)[k][2].dt])

SMat(t, b) == LET dim == TotalDim(t) IN
  [d \in 1..dim |-> [r \in 1..t.rank |-> t.S[(b * dim + (d - 1)) * t.rank + r]]]
WVec(t, b) == [r \in 1..t.rank |-> t.w[b * t.rank + r]]

Dense(t, b) ==
  LET S == SMat(t, b)  w == WVec(t, b) IN
  [P |-> MMul(S, MT(S)), eta |-> MVec(S, w), c |-> Mul(Q(-1, 2), Dot(w, w))]

\* positions (1-based, within the concatenated real vector) of the real input named n
RECURSIVE OffsetOf(_, _)
OffsetOf(rs, n) == IF Head(rs)[1] = n THEN 0 ELSE DimOf(Head(rs)[2]) + OffsetOf(Tail(rs), n)
Positions(t, n) ==
  LET rs == RealIns(t)  o == OffsetOf(rs, n)  d == DimOf(Lookup(rs, n)) IN [k \in 1..d |-> o + k]

RECURSIVE PosOfAll(_, _)
PosOfAll(t, ns) == IF ns = <<>> THEN <<>> ELSE Positions(t, Head(ns)) \o PosOfAll(t, Tail(ns))

\* names of real inputs in input order restricted to a set
NamesIn(t, S) == LET rs == RealIns(t) IN
  SelectSeq([k \in 1..Len(rs) |-> rs[k][1]], LAMBDA n : n \in S)

\* a "constant" value  q + (k/2) log(2 pi) - 1/2 log p
CV(q, k, p) == [q |-> q, k |-> k, p |-> p]

\* marginal of the dense form D over block B (positions), keeping A (positions):
\* -> [P, eta, c as CV, ok]
Marg(D, A, B) ==
  LET Pbb == SubMat(D.P, B, B)
      d == Det(Pbb)
  IN IF B = <<>> THEN [P |-> SubMat(D.P, A, A), eta |-> SubVec(D.eta, A), c |-> CV(D.c, 0, One), ok |-> TRUE]
     ELSE IF IsU(d) \/ Sgn(d) <= 0 THEN [P |-> <<>>, eta |-> <<>>, c |-> CV(Zero, 0, One), ok |-> FALSE]
     ELSE LET Pi == Inv(Pbb)
              Pab == SubMat(D.P, A, B)
              K == MMul(Pab, Pi)                       \* P_AB P_BB^-1
              etaB == SubVec(D.eta, B)
          IN [P |-> MSub(SubMat(D.P, A, A), MMul(K, MT(Pab))),
              eta |-> VSub(SubVec(D.eta, A), MVec(K, etaB)),
              c |-> CV(Add(D.c, Mul(Q(1, 2), Dot(etaB, MVec(Pi, etaB)))), Len(B), d),
              ok |-> TRUE]

\* value of a marginal form at the point xA (sequence of scalars): a CV
QuadAt(M, xA) ==
  CV(Add(Add(Mul(Q(-1, 2), Dot(xA, MVec(M.P, xA))), Dot(M.eta, xA)), M.c.q), M.c.k, M.c.p)

-----------------------------------------------------------------------------
(* problems *)

Leaf == GLeaves[g.leaf]
RealNames(t) == {RealIns(t)[k][1] : k \in 1..Len(RealIns(t))}
RedSeq == NamesIn(Leaf, g.red)
KeepSeq == NamesIn(Leaf, RealNames(Leaf) \ g.red)
BPos == PosOfAll(Leaf, RedSeq)
APos == PosOfAll(Leaf, KeepSeq)

Problems ==
  {p \in [leaf : 1..Len(GLeaves), red : SUBSET {"x", "y", "z"}] :
     /\ p.red # {} /\ p.red \subseteq RealNames(GLeaves[p.leaf])
     /\ Len(PosOfAll(GLeaves[p.leaf], NamesIn(GLeaves[p.leaf], p.red))) <= 3}

Init == g \in Problems
Next == UNCHANGED g
Spec == Init /\ [][Next]_g

\* sample points of the kept real inputs, row-major like Sem!EnvSeq, restricted to reals
KeptIns == [k \in 1..Len(KeepSeq) |-> <<KeepSeq[k], Lookup(Leaf.ins, KeepSeq[k])>>]
KeptEnvs == EnvSeq(KeptIns)
PointVec(e) == ConcatAll([k \in 1..Len(KeepSeq) |-> e[KeepSeq[k]].v])

MargTable ==   \* [b][point] -> [ok, val CV]
  [b \in 1..BatchSize(Leaf) |->
     LET M == Marg(Dense(Leaf, b - 1), APos, BPos) IN
     [e \in 1..Len(KeptEnvs) |->
        IF M.ok THEN [ok |-> TRUE, val |-> QuadAt(M, PointVec(KeptEnvs[e]))]
        ELSE [ok |-> FALSE, val |-> CV(Zero, 0, One)]]]

\* the conditional law of the block B (= g.red) given the kept inputs at a point xA:
\* covariance P_BB^-1, mean P_BB^-1 (eta_B - P_BA xA).  This is what a sample of g over g.red
\* must be an affine image of white noise of (C14).
CondTable ==
  [b \in 1..BatchSize(Leaf) |->
     LET D == Dense(Leaf, b - 1)
         Pbb == SubMat(D.P, BPos, BPos)
         d == Det(Pbb)
     IN [e \in 1..Len(KeptEnvs) |->
           IF IsU(d) \/ Sgn(d) <= 0 THEN [ok |-> FALSE, mean |-> <<>>, cov |-> <<>>]
           ELSE LET Pi == Inv(Pbb)
                    etaB == SubVec(D.eta, BPos)
                    shift == IF APos = <<>> THEN etaB
                             ELSE VSub(etaB, MVec(SubMat(D.P, BPos, APos), PointVec(KeptEnvs[e])))
                IN [ok |-> TRUE, mean |-> MVec(Pi, shift), cov |-> Pi]]]

\* log-normaliser (all reals marginalised), mean = P^-1 eta, per batch
AllPos == [k \in 1..TotalDim(Leaf) |-> k]
FullRank(b) == LET d == Det(Dense(Leaf, b).P) IN ~IsU(d) /\ Sgn(d) > 0
LogZ(b) == Marg(Dense(Leaf, b), <<>>, AllPos)
Mean(b) == LET D == Dense(Leaf, b) IN MVec(Inv(D.P), D.eta)

\* E_g[f] for a second Gaussian f over the same real vector (dense form F), as a rational:
\* -1/2 ( tr(P2 Sigma) + m'P2 m - 2 eta2'm ) + c2
Trace2(A, B) == FoldOpU("add", [i \in 1..MRows(A) |-> Dot(A[i], [k \in 1..MRows(B) |-> B[k][i]])])
ExpectQuad(b, F) ==
  LET D == Dense(Leaf, b)  Sg == Inv(D.P)  m == MVec(Sg, D.eta) IN
  Add(Add(Mul(Q(-1, 2), Add(Trace2(F.P, Sg), Dot(m, MVec(F.P, m)))), Dot(F.eta, m)), F.c)

FullTable ==
  [b \in 1..BatchSize(Leaf) |->
     IF TotalDim(Leaf) <= 3 /\ FullRank(b - 1)
     THEN LET D == Dense(Leaf, b - 1) IN
          [ok |-> TRUE, logz |-> LogZ(b - 1).c, mean |-> Mean(b - 1),
           equad |-> ExpectQuad(b - 1, D), P |-> D.P, eta |-> D.eta, cov |-> Inv(D.P),
           \* value of the density at its mode: c + 1/2 eta' P^-1 eta  (0 for square S)
           c0 |-> Add(D.c, Mul(Q(1, 2), Dot(D.eta, Mean(b - 1))))]
     ELSE [ok |-> FALSE, logz |-> CV(Zero, 0, One), mean |-> <<>>, equad |-> Zero,
           P |-> <<>>, eta |-> <<>>, cov |-> <<>>, c0 |-> Zero]]

Emit ==
  PrintT(ToJson([tag |-> Tag, leaf |-> Leaf, red |-> RedSeq, keep |-> KeptIns,
                 pts |-> [k \in 1..Len(KeptIns) |-> [j \in 1..Len(RealPts) |-> RealSample(KeptIns[k][2].sh, j)]],
                 batch |-> IntIns(Leaf), marg |-> MargTable, full |-> FullTable, cond |-> CondTable,
                 sig |-> [leaf |-> g.leaf, red |-> g.red]]))

-----------------------------------------------------------------------------
(* model-level theorems *)

SameCV(a, b) == a.q = b.q /\ a.k = b.k /\ a.p = b.p

\* marginalising in two stages equals marginalising at once (for every split of the block)
Inv_Commute ==
  \A b \in 0..(BatchSize(Leaf) - 1) :
    \A first \in SUBSET g.red :
      (first # {} /\ first # g.red) =>
        LET D == Dense(Leaf, b)
            n == TotalDim(Leaf)
            B1 == PosOfAll(Leaf, NamesIn(Leaf, first))
            rest == SelectSeq(AllPos, LAMBDA k : \A j \in 1..Len(B1) : B1[j] # k)
            M1 == Marg(D, rest, B1)
            \* positions of the remaining reduced names inside `rest`
            B2abs == PosOfAll(Leaf, NamesIn(Leaf, g.red \ first))
            idx(absk) == CHOOSE j \in 1..Len(rest) : rest[j] = absk
            B2 == [j \in 1..Len(B2abs) |-> idx(B2abs[j])]
            A2 == [j \in 1..Len(APos) |-> idx(APos[j])]
            direct == Marg(D, APos, BPos)
        IN (M1.ok /\ direct.ok) =>
             LET D1 == [P |-> M1.P, eta |-> M1.eta, c |-> M1.c.q]
                 M2 == Marg(D1, A2, B2)
             IN M2.ok /\ M2.P = direct.P /\ M2.eta = direct.eta
                /\ Add(M2.c.q, Zero) = direct.c.q
                /\ M1.c.k + M2.c.k = direct.c.k
                /\ Mul(M1.c.p, M2.c.p) = direct.c.p
=============================================================================
