SPECIFICATION Spec
CONSTANTS
  RealPts <- CRP
  MaxRank = 5
  MaxSize = 4
  MaxEvent = 2
  UnpackMaxIns = 3
  UnpackDims = 4
  AlignMaxIns = 4
  AlignTopSize = 4
  Families = {"pack", "unpack", "align", "atensor"}
  Tag = "convert_thorough_size4"
INVARIANT Inv_Pack
INVARIANT Inv_Unpack
INVARIANT Inv_Align
INVARIANT Inv_ATensor
INVARIANT Inv_ATensors
INVARIANT Inv_Terms
INVARIANT Inv_Gauss
INVARIANT Emit
CHECK_DEADLOCK FALSE
