SPECIFICATION Spec
CONSTANTS
  RealPts <- RP
  Durations = {1, 2, 3, 4, 5, 6, 7}
  LagSets = {{1}, {2}, {3}, {1, 2}, {1, 3}, {2, 3}, {1, 2, 3}}
  Periods = {1, 2, 3}
  Plus = "logaddexp"
  Times = "add"
  LeafKind = "log"
  Tag = "lag_logaddexp"
INVARIANT Emit
CHECK_DEADLOCK FALSE
