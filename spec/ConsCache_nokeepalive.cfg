\* vacuity guard: with the edge "a term keeps its arrays alive" removed TLC must FIND a stale lookup
SPECIFICATION Spec
CONSTANTS
  LensName = "terms"
  KeepAlive = FALSE
  MaxDepth = 5
  EmitDepth = 0
  MaxAlloc = 1
  CollectAlways = FALSE
  InterpMode = "cycle"
  Focus = {}
  Kinds = {}
  WithEval = FALSE
  NAddrs = 3
  Canon = TRUE
INVARIANT NoStale
VIEW ViewNoHist
CHECK_DEADLOCK FALSE
