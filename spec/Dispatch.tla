------------------------------ MODULE Dispatch -------------------------------
(***************************************************************************)
(* C16 - pattern dispatch picks a most specific rule, deterministically;   *)
(* the parametric subtype relation is a consistent preorder.               *)
(*                                                                         *)
(* (a) MODEL.  Type expressions are records [k, n, o, c, a] in one flat    *)
(*     table (a = ids of the component types):                             *)
(*       any | nom (nominal class) | cls (funsor term class Cls[args],     *)
(*       tuple-like covariance; o = its origin) | tup0 (bare tuple) | tup  *)
(*       (fixed) | vtup (Tuple[X, ...]) | fset0 | fset | union | wrap      *)
(*       (the typing_wrap adapter, transparent) | other (outside the       *)
(*       grammar).  c names the node whose python class carries __mro__;   *)
(*       the nominal order Mro is RECORDED from __mro__.                   *)
(*     SubT is the structural subtype relation, InstOf structural          *)
(*     membership of a recorded object tree, Matches / SigLeq /            *)
(*     MostSpecific the dispatch vocabulary - all parametrised by the      *)
(*     order Leq on type ids, so that they can be evaluated under the      *)
(*     model's SubT and under the relation RECORDED from the code.         *)
(* (b) MACHINE (Dispatch.cfg).  DispatchCache: variables reg, cache, log;  *)
(*     actions Dispatch(t), ClearCache, Forget; a miss resolves to ANY     *)
(*     most specific matching signature (any minimal one if there is no    *)
(*     least), so the invariant Deterministic holds iff the resolution is  *)
(*     unique and therefore independent of cache state and history.  Every *)
(*     maximal behaviour is printed for replay against the real dispatcher.*)
(* (c) JUDGE (DispatchTrace.cfg).  One line of the recorded file per       *)
(*     state: header, one line per axiom family, one line per dispatch     *)
(*     event; one verdict record printed per line.                         *)
(* All data come from the file named by IOEnv.TRACE_FILE, generated from   *)
(* the live registries by harness/dispatchdriver.py.                       *)
(***************************************************************************)
EXTENDS Naturals, Sequences, FiniteSets, FiniteSetsExt, SequencesExt, TLC, Json, IOUtils

VARIABLES l,       \* judge: next line of the recorded file (0 in the machine)
          reg,     \* machine: which recorded registry (index into H.machine)
          cache,   \* machine: cache[t] = signature cached for argument tuple t, 0 = none
          log,     \* machine: history <<[a, t, r]>> of actions and results
          live     \* machine: the signatures registered so far (late registration)

vars == <<l, reg, cache, log, live>>

TLog == ndJsonDeserialize(IOEnv.TRACE_FILE)
H == TLog[1]

Ty == H.types
N == Len(Ty)
Ids == 1..N
TupleId == H.tuple_id
FrozensetId == H.frozenset_id
ObjectId == H.object_id
AnyId == H.any_id

Mro == ToSet(H.mro) \cup ToSet(H.virtual)
NomLeq(x, y) == <<x, y>> \in Mro

Out(r) == PrintT(ToJson(r))

RECURSIVE Take(_, _)
Take(S, k) == IF k = 0 \/ S = {} THEN <<>>
              ELSE LET x == CHOOSE y \in S : TRUE IN <<x>> \o Take(S \ {x}, k - 1)

-----------------------------------------------------------------------------
(* (a) the structural model                                                *)

IsTop(x) == Ty[x].k = "any"

RECURSIVE SubT(_, _)
SubT(x, y) ==
  LET a == Ty[x]
      b == Ty[y]
  IN IF a.k = "wrap" THEN SubT(a.a[1], y)
     ELSE IF b.k = "wrap" THEN SubT(x, b.a[1])
     ELSE IF a.k = "union" THEN \A i \in DOMAIN a.a : SubT(a.a[i], y)
     ELSE IF b.k = "any" THEN TRUE
     ELSE IF b.k = "union" THEN \E i \in DOMAIN b.a : SubT(x, b.a[i])
     ELSE IF a.k = "any" THEN FALSE
     ELSE CASE b.k = "nom" -> a.c # 0 /\ NomLeq(a.c, y)
            [] b.k = "cls" -> /\ a.k = "cls"
                              /\ NomLeq(a.o, b.o)
                              /\ \/ Len(b.a) = 0
                                 \/ /\ Len(a.a) = Len(b.a)
                                    /\ \A i \in DOMAIN b.a : SubT(a.a[i], b.a[i])
            [] b.k = "tup0" -> a.c # 0 /\ NomLeq(a.c, TupleId)
            [] b.k = "tup" -> /\ a.k = "tup"
                              /\ Len(a.a) = Len(b.a)
                              /\ \A i \in DOMAIN b.a : SubT(a.a[i], b.a[i])
            [] b.k = "vtup" -> \/ a.k = "tup" /\ \A i \in DOMAIN a.a : SubT(a.a[i], b.a[1])
                               \/ a.k = "vtup" /\ SubT(a.a[1], b.a[1])
                               \/ a.k = "tup0" /\ IsTop(b.a[1])
            [] b.k = "fset0" -> a.c # 0 /\ NomLeq(a.c, FrozensetId)
            [] b.k = "fset" -> \/ a.k = "fset" /\ SubT(a.a[1], b.a[1])
                               \/ a.k = "fset0" /\ IsTop(b.a[1])
            [] OTHER -> FALSE

\* the relation multipledispatch evaluates is issubclass(typing_wrap(x), typing_wrap(y)), and
\* typing_wrap normalises a top-level `object` to Any
NormD(x) == IF x = ObjectId THEN AnyId ELSE x
SubTD(x, y) == SubT(NormD(x), NormD(y))

\* which named law decides the pair
LawName(x, y) ==
  LET a == Ty[x]
      b == Ty[y]
  IN IF a.k = "wrap" \/ b.k = "wrap" THEN "wrap_transparent"
     ELSE IF a.k = "union" THEN "union_left_all"
     ELSE IF b.k = "any" THEN "any_top"
     ELSE IF b.k = "union" THEN "union_right_some"
     ELSE IF a.k = "any" THEN "any_below_nothing_else"
     ELSE CASE b.k = "nom" -> "nominal"
            [] b.k = "cls" -> "cls_args_covariant"
            [] b.k = "tup0" -> "tuple_bare"
            [] b.k = "tup" -> "tuple_componentwise"
            [] b.k = "vtup" -> "tuple_variadic"
            [] b.k = "fset0" -> "frozenset_bare"
            [] b.k = "fset" -> "frozenset_covariant"
            [] OTHER -> "outside_grammar"

RECURSIVE InGrammar(_)
InGrammar(x) == Ty[x].k # "other" /\ \A i \in DOMAIN Ty[x].a : InGrammar(Ty[x].a[i])

\* recorded object trees [k, c, a]: atom | tuple | fset | term
Ob == H.objs

RECURSIVE InstOf(_, _)
InstOf(o, y) ==
  LET x == Ob[o]
      b == Ty[y]
  IN CASE b.k = "wrap" -> InstOf(o, b.a[1])
       [] b.k = "any" -> TRUE
       [] b.k = "union" -> \E i \in DOMAIN b.a : InstOf(o, b.a[i])
       [] b.k = "nom" -> NomLeq(x.c, y)
       [] b.k = "cls" -> /\ x.k = "term"
                         /\ NomLeq(x.c, b.o)
                         /\ \/ Len(b.a) = 0
                            \/ /\ Len(x.a) = Len(b.a)
                               /\ \A i \in DOMAIN b.a : InstOf(x.a[i], b.a[i])
       [] b.k = "tup0" -> NomLeq(x.c, TupleId)
       [] b.k = "tup" -> /\ x.k = "tuple"
                         /\ Len(x.a) = Len(b.a)
                         /\ \A i \in DOMAIN b.a : InstOf(x.a[i], b.a[i])
       [] b.k = "vtup" -> x.k = "tuple" /\ \A i \in DOMAIN x.a : InstOf(x.a[i], b.a[1])
       [] b.k = "fset0" -> NomLeq(x.c, FrozensetId)
       [] b.k = "fset" -> x.k = "fset" /\ \A i \in DOMAIN x.a : InstOf(x.a[i], b.a[1])
       [] OTHER -> FALSE

\* signatures: [f |-> fixed component ids, v |-> types of the variadic tail (empty = none)]
TailLeq(Leq(_, _), x, tv) == \E j \in DOMAIN tv : Leq(x, tv[j])

Matches(Leq(_, _), s, args) ==
  IF Len(s.v) = 0
  THEN Len(args) = Len(s.f) /\ \A i \in DOMAIN args : Leq(args[i], s.f[i])
  ELSE /\ Len(args) >= Len(s.f)
       /\ \A i \in DOMAIN s.f : Leq(args[i], s.f[i])
       /\ \A i \in (Len(s.f) + 1)..Len(args) : TailLeq(Leq, args[i], s.v)

\* s accepts only argument tuples that t accepts, position by position
SigLeq(Leq(_, _), s, t) ==
  IF Len(t.v) = 0
  THEN Len(s.v) = 0 /\ Len(s.f) = Len(t.f) /\ \A i \in DOMAIN s.f : Leq(s.f[i], t.f[i])
  ELSE /\ Len(s.f) >= Len(t.f)
       /\ \A i \in DOMAIN t.f : Leq(s.f[i], t.f[i])
       /\ \A i \in (Len(t.f) + 1)..Len(s.f) : TailLeq(Leq, s.f[i], t.v)
       /\ \A j \in DOMAIN s.v : TailLeq(Leq, s.v[j], t.v)

Matching(Leq(_, _), S, args) == {i \in DOMAIN S : Matches(Leq, S[i], args)}

MostSpecificOf(Leq(_, _), S, M) == {i \in M : \A j \in M : SigLeq(Leq, S[i], S[j])}

MinimalOf(Leq(_, _), S, M) ==
  {i \in M : \A j \in M : SigLeq(Leq, S[j], S[i]) => SigLeq(Leq, S[i], S[j])}

MostSpecific(Leq(_, _), S, args) == MostSpecificOf(Leq, S, Matching(Leq, S, args))

-----------------------------------------------------------------------------
(* the RECORDED relations (three-valued: up = true, un = raised TypeError) *)

Pool == ToSet(H.pool)
DeepUp == [x \in Ids |-> ToSet(H.deep_up[x])]
DeepUn == [x \in Ids |-> ToSet(H.deep_un[x])]
DispUp == [x \in Ids |-> ToSet(H.disp_up[x])]
DispUn == [x \in Ids |-> ToSet(H.disp_un[x])]
ArgUp == [x \in Ids |-> ToSet(H.arg_up[x])]
ArgUn == [x \in Ids |-> ToSet(H.arg_un[x])]

LeqRec(x, y) == y \in ArgUp[x]       \* issubclass(typing_wrap(x), typing_wrap(y)) was True
Regs == H.regs

-----------------------------------------------------------------------------
(* (c) axioms on a recorded relation given by its rows                     *)

K == 40    \* counterexamples printed per family

DefRow(Un, x) == Pool \ Un[x]

Refl(Up, Un) == {x \in Pool : x \notin Up[x] /\ x \notin Un[x]}

\* chains a <= b <= c with a <= c recorded false (and defined)
TransBad(Up, Un) ==
  UNION {UNION {{<<x, y, z>> : z \in {w \in Up[y] : w \notin Up[x] /\ w \notin Un[x]}} : y \in Up[x]} : x \in Pool}

Chains(Up) == MapThenSumSet(LAMBDA x : MapThenSumSet(LAMBDA y : Cardinality(Up[y]), Up[x]), Pool)

DefinedTriples(Un) ==
  MapThenSumSet(LAMBDA x : MapThenSumSet(LAMBDA y : Cardinality(DefRow(Un, y) \cap DefRow(Un, x)),
                                         DefRow(Un, x)),
                Pool)

DefinedPairs(Un) == MapThenSumSet(LAMBDA x : Cardinality(DefRow(Un, x)), Pool)
TruePairs(Up) == MapThenSumSet(LAMBDA x : Cardinality(Up[x]), Pool)

\* recorded vs model on defined pairs
Differ(Up, Un, Model(_, _)) ==
  {p \in Pool \X Pool : p[2] \notin Un[p[1]] /\ (p[2] \in Up[p[1]]) # Model(p[1], p[2])}

LawRecord(Up, p) == [a |-> p[1], b |-> p[2], law |-> LawName(p[1], p[2]), recorded |-> p[2] \in Up[p[1]]]

JudgeLaws(e, Up, Un, Model(_, _)) ==
  LET d == Differ(Up, Un, Model)
      bad == {p \in d : InGrammar(p[1]) /\ InGrammar(p[2])}
      drift == d \ bad
      laws == {LawName(p[1], p[2]) : p \in bad}
      \* a few of every law, so that one noisy law cannot hide another
      shown == UNION {ToSet(Take({p \in bad : LawName(p[1], p[2]) = w}, K)) : w \in laws}
  IN Out([id |-> e.id, ok |-> bad = {}, clause |-> e.name, checked |-> DefinedPairs(Un),
          n_bad |-> Cardinality(bad), n_drift |-> Cardinality(drift),
          bad |-> {LawRecord(Up, p) : p \in shown},
          drift |-> {LawRecord(Up, p) : p \in ToSet(Take(drift, K))}])

JudgeRefl(e, Up, Un) ==
  LET bad == Refl(Up, Un)
  IN Out([id |-> e.id, ok |-> bad = {}, clause |-> e.name, checked |-> Cardinality(Pool),
          undefined |-> Cardinality({x \in Pool : x \in Un[x]}), bad |-> bad])

JudgeTrans(e, Up, Un) ==
  LET bad == TransBad(Up, Un)
  IN Out([id |-> e.id, ok |-> bad = {}, clause |-> e.name, chains |-> Chains(Up),
          triples |-> DefinedTriples(Un), n_bad |-> Cardinality(bad), bad |-> Take(bad, K)])

\* deep_issubclass(a, b) and issubclass(typing_wrap(a), typing_wrap(b)) agree where both defined
JudgeWrap(e) ==
  LET bad == {p \in Pool \X Pool : /\ NormD(p[2]) \notin DeepUn[NormD(p[1])] /\ p[2] \notin DispUn[p[1]]
                                   /\ (NormD(p[2]) \in DeepUp[NormD(p[1])]) # (p[2] \in DispUp[p[1]])}
  IN Out([id |-> e.id, ok |-> bad = {}, clause |-> e.name, n_bad |-> Cardinality(bad),
          bad |-> {[a |-> p[1], b |-> p[2], deep |-> NormD(p[2]) \in DeepUp[NormD(p[1])]] : p \in ToSet(Take(bad, K))}])

Members == H.members

\* recorded deep_isinstance(x, T) agrees with the recorded deep_type(x) <= T; x : deep_type(x)
JudgeMemberRecorded(e) ==
  LET bad == {<<i, y>> \in (DOMAIN Members) \X Pool :
                LET m == Members[i] IN
                /\ y \notin DeepUn[m.t] /\ y \notin ToSet(m.un)
                /\ (y \in ToSet(m.yes)) # (y \in DeepUp[m.t])}
      own == {i \in DOMAIN Members : Members[i].t \notin ToSet(Members[i].yes)}
  IN Out([id |-> e.id, ok |-> bad = {} /\ own = {}, clause |-> e.name,
          checked |-> Len(Members) * Cardinality(Pool), n_bad |-> Cardinality(bad),
          bad |-> {[o |-> Members[p[1]].o, t |-> Members[p[1]].t, b |-> p[2]] : p \in ToSet(Take(bad, K))},
          not_own_type |-> {Members[i].t : i \in own}])

\* structural membership of the object tree agrees with the recorded order below deep_type(x)
JudgeMemberModel(e) ==
  LET G == {y \in Pool : InGrammar(y)}
      cand == {<<i, y>> \in (DOMAIN Members) \X G : y \notin DeepUn[Members[i].t]}
      incomplete == {p \in cand : InstOf(Members[p[1]].o, p[2]) /\ p[2] \notin DeepUp[Members[p[1]].t]}
      unsound == {p \in cand : ~InstOf(Members[p[1]].o, p[2]) /\ p[2] \in DeepUp[Members[p[1]].t]}
      own == {i \in DOMAIN Members : InGrammar(Members[i].t) /\ ~InstOf(Members[i].o, Members[i].t)}
      show(S, w) == {[o |-> Members[p[1]].o, t |-> Members[p[1]].t, b |-> p[2], why |-> w] : p \in ToSet(Take(S, K))}
  IN Out([id |-> e.id, ok |-> incomplete = {} /\ unsound = {} /\ own = {}, clause |-> e.name,
          checked |-> Cardinality(cand), n_bad |-> Cardinality(incomplete) + Cardinality(unsound),
          bad |-> show(incomplete, "instance_but_not_subtype") \cup show(unsound, "subtype_but_not_instance"),
          not_own_type |-> {Members[i].t : i \in own}])

JudgeSizes(e) ==
  Out([id |-> e.id, ok |-> TRUE, clause |-> e.name, types |-> N, pool |-> Cardinality(Pool),
       pairs |-> Cardinality(Pool) * Cardinality(Pool),
       deep_defined |-> DefinedPairs(DeepUn), deep_true |-> TruePairs(DeepUp),
       disp_defined |-> DefinedPairs(DispUn), disp_true |-> TruePairs(DispUp),
       objects |-> Len(Ob), members |-> Len(Members), registries |-> Len(Regs),
       signatures |-> FoldSeq(LAMBDA r, acc : acc + Len(r.sigs), 0, Regs)])

\* comparable / equivalent signature pairs of every registry under the recorded order
JudgeComparable(e) ==
  LET cmp(r) == LET S == Regs[r].sigs IN
                {<<i, j>> \in (DOMAIN S) \X (DOMAIN S) :
                   i < j /\ (SigLeq(LeqRec, S[i], S[j]) \/ SigLeq(LeqRec, S[j], S[i]))}
      eqv(r) == LET S == Regs[r].sigs IN
                {<<i, j>> \in (DOMAIN S) \X (DOMAIN S) :
                   i < j /\ SigLeq(LeqRec, S[i], S[j]) /\ SigLeq(LeqRec, S[j], S[i])}
  IN Out([id |-> e.id, ok |-> TRUE, clause |-> e.name,
          comparable |-> [r \in DOMAIN Regs |-> cmp(r)], equivalent |-> [r \in DOMAIN Regs |-> eqv(r)]])

\* one recorded dispatch: the chosen signature matches and is below every other match
JudgeDispatch(e) ==
  LET S == Regs[e.reg].sigs
      M == Matching(LeqRec, S, e.args)
      MS == MostSpecificOf(LeqRec, S, M)
      ch == ToSet(e.chosen)
      undef == \E i \in DOMAIN e.args : ArgUn[e.args[i]] # {}
  IN IF ch = {}
     THEN Out([id |-> e.id, ok |-> M = {}, clause |-> "no_rule_chosen_but_some_match", matching |-> M])
     ELSE IF ch \cap M = {}
     THEN Out([id |-> e.id, ok |-> FALSE, clause |-> "chosen_does_not_match", matching |-> M, chosen |-> ch])
     ELSE IF ch \cap MS # {}
     THEN Out([id |-> e.id, ok |-> TRUE, matching |-> Cardinality(M), undefined |-> undef])
     ELSE IF MS = {}
     THEN LET Mn == MinimalOf(LeqRec, S, M)
          IN Out([id |-> e.id, ok |-> FALSE, clause |-> "ambiguous", matching |-> M, chosen |-> ch,
                  incomparable |-> {p \in Mn \X Mn : p[1] < p[2] /\ ~SigLeq(LeqRec, S[p[1]], S[p[2]])
                                                                  /\ ~SigLeq(LeqRec, S[p[2]], S[p[1]])}])
     ELSE Out([id |-> e.id, ok |-> FALSE, clause |-> "not_most_specific", matching |-> M, chosen |-> ch,
               most_specific |-> MS])

JudgeAxiom(e) ==
  CASE e.name = "sizes" -> JudgeSizes(e)
    [] e.name = "refl_deep" -> JudgeRefl(e, DeepUp, DeepUn)
    [] e.name = "refl_disp" -> JudgeRefl(e, DispUp, DispUn)
    [] e.name = "trans_deep" -> JudgeTrans(e, DeepUp, DeepUn)
    [] e.name = "trans_disp" -> JudgeTrans(e, DispUp, DispUn)
    [] e.name = "wrap_agree" -> JudgeWrap(e)
    [] e.name = "laws_deep" -> JudgeLaws(e, DeepUp, DeepUn, SubT)
    [] e.name = "laws_disp" -> JudgeLaws(e, DispUp, DispUn, SubTD)
    [] e.name = "member_recorded" -> JudgeMemberRecorded(e)
    [] e.name = "member_model" -> JudgeMemberModel(e)
    [] e.name = "comparable" -> JudgeComparable(e)
    [] OTHER -> Out([id |-> e.id, ok |-> FALSE, clause |-> "unknown_axiom"])

JudgeLine(e) ==
  CASE e.kind = "header" -> Out([id |-> e.id, ok |-> TRUE, clause |-> "header"])
    [] e.kind = "axiom" -> JudgeAxiom(e)
    [] e.kind = "dispatch" -> JudgeDispatch(e)
    [] OTHER -> Out([id |-> e.id, ok |-> FALSE, clause |-> "unknown_event_kind"])

TraceInit == l = 1 /\ reg = 0 /\ cache = <<>> /\ log = <<>> /\ live = {}
TraceNext == l <= Len(TLog) /\ JudgeLine(TLog[l]) /\ l' = l + 1 /\ UNCHANGED <<reg, cache, log, live>>
TraceSpec == TraceInit /\ [][TraceNext]_vars

-----------------------------------------------------------------------------
(* (b) the DispatchCache machine, resolved with the MODEL's order          *)

Mach == H.machine
MaxLen == H.maxlen

Resolve(S, args) ==
  LET M == Matching(SubTD, S, args)
      MS == MostSpecificOf(SubTD, S, M)
  IN IF M = {} THEN {0} ELSE IF MS # {} THEN MS ELSE MinimalOf(SubTD, S, M)

Res == [m \in DOMAIN Mach |->
          [t \in DOMAIN Mach[m].tuples |-> Resolve(Regs[Mach[m].reg].sigs, Mach[m].tuples[t])]]

Tuples == DOMAIN Mach[reg].tuples
AllSigs == DOMAIN Regs[Mach[reg].reg].sigs
\* signatures of this machine that are registered LATE, i.e. by a Register action after some
\* dispatches (Dispatcher.add must then forget the cached choices)
Late == {Mach[reg].late[i] : i \in DOMAIN Mach[reg].late}
\* resolution among the signatures registered so far
ResLive(t) ==
  LET S == Regs[Mach[reg].reg].sigs
      M == Matching(SubTD, S, Mach[reg].tuples[t]) \cap live
      MS == MostSpecificOf(SubTD, S, M)
  IN IF M = {} THEN {0} ELSE IF MS # {} THEN MS ELSE MinimalOf(SubTD, S, M)

MInit == /\ l = 0
         /\ reg \in DOMAIN Mach
         /\ cache = [t \in DOMAIN Mach[reg].tuples |-> 0]
         /\ log = <<>>
         /\ live = AllSigs \ Late

DispatchAct(t) ==
  /\ \E r \in (IF cache[t] # 0 THEN {cache[t]} ELSE ResLive(t)) :
       /\ cache' = [cache EXCEPT ![t] = r]
       /\ log' = Append(log, [a |-> "d", t |-> t, r |-> r])
  /\ UNCHANGED <<l, reg, live>>

\* PartialDispatcher.add(signature, rule) after some dispatches: the cached choices are dropped
Register(s) ==
  /\ s \in Late \ live
  /\ live' = live \cup {s}
  /\ cache' = [t \in Tuples |-> 0]
  /\ log' = Append(log, [a |-> "r", t |-> s, r |-> 0])
  /\ UNCHANGED <<l, reg>>

\* PartialDispatcher._cache.clear()
ClearCache ==
  /\ cache' = [t \in Tuples |-> 0]
  /\ log' = Append(log, [a |-> "c", t |-> 0, r |-> 0])
  /\ UNCHANGED <<l, reg, live>>

\* cold restart: dispatch cache, signature ordering and the subtype memo are all dropped
Forget ==
  /\ cache' = [t \in Tuples |-> 0]
  /\ log' = Append(log, [a |-> "f", t |-> 0, r |-> 0])
  /\ UNCHANGED <<l, reg, live>>

MNext == /\ Len(log) < MaxLen
         /\ \/ \E t \in Tuples : DispatchAct(t)
            \/ ClearCache
            \/ Forget
            \/ \E s \in Late : Register(s)

MSpec == MInit /\ [][MNext]_vars

\* the result of Dispatch depends on the argument tuple (and on what is registered) only
Deterministic ==
  \A i, j \in DOMAIN log :
     (i < j /\ log[i].a = "d" /\ log[j].a = "d" /\ log[i].t = log[j].t
      /\ ~\E k \in DOMAIN log : (k > i /\ k < j) /\ log[k].a = "r") => log[i].r = log[j].r

Emit ==
  /\ (Len(log) = 0) => Out([m |-> reg, kind |-> "resolve", res |-> Res[reg]])
  /\ (Len(log) = MaxLen) => Out([m |-> reg, kind |-> "behaviour", log |-> log])
=============================================================================
