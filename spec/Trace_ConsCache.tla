--------------------------- MODULE Trace_ConsCache ---------------------------
(***************************************************************************)
(* C->S for C07: validates runs recorded from CPython against ConsCache.   *)
(*                                                                         *)
(* The file named by the environment variable TRACE_FILE holds one event   *)
(* per line.  A "Reset" event starts a new behaviour (initial state) and   *)
(* names the mode it was recorded in:                                      *)
(*   limbo  - the driver keeps dropped objects in a hidden list until the  *)
(*            next Collect (the S->C replay): no hidden step;              *)
(*   native - references are really deleted: after every action CPython    *)
(*            may already have reclaimed any part of the garbage (reference *)
(*            counting frees acyclic garbage at once, cycles wait for the   *)
(*            collector).  TLC infers WHICH unreachable objects were        *)
(*            reclaimed: any set G of garbage that no surviving object and  *)
(*            no surviving table key refers to.                            *)
(* Every other event carries the visible part of an action (a, r, i, h, s; *)
(* ad = 0 when the address an allocation landed on is left for TLC to      *)
(* infer) and what was observed afterwards: which handles are held, which  *)
(* objects behind handles / array slots are alive (weakrefs), the sizes of *)
(* the intern tables relative to the start of the behaviour, and the ids   *)
(* of the objects behind the handles mapped to small integers (0 = dead).  *)
(* A line is accepted if some enabled action of ConsCache with that        *)
(* visible part (and some hidden reclamation) leads to a state whose       *)
(* observation matches.  Several candidate states may survive a line.      *)
(* A line no candidate survives is printed with the clause that failed     *)
(* for the default candidate; the rest of that behaviour is skipped, the   *)
(* following behaviours are still judged.                                  *)
(***************************************************************************)
EXTENDS ConsCache, IOUtils

VARIABLES l, bad, mode

TLog == ndJsonDeserialize(IOEnv.TRACE_FILE)

NoAct == Act("", "", "", 0, 0, 0)

(* the recorder numbers addresses in the order in which it first sees them: an    *)
(* address it did not write down is one seen before or the next new one            *)
TopLabel(S) == LET used == {S.addr[x] : x \in 1..Len(S.addr)} \cup {0}
               IN CHOOSE m \in used : \A n \in used : n <= m

Visible(S, act, e) ==
  /\ act.a = e.a /\ act.r = e.r /\ act.i = e.i /\ act.h = e.h /\ act.s = e.s
  /\ IF e.ad = 0 THEN act.ad <= TopLabel(S) + 1 ELSE act.ad = e.ad

MatchingActs(S, e) == {act \in Acts(S, 0, NoAct) : Visible(S, act, e)}

(* sets of garbage that may already have been reclaimed                    *)
Closed(S, G) ==
  /\ \A x \in LiveSet(S) \ G : Refs(S, x) \cap G = {}
  /\ \A en \in S.table : en.val \notin G => KeyRefs(en) \cap G = {}

Hidden(S, md) == IF md = "limbo" THEN {{}} ELSE {G \in SUBSET Garbage(S) : Closed(S, G)}

FirstDiff(S, e) ==
  LET o == Obs(S)
      n == Len(S.handles)
  IN IF Len(e.held) # n THEN "handle_count"
     ELSE IF \E h \in 1..n : o.held[h] # e.held[h] THEN "held"
     ELSE IF \E h \in 1..n : o.alive[h] # e.alive[h] THEN "alive"
     ELSE IF Len(e.arrs) # Len(o.arrs) \/ \E k \in 1..Len(o.arrs) : o.arrs[k] # e.arrs[k] THEN "array_alive"
     ELSE IF \E i, j \in {h \in 1..n : o.alive[h] = 1} :
                (e.ident[i] = e.ident[j]) # (S.handles[i] = S.handles[j]) THEN "is_matrix"
     ELSE IF \E k \in 1..Len(o.sizes) : o.sizes[k] # e.sizes[k] THEN "table_size"
     ELSE ""

Candidates(S, e, md) ==
  {U \in UNION {{Reclaim(Apply(S, act), G) : G \in Hidden(Apply(S, act), md)} : act \in MatchingActs(S, e)} :
      FirstDiff(U, e) = ""}

Out(r) == PrintT(ToJson(r))

Adopt(U) ==
  /\ heap' = U.heap /\ addr' = U.addr /\ handles' = U.handles /\ held' = U.held
  /\ slots' = U.slots /\ table' = U.table /\ gensym' = U.gensym /\ stale' = U.stale
  /\ nalloc' = U.nalloc /\ arrs' = U.arrs /\ hist' = hist /\ obsq' = obsq

TInit == Init /\ l = 1 /\ bad = FALSE /\ mode = "limbo"

TReset(e) ==
  /\ e.a = "Reset"
  /\ Adopt(InitState) /\ bad' = FALSE /\ mode' = e.mode
  /\ Out([id |-> e.id, ok |-> TRUE, clause |-> "reset"])

TSkip(e) ==
  /\ e.a # "Reset" /\ bad
  /\ UNCHANGED <<vars, bad, mode>>

TStep(e) ==
  /\ e.a # "Reset" /\ ~bad
  /\ \E U \in Candidates(State, e, mode) :
       /\ Adopt(U) /\ UNCHANGED <<bad, mode>>
       /\ Out([id |-> e.id, ok |-> TRUE, clause |-> IF U.stale THEN "stale" ELSE ""])

TFail(e) ==
  /\ e.a # "Reset" /\ ~bad
  /\ Candidates(State, e, mode) = {}
  /\ UNCHANGED <<vars, mode>> /\ bad' = TRUE
  /\ LET ma == MatchingActs(State, e) IN
     IF ma = {}
     THEN Out([id |-> e.id, ok |-> FALSE, clause |-> "not_enabled", want |-> Obs(State)])
     ELSE LET D == Apply(State, CHOOSE act \in ma : TRUE)
          IN Out([id |-> e.id, ok |-> FALSE, clause |-> FirstDiff(D, e), want |-> Obs(D)])

TNext ==
  /\ l <= Len(TLog)
  /\ l' = l + 1
  /\ LET e == TLog[l] IN TReset(e) \/ TSkip(e) \/ TStep(e) \/ TFail(e)

TSpec == TInit /\ [][TNext]_<<vars, l, bad, mode>>

(* the model's own guarantees, checked on every candidate state            *)
TInv == Unique /\ WeakLive /\ NoStale /\ AddrInjective
=============================================================================
