--------------------------- MODULE Trace_OpProgram ---------------------------
(***************************************************************************)
(* C->S for C18 (translation validation).  Every line of the ndjson file   *)
(* is one program the REAL library produced for one source expression:     *)
(*                                                                         *)
(*   {id, kind: "prog", via, expr, pts, prog: {consts, inputs, ops}}       *)
(*     via    compile | pickle | as_code | trace_function                  *)
(*     expr   the source expression (AST of Sem.tla, plus Tup)             *)
(*     pts    the sample points for real-valued inputs (exact scalars)     *)
(*     consts exact array values; inputs: names; ops: [op |-> [n, p],      *)
(*            args |-> 0-based value ids]                                  *)
(*   {id, kind: "table", expr, pts}: print the value table of expr with    *)
(*     its bindings (for the S->C compare of what the real programs return)*)
(*                                                                         *)
(* TLC RUNS the program machine (ProgSem!Run, proved equal to the step     *)
(* machine of OpProgram.tla by Inv_RunEq) on the recorded program for      *)
(* every binding of the expression's inputs - integer inputs over their    *)
(* whole range, real inputs at the sample points / sample arrays - and     *)
(* compares with the denotation EvalX(expr, binding).  One verdict per     *)
(* line, total; a failing verdict names the clause:                        *)
(*   WellFormed clauses (repeated_input_name, unknown_op, wrong_arity,     *)
(*   arg_id_not_before_position, empty_program), input_names, stuck values *)
(*   (tuple_operand ...), value (with the binding and both values),        *)
(*   definedness.                                                          *)
(***************************************************************************)
EXTENDS ProgSem, Json, IOUtils, TLCExt

VARIABLE l

NoPts == <<>>   \* Sem's RealPts is unused here: every event names its own sample points

TLog == ndJsonDeserialize(IOEnv.TRACE_FILE)

Out(r) == PrintT(ToJson(r))

EnvRec(e) == [n \in DOMAIN e |-> e[n]]

JudgeProg(e) ==
  LET a == Ann(e.expr)
      p == e.prog
      wf == WellFormed(p)
  IN IF wf # "ok"
     THEN Out([id |-> e.id, ok |-> FALSE, clause |-> wf, at |-> FirstIllFormedOp(p),
               nleaves |-> NLeaves(p)])
     ELSE IF SeqRange(p.inputs) # Names(a.ti)
     THEN Out([id |-> e.id, ok |-> FALSE, clause |-> "input_names",
               want |-> NameSeq(a.ti), got |-> p.inputs])
     ELSE LET es == EnvSeqP(a.ti, e.pts)
              want == [k \in 1..Len(es) |-> EvalX(a, es[k])]
              got == [k \in 1..Len(es) |-> Run(p, es[k])]
              bad == {k \in 1..Len(es) : ~AgreeV(got[k], want[k])}
              undef == Cardinality({k \in 1..Len(es) : HasUX(want[k])})
          IN IF bad = {}
             THEN Out([id |-> e.id, ok |-> TRUE, points |-> Len(es), undefined |-> undef])
             ELSE LET k == CHOOSE k \in bad : \A j \in bad : k <= j IN
                  Out([id |-> e.id, ok |-> FALSE,
                       clause |-> IF IsErrV(got[k]) THEN got[k].err
                                  ELSE IF HasUX(got[k]) # HasUX(want[k]) THEN "definedness"
                                  ELSE "value",
                       point |-> k, npoints |-> Len(es), nbad |-> Cardinality(bad),
                       env |-> EnvRec(es[k]), want |-> want[k], got |-> got[k]])

\* the value table of an expression over its sampled input space, with the bindings, for
\* the S->C comparison of what the real programs return
JudgeTable(e) ==
  LET a == Ann(e.expr)
      es == EnvSeqP(a.ti, e.pts)
  IN Out([id |-> e.id, ok |-> TRUE, ins |-> a.ti,
          envs |-> [k \in 1..Len(es) |-> EnvRec(es[k])],
          tab |-> [k \in 1..Len(es) |-> EvalX(a, es[k])]])

Judge(e) ==
  IF e.kind = "prog" THEN JudgeProg(e)
  ELSE IF e.kind = "table" THEN JudgeTable(e)
  ELSE Out([id |-> e.id, ok |-> FALSE, clause |-> "unknown_event_kind"])

Init == l = 1
Next == l <= Len(TLog) /\ Judge(TLog[l]) /\ l' = l + 1
Spec == Init /\ [][Next]_l
=============================================================================
