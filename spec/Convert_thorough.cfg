SPECIFICATION Spec
CONSTANTS
  RealPts <- CRP
  MaxRank = 5
  MaxSize = 3
  MaxEvent = 2
  UnpackMaxIns = 4
  UnpackDims = 5
  AlignMaxIns = 4
  AlignTopSize = 3
  Families = {"pack", "unpack", "align", "atensor", "atensors", "lazy", "con", "delta", "mat", "gauss"}
  Tag = "convert_thorough"
INVARIANT Inv_Pack
INVARIANT Inv_Unpack
INVARIANT Inv_Align
INVARIANT Inv_ATensor
INVARIANT Inv_ATensors
INVARIANT Inv_Terms
INVARIANT Inv_Gauss
INVARIANT Emit
CHECK_DEADLOCK FALSE
