------------------------------ MODULE ProgSem -------------------------------
(***************************************************************************)
(* Pure definitions shared by OpProgram.tla (machine, lowering model,      *)
(* generator lenses) and Trace_OpProgram.tla (translation validation):     *)
(*                                                                         *)
(*   - program values: an array value of Values.tla [sh, v], a tuple value *)
(*     [tup |-> <<values>>] (the compiler's make_tuple), or an error value *)
(*     [err |-> "clause"] (a stuck machine, never equal to a denotation);  *)
(*   - a program is [consts |-> <<values>>, inputs |-> <<names>>,          *)
(*     ops |-> << [op |-> [n, p], args |-> <<0-based ids>>] >>]: value ids *)
(*     count constants, then inputs, then operation results (ops/program.py*)
(*     OpProgram);                                                         *)
(*   - ExecOp / Run: the L0 op semantics (ApplyUn / ApplyBin of Sem.tla)   *)
(*     applied along the straight line; WellFormed: topological numbering  *)
(*     (every arg id < its own position) and arities;                      *)
(*   - EvalX: Sem's Eval extended with the top-level Tuple of the compiler *)
(*     fragment;                                                           *)
(*   - Lower: the MODEL of compile_funsor (compiler.py): Contraction       *)
(*     without reduction -> left fold of Binary, A-normal-form numbering   *)
(*     of the distinct subterms in dependency order, shared subterms once. *)
(***************************************************************************)
EXTENDS Sem

-----------------------------------------------------------------------------
(* program values *)

IsTupV(x) == "tup" \in DOMAIN x
IsErrV(x) == "err" \in DOMAIN x
TupV(s) == [tup |-> s]
ErrV(s) == [err |-> s]

RECURSIVE HasUX(_)
HasUX(x) ==
  IF IsErrV(x) THEN FALSE
  ELSE IF IsTupV(x) THEN \E k \in 1..Len(x.tup) : HasUX(x.tup[k])
  ELSE HasU(x)

\* agreement of a program result with a denotation.  Where the exact algebra is
\* undefined (overflow of the 32-bit rationals, an irrational result) both sides must be
\* undefined: a correct program applies the same ops to the same values.
RECURSIVE AgreeV(_, _)
AgreeV(x, y) ==
  CASE IsErrV(x) \/ IsErrV(y) -> FALSE
    [] IsTupV(x) /\ IsTupV(y) ->
         Len(x.tup) = Len(y.tup) /\ \A k \in 1..Len(x.tup) : AgreeV(x.tup[k], y.tup[k])
    [] IsTupV(x) \/ IsTupV(y) -> FALSE
    [] HasU(x) \/ HasU(y) -> HasU(x) /\ HasU(y)
    [] OTHER -> x = y

-----------------------------------------------------------------------------
(* denotation of the compiler fragment: Eval plus Tuple *)

RECURSIVE EvalX(_, _)
EvalX(t, env) ==
  IF t.c = "Tup" THEN TupV([k \in 1..Len(t.args) |-> EvalX(t.args[k], env)])
  ELSE Eval(t, env)

RECURSIVE StripX(_)
StripX(t) ==
  IF t.c = "Tup" THEN [c |-> "Tup", args |-> [k \in 1..Len(t.args) |-> StripX(t.args[k])]]
  ELSE Strip(t)

\* EnvSeq of Sem.tla with the sample points as a parameter (a recorded event names its own)
SampleP(sh, k, pts) ==
  LET N == Len(pts) IN
  [sh |-> sh, v |-> [j \in 1..Size(sh) |-> pts[((j + k - 2) % N) + 1]]]

RECURSIVE EnvSeqP(_, _)
EnvSeqP(ins, pts) ==
  IF ins = <<>> THEN << [x \in {} |-> 0] >>
  ELSE LET rest == EnvSeqP(Tail(ins), pts)
           n == Head(ins)[1]
           d == Head(ins)[2]
           els == IF IsBintD(d) THEN [i \in 1..d.dt |-> Scalar(RInt(i - 1))]
                  ELSE IF d.dt = 0 THEN [k \in 1..Len(pts) |-> SampleP(d.sh, k, pts)]
                  ELSE <<>>
       IN [k \in 1..(Len(els) * Len(rest)) |->
             LET i == (k - 1) \div Len(rest)  r == rest[((k - 1) % Len(rest)) + 1]
             IN [x \in DOMAIN r \cup {n} |-> IF x = n THEN els[i + 1] ELSE r[x]]]

RECURSIVE DefinedX(_, _)
\* every point of the sampled input space has a value inside the exact algebra
DefinedX(t, pts) ==
  IF t.c = "Tup" THEN \A k \in 1..Len(t.args) : DefinedX(t.args[k], pts)
  ELSE LET es == EnvSeqP(t.ti, pts) IN \A k \in 1..Len(es) : ~HasU(Eval(t, es[k]))

-----------------------------------------------------------------------------
(* the straight-line program: static well-formedness and execution *)

TupleOp == "tuple"

\* arity of an op record; -1 = any (tuple), -2 = not an op of the L0 tables
OpArity(o) ==
  CASE o.n = TupleOp -> -1
    [] o.n \in PointwiseUnary \cup ArrayReductions \cup {"reshape", "getslice"} -> 1
    [] o.n \in PointwiseBinary \cup {"getitem", "matmul"} -> 2
    [] OTHER -> -2

NLeaves(p) == Len(p.consts) + Len(p.inputs)

SeqRange(s) == {s[k] : k \in 1..Len(s)}

\* "ok" or the name of the first violated clause
WellFormed(p) ==
  CASE Cardinality(SeqRange(p.inputs)) # Len(p.inputs) -> "repeated_input_name"
    [] \E k \in 1..Len(p.ops) : OpArity(p.ops[k].op) = -2 -> "unknown_op"
    [] \E k \in 1..Len(p.ops) :
         OpArity(p.ops[k].op) >= 0 /\ Len(p.ops[k].args) # OpArity(p.ops[k].op) -> "wrong_arity"
    [] \E k \in 1..Len(p.ops) : \E j \in 1..Len(p.ops[k].args) :
         p.ops[k].args[j] < 0 \/ p.ops[k].args[j] >= NLeaves(p) + k - 1 -> "arg_id_not_before_position"
    [] NLeaves(p) + Len(p.ops) = 0 -> "empty_program"
    [] OTHER -> "ok"

\* position (1-based) of the first operation that is not well-formed, 0 if none
FirstIllFormedOp(p) ==
  LET bad == {k \in 1..Len(p.ops) :
                \/ OpArity(p.ops[k].op) = -2
                \/ OpArity(p.ops[k].op) >= 0 /\ Len(p.ops[k].args) # OpArity(p.ops[k].op)
                \/ \E j \in 1..Len(p.ops[k].args) :
                     p.ops[k].args[j] < 0 \/ p.ops[k].args[j] >= NLeaves(p) + k - 1}
  IN IF bad = {} THEN 0 ELSE CHOOSE k \in bad : \A j \in bad : k <= j

\* one Exec step: the value appended to env
ExecOp(o, env) ==
  LET ar == OpArity(o.op) IN
  IF \E k \in 1..Len(o.args) : o.args[k] < 0 \/ o.args[k] >= Len(env) THEN ErrV("arg_id_out_of_range")
  ELSE IF ar = -2 THEN ErrV("unknown_op")
  ELSE IF ar >= 0 /\ Len(o.args) # ar THEN ErrV("wrong_arity")
  ELSE LET a == [k \in 1..Len(o.args) |-> env[o.args[k] + 1]] IN
       IF \E k \in 1..Len(a) : IsErrV(a[k]) THEN ErrV("error_operand")
       ELSE IF o.op.n = TupleOp THEN TupV(a)
       ELSE IF \E k \in 1..Len(a) : IsTupV(a[k]) THEN ErrV("tuple_operand")
       ELSE IF ar = 1 THEN ApplyUn(o.op, a[1])
       ELSE ApplyBin(o.op, a[1], a[2])

BindOK(p, kw) == DOMAIN kw = SeqRange(p.inputs)

\* env after Load and Bind (defined when BindOK)
Env0(p, kw) == p.consts \o [k \in 1..Len(p.inputs) |-> kw[p.inputs[k]]]

RECURSIVE ExecFrom(_, _, _)
ExecFrom(p, env, k) ==
  IF k > Len(p.ops) THEN env ELSE ExecFrom(p, Append(env, ExecOp(p.ops[k], env)), k + 1)

\* the run of the machine as a function: Load, Bind (or Reject), Exec*, Return env[last]
Run(p, kw) ==
  IF ~BindOK(p, kw) THEN ErrV("rejected")
  ELSE LET env == ExecFrom(p, Env0(p, kw), 1) IN
       IF env = <<>> THEN ErrV("empty_program") ELSE env[Len(env)]

-----------------------------------------------------------------------------
(* the lowering model (compiler.py: lower, compile_funsor; interpreter.py: anf) *)

\* the compiler's fragment: atoms without bound/named tensor inputs, Unary, Binary,
\* Contraction without reduction, Tuple at the top
RECURSIVE InFragment(_)
InFragment(t) ==
  CASE t.c = "Var" -> TRUE
    [] t.c = "Num" -> TRUE
    [] t.c = "Ten" -> t.ins = <<>>
    [] t.c = "Un" -> InFragment(t.arg)
    [] t.c = "Bin" -> InFragment(t.l) /\ InFragment(t.r)
    [] t.c = "Con" ->
         /\ t.vars = <<>> /\ Len(t.terms) >= 1
         /\ \A k \in 1..Len(t.terms) : InFragment(t.terms[k])
    [] t.c = "Tup" -> \A k \in 1..Len(t.args) : InFragment(t.args[k])
    [] OTHER -> FALSE

RECURSIVE FoldBin(_, _)
\* functools.reduce(partial(Binary, bin_op), terms): ((t1 op t2) op t3) ...
FoldBin(b, s) ==
  IF Len(s) = 1 THEN s[1]
  ELSE Mk([c |-> "Bin", op |-> [n |-> b, p |-> <<>>],
           l |-> FoldBin(b, SubSeq(s, 1, Len(s) - 1)), r |-> s[Len(s)]])

RECURSIVE LowerT(_)
\* annotated term -> annotated term without Con
LowerT(t) ==
  CASE t.c = "Un" -> Mk([c |-> "Un", op |-> t.op, arg |-> LowerT(t.arg)])
    [] t.c = "Bin" -> Mk([c |-> "Bin", op |-> t.op, l |-> LowerT(t.l), r |-> LowerT(t.r)])
    [] t.c = "Con" -> FoldBin(t.bin, [k \in 1..Len(t.terms) |-> LowerT(t.terms[k])])
    [] t.c = "Tup" -> Mk([c |-> "Tup", args |-> [k \in 1..Len(t.args) |-> LowerT(t.args[k])]])
    [] OTHER -> t

Kids(t) ==
  CASE t.c = "Un" -> <<t.arg>>
    [] t.c = "Bin" -> <<t.l, t.r>>
    [] t.c = "Tup" -> t.args
    [] t.c = "Con" -> t.terms
    [] OTHER -> <<>>

InSeq(s, x) == \E k \in 1..Len(s) : s[k] = x
IndexIn(s, x) == CHOOSE k \in 1..Len(s) : s[k] = x

RECURSIVE PostAcc(_, _)
RECURSIVE PostKids(_, _)
\* the distinct subterms of t, every term after its children (structurally equal
\* subterms are ONE node: funsor terms are hash-consed, so `ids[f]` in compile_funsor
\* gives a shared subexpression one number)
PostKids(ks, acc) == IF ks = <<>> THEN acc ELSE PostKids(Tail(ks), PostAcc(Head(ks), acc))
PostAcc(t, acc) == IF InSeq(acc, t) THEN acc ELSE Append(PostKids(Kids(t), acc), t)

IsConstNode(n) == n.c \in {"Num", "Ten"}
IsOpNode(n) == n.c \in {"Un", "Bin", "Tup"}

ConstVal(n) == IF n.c = "Num" THEN Scalar(n.v) ELSE [sh |-> n.sh, v |-> n.data]
OpOf(n) == IF n.c = "Tup" THEN [n |-> TupleOp, p |-> <<>>] ELSE n.op

\* e annotated and InFragment
Lower(e) ==
  LET le == LowerT(e)
      nodes == PostAcc(le, <<>>)
      cs == SelectSeq(nodes, IsConstNode)
      os == SelectSeq(nodes, IsOpNode)
      ins == NameSeq(e.ti)
      nc == Len(cs)
      ni == Len(ins)
      IdOf(n) == CASE IsConstNode(n) -> IndexIn(cs, n) - 1
                   [] n.c = "Var" -> nc + IndexIn(ins, n.name) - 1
                   [] OTHER -> nc + ni + IndexIn(os, n) - 1
  IN [consts |-> [k \in 1..nc |-> ConstVal(cs[k])],
      inputs |-> ins,
      ops |-> [k \in 1..Len(os) |->
                 [op |-> OpOf(os[k]),
                  args |-> [j \in 1..Len(Kids(os[k])) |-> IdOf(Kids(os[k])[j])]]]]

\* number of distinct non-leaf nodes of the lowered term (the operations a program needs)
RECURSIVE SubTerms(_)
SubTerms(t) ==
  {t} \cup UNION {SubTerms(Kids(t)[k]) : k \in 1..Len(Kids(t))}

DistinctOpNodes(e) == Cardinality({n \in SubTerms(LowerT(e)) : IsOpNode(n)})
DistinctConstNodes(e) == Cardinality({n \in SubTerms(LowerT(e)) : IsConstNode(n)})

=============================================================================
