SPECIFICATION Spec
CONSTANTS
  RealPts <- RP
  Durations = {1, 2, 3, 4, 5, 6, 7}
  LagSets = {{1}, {2}, {3}, {1, 2}, {1, 3}, {2, 3}, {1, 2, 3}}
  Periods = {1, 2}
  Plus = "add"
  Times = "mul"
  LeafKind = "lin"
  Tag = "lag_addmul_q"
INVARIANT Emit
CHECK_DEADLOCK FALSE
