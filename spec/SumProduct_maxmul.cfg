SPECIFICATION Spec
CONSTANTS
  RealPts <- RP
  VarNames <- VN
  PlateNames <- PN
  VarSize = 2
  PlateSize = 2
  Scales = {1}
  MaxFactors = 2
  Plus = "max"
  Times = "mul"
  LeafKind = "nonneg"
  Tag = "sp_maxmul"
INVARIANT Inv_OracleInputs
INVARIANT Emit
CHECK_DEADLOCK FALSE
