SPECIFICATION MSpec
INVARIANT Deterministic
INVARIANT Emit
CHECK_DEADLOCK FALSE
