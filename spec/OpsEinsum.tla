------------------------------- MODULE OpsEinsum -------------------------------
(***************************************************************************)
(* C15, S->C: exact evaluation of einsum equations in the log semiring     *)
(* (logaddexp, add) and the max-plus semiring (max, add), for              *)
(* funsor.einsum.numpy_log.einsum and funsor.einsum.numpy_map.einsum.      *)
(*                                                                         *)
(* An equation has 1..MaxOperands operands over the symbols 1..3 (sizes    *)
(* 2, 3, 2); each operand's dimensions are an ordered selection of         *)
(* distinct symbols (DimSeqs), the output is an ordered selection of the   *)
(* symbols that occur.  A state is <<i1, i2, i3, io, fill>> (indices into  *)
(* DimSeqs, 0 = operand absent).  Operand contents are a position code in  *)
(* the log domain: element k of operand m is log of the ((m-1)*12+k)-th    *)
(* prime, so every positional error changes the value; fills plant -inf:   *)
(*   1 none   2 the first row of every operand   3 all of operand 1        *)
(*   4 every odd position of every operand                                 *)
(* Stride2/Phase2 and Stride3/Phase3 (environment) sample the 2- and       *)
(* 3-operand equations in the quick tier (equation code % Stride = Phase); *)
(* 1/0 keeps all of them.  The state graph is a two-level fan-out (root -> *)
(* <<i1, i2, -1, 0, 0>> -> equations) only so that TLC's workers share the *)
(* evaluation; records are printed for the equations.                      *)
(***************************************************************************)
EXTENDS OpsMeaning

CONSTANTS MaxOperands, Fills

FillsQuick == {1, 2, 3}
FillsThorough == {1, 2, 3, 4}

Stride2 == atoi(IOEnv.EINSUM_STRIDE2)
Phase2 == atoi(IOEnv.EINSUM_PHASE2)
Stride3 == atoi(IOEnv.EINSUM_STRIDE3)
Phase3 == atoi(IOEnv.EINSUM_PHASE3)

SymSize == <<2, 3, 2>>
DimSeqs == << <<>>, <<1>>, <<2>>, <<3>>, <<1, 2>>, <<2, 1>>, <<1, 3>>, <<3, 1>>, <<2, 3>>, <<3, 2>>,
              <<1, 2, 3>>, <<1, 3, 2>>, <<2, 1, 3>>, <<2, 3, 1>>, <<3, 1, 2>>, <<3, 2, 1>> >>
ND == Len(DimSeqs)
Primes == <<2, 3, 5, 7, 11, 13, 17, 19, 23, 29, 31, 37, 41, 43, 47, 53, 59, 61, 67, 71, 73, 79, 83, 89,
            97, 101, 103, 107, 109, 113, 127, 131, 137, 139, 149, 151>>

SeqRange(q) == {q[j] : j \in 1..Len(q)}

Ins(st) ==
  IF st[2] = 0 THEN <<DimSeqs[st[1]]>>
  ELSE IF st[3] = 0 THEN <<DimSeqs[st[1]], DimSeqs[st[2]]>>
  ELSE <<DimSeqs[st[1]], DimSeqs[st[2]], DimSeqs[st[3]]>>
Used(ins) == UNION {SeqRange(ins[m]) : m \in 1..Len(ins)}

Code(st) == st[1] + 17 * st[2] + 289 * st[3] + 4913 * st[4]

Valid(st) ==
  /\ (st[3] # 0 => st[2] # 0)
  /\ (st[2] # 0 => MaxOperands >= 2)
  /\ (st[3] # 0 => MaxOperands >= 3)
  /\ SeqRange(DimSeqs[st[4]]) \subseteq Used(Ins(st))
  /\ (st[2] # 0 /\ st[3] = 0 => Code(st) % Stride2 = Phase2)
  /\ (st[3] # 0 => Code(st) % Stride3 = Phase3)

ShapeOf(dims) == [j \in 1..Len(dims) |-> SymSize[dims[j]]]

Operand(m, dims, fill) ==
  LET sh == ShapeOf(dims) IN
  Arr(sh, [k \in 1..Size(sh) |->
             IF (fill = 2 /\ Len(sh) >= 1 /\ k <= Size(Tail(sh)))
                \/ (fill = 3 /\ m = 1)
                \/ (fill = 4 /\ k % 2 = 1)
             THEN NegInf ELSE MkL(Primes[(m - 1) * 12 + k], 1)])

\* position of symbol x in the sequence q
PosIn(x, q) == CHOOSE j \in 1..Len(q) : q[j] = x

\* textbook einsum in the semiring (sumop, add): for every output index the sumop-fold,
\* over all assignments of the contracted symbols, of the sum of the operands' elements
EinsumEval(sumop, ins, out, opnds) ==
  LET cs == SelectSeq(<<1, 2, 3>>, LAMBDA x : x \in Used(ins) /\ x \notin SeqRange(out))
      csh == ShapeOf(cs)
      total == Size(csh)
      osh == ShapeOf(out)
      Ix(x, oidx, cidx) == IF x \in SeqRange(out) THEN oidx[PosIn(x, out)] ELSE cidx[PosIn(x, cs)]
      Term(oidx, t) ==
        LET cidx == Unflat(t, csh) IN
        FoldOp("add", [m \in 1..Len(ins) |->
                         At(opnds[m], [j \in 1..Len(ins[m]) |-> Ix(ins[m][j], oidx, cidx)])])
  IN Arr(osh, [k \in 1..Size(osh) |->
                 LET oidx == Unflat(k - 1, osh) IN
                 FoldOp(sumop, [t \in 1..total |-> Term(oidx, t - 1)])])

Rec(st) ==
  LET ins == Ins(st)
      out == DimSeqs[st[4]]
      opnds == [m \in 1..Len(ins) |-> Operand(m, ins[m], st[5])]
  IN [kind |-> "einsum", ins |-> ins, out |-> out, fill |-> st[5], operands |-> opnds,
      exp_log |-> EinsumEval("logaddexp", ins, out, opnds),
      exp_map |-> EinsumEval("max", ins, out, opnds)]

VARIABLE q

Root == <<0, 0, 0, 0, 0>>
Init == q = Root
Next ==
  \/ q = Root /\ q' \in {<<i1, i2, -1, 0, 0>> : i1 \in 1..ND, i2 \in 0..ND}
  \/ q[3] = -1 /\ q' \in {st \in {q[1]} \X {q[2]} \X (0..ND) \X (1..ND) \X Fills : Valid(st)}
Emit == q[4] >= 1 => PrintT(ToJson(Rec(q)))

=============================================================================
