------------------------------ MODULE Adjoint -------------------------------
(***************************************************************************)
(* L2: semiring derivatives of sum-product expressions (C11).              *)
(*                                                                         *)
(* DTerm(t, L) is the structural derivative of the expression t with       *)
(* respect to the tensor leaf L, written as an ordinary L1 term so that    *)
(* its meaning is Sem!Eval and nothing else:                               *)
(*     D(L)        = unit of times            D(other leaf) = unit of plus *)
(*     D(a (x) b)  = D(a) (x) b  (+)  a (x) D(b)                           *)
(*     D(a (+) b)  = D(a) (+) D(b)                                         *)
(*     D((+)_V a)  = (+)_{V \ inputs(L)} D(a)   (a reduced variable that a *)
(*                   does not have free contributes only its multiplicity) *)
(*     D(Con)      = the same through the product / reduction it denotes   *)
(* For flat expressions (+)_V (x)_k L_k TLC checks (Inv_AdjDefinitional)   *)
(* that this equals the definitional form of the property: the sum, over   *)
(* the variables the leaf does not mention, of the product of all other    *)
(* factors.  EmitAdj emits, for every reachable program whose leaves are   *)
(* pairwise distinct, the expected forward table and one expected adjoint  *)
(* table per leaf; the harness runs funsor.adjoint.forward_backward.       *)
(***************************************************************************)
EXTENDS TermMachine

CONSTANTS APlus, ATimes     \* the semiring of the adjoint (op names)

UnitTerm(op) == [c |-> "Num", v |-> TextbookUnit(op), dt |-> 0]
BinT(op, a, b) == [c |-> "Bin", op |-> [n |-> op, p |-> <<>>], l |-> a, r |-> b]

RECURSIVE LeafSeq(_)
\* all tensor-leaf occurrences of a raw term, left to right
LeafSeq(t) ==
  CASE t.c = "Ten" -> <<t>>
    [] t.c = "Bin" -> LeafSeq(t.l) \o LeafSeq(t.r)
    [] t.c = "Red" -> LeafSeq(t.arg)
    [] t.c = "Con" -> LET RECURSIVE go(_)
                          go(k) == IF k > Len(t.terms) THEN <<>> ELSE LeafSeq(t.terms[k]) \o go(k + 1)
                      IN go(1)
    [] OTHER -> <<>>

RECURSIVE SumProductShaped(_)
SumProductShaped(t) ==
  CASE t.c \in {"Ten", "Num"} -> TRUE
    [] t.c = "Bin" -> t.op.n \in {APlus, ATimes} /\ SumProductShaped(t.l) /\ SumProductShaped(t.r)
    [] t.c = "Red" -> t.op = APlus /\ SumProductShaped(t.arg)
    [] t.c = "Con" -> /\ t.red \in {APlus, "nullop"} /\ t.bin \in {ATimes, APlus}
                      /\ \A k \in 1..Len(t.terms) : SumProductShaped(t.terms[k])
    [] OTHER -> FALSE

LeafNames(L) == {L.ins[k][1] : k \in 1..Len(L.ins)}

RECURSIVE FoldBin(_, _)
FoldBin(op, ts) == IF Len(ts) = 1 THEN ts[1] ELSE BinT(op, FoldBin(op, SubSeq(ts, 1, Len(ts) - 1)), ts[Len(ts)])

RECURSIVE DTerm(_, _)
DTerm(t, L) ==
  CASE t.c = "Ten" -> (IF t = L THEN UnitTerm(ATimes) ELSE UnitTerm(APlus))
    [] t.c = "Num" -> UnitTerm(APlus)
    [] t.c = "Bin" ->
         (IF t.op.n = ATimes
          THEN BinT(APlus, BinT(ATimes, DTerm(t.l, L), t.r), BinT(ATimes, t.l, DTerm(t.r, L)))
          ELSE BinT(APlus, DTerm(t.l, L), DTerm(t.r, L)))
    [] t.c = "Red" ->
         \* a reduced variable that is an index of L AND free in the argument stays an index;
         \* one that the argument does not have free only contributes its multiplicity, which
         \* is expressed as a reduction over a fresh name that nothing mentions
         (LET free == InputNames(t.arg)
              vs == [k \in 1..Len(t.vars) |->
                       IF t.vars[k][1] \in LeafNames(L) /\ t.vars[k][1] \in free THEN <<"", t.vars[k][2]>>
                       ELSE IF t.vars[k][1] \notin free THEN <<t.vars[k][1] \o "__absent", t.vars[k][2]>>
                       ELSE t.vars[k]]
              keep == SelectSeq(vs, LAMBDA x : x[1] # "")
          IN IF keep = <<>> THEN DTerm(t.arg, L)
             ELSE [c |-> "Red", op |-> t.op, arg |-> DTerm(t.arg, L), vars |-> keep])
    [] t.c = "Con" ->
         (LET body == FoldBin(t.bin, t.terms) IN
          IF t.red = "nullop" \/ t.vars = <<>> THEN DTerm(body, L)
          ELSE DTerm([c |-> "Red", op |-> t.red, arg |-> body, vars |-> t.vars], L))
    [] OTHER -> UnitTerm(APlus)

Distinct(s) == \A i, j \in 1..Len(s) : i # j => s[i] # s[j]

\* the definitional form for flat expressions: Red(plus, V, product tree of leaves)
RECURSIVE IsProdTree(_)
IsProdTree(t) == t.c = "Ten" \/ (t.c = "Bin" /\ t.op.n = ATimes /\ IsProdTree(t.l) /\ IsProdTree(t.r))

Definitional(t, L) ==
  LET ls == LeafSeq(t.arg)
      others == SelectSeq(ls, LAMBDA x : x # L)
      body == IF others = <<>> THEN UnitTerm(ATimes) ELSE FoldBin(ATimes, others)
      vs == FilterPairs(t.vars, LeafNames(L))
  IN IF vs = <<>> THEN body ELSE [c |-> "Red", op |-> APlus, arg |-> body, vars |-> vs]

\* compare two annotated terms on the union of their inputs
SameDen(a, b) ==
  LET ins == Merge(a.ti, b.ti)
      es == EnvSeq(ins)
  IN \A k \in 1..Len(es) : Eval(a, es[k]) = Eval(b, es[k])

Inv_AdjDefinitional ==
  pool # <<>> =>
    LET t == Strip(Last) IN
    (t.c = "Red" /\ t.op = APlus /\ IsProdTree(t.arg) /\ Distinct(LeafSeq(t))) =>
       \A k \in 1..Len(LeafSeq(t)) :
          SameDen(Ann(DTerm(t, LeafSeq(t)[k])), Ann(Definitional(t, LeafSeq(t)[k])))

ProjectA(a) ==
  LET tb == Table(a) IN
  [ins |-> a.ti, out |-> a.to, pts |-> PtsOf(a.ti), tab |-> tb, core |-> FALSE,
   dep |-> DependsOnTab(a.ti, tb), defined |-> TabDefined(tb)]

EmitAdj ==
  (pool # <<>> /\ nops > 0) =>
    LET t == Strip(Last)
        ls == LeafSeq(t)
    IN (SumProductShaped(t) /\ ls # <<>> /\ Distinct(ls)) =>
       PrintT(ToJson([tag |-> Tag, plus |-> APlus, times |-> ATimes, t |-> t, exp |-> Project(Last),
                      adj |-> [k \in 1..Len(ls) |-> [leaf |-> ls[k], exp |-> ProjectA(Ann(DTerm(t, ls[k])))]]]))
=============================================================================
