------------------------------ MODULE Adjoint -------------------------------
(***************************************************************************)
(* L2: semiring derivatives of sum-product expressions (C11).              *)
(*                                                                         *)
(* DTerm(t, L) is the structural derivative of the expression t with       *)
(* respect to the tensor leaf L, written as an ordinary L1 term so that    *)
(* its meaning is Sem!Eval and nothing else:                               *)
(*     D(L)        = [index = fresh index]    D(other leaf) = unit of plus *)
(*     D(a (x) b)  = D(a) (x) b  (+)  a (x) D(b)                           *)
(*     D(a (+) b)  = D(a) (+) D(b)                                         *)
(*     D((+)_V a)  = (+)_V D(a)                                            *)
(*     D(Con)      = the same through the product / reduction it denotes   *)
(* For flat expressions (+)_V (x)_k L_k TLC checks (Inv_AdjDefinitional)   *)
(* that this equals the definitional form of the property: the sum, over   *)
(* the variables the leaf does not mention, of the product of all other    *)
(* factors.  EmitAdj emits, for every reachable program, the expected      *)
(* forward table and one expected adjoint table per distinct leaf (a leaf  *)
(* used twice gets the sum over its occurrences); the harness runs         *)
(* funsor.adjoint.forward_backward.                                        *)
(***************************************************************************)
EXTENDS TermMachine

CONSTANTS APlus, ATimes     \* the semiring of the adjoint (op names)

UnitTerm(op) == [c |-> "Num", v |-> TextbookUnit(op), dt |-> 0]
BinT(op, a, b) == [c |-> "Bin", op |-> [n |-> op, p |-> <<>>], l |-> a, r |-> b]

RECURSIVE LeafSeq(_)
\* all tensor-leaf occurrences of a raw term, left to right
LeafSeq(t) ==
  CASE t.c = "Ten" -> <<t>>
    [] t.c = "Bin" -> LeafSeq(t.l) \o LeafSeq(t.r)
    [] t.c = "Red" -> LeafSeq(t.arg)
    [] t.c = "Sub" -> LeafSeq(t.arg)
    [] t.c = "Con" -> LET RECURSIVE go(_)
                          go(k) == IF k > Len(t.terms) THEN <<>> ELSE LeafSeq(t.terms[k]) \o go(k + 1)
                      IN go(1)
    [] t.c = "Cat" -> LET RECURSIVE gc(_)
                          gc(k) == IF k > Len(t.parts) THEN <<>> ELSE LeafSeq(t.parts[k]) \o gc(k + 1)
                      IN gc(1)
    [] OTHER -> <<>>

RECURSIVE SumProductShaped(_)
SumProductShaped(t) ==
  CASE t.c \in {"Ten", "Num"} -> TRUE
    [] t.c = "Bin" -> t.op.n \in {APlus, ATimes} /\ SumProductShaped(t.l) /\ SumProductShaped(t.r)
    [] t.c = "Red" -> t.op = APlus /\ SumProductShaped(t.arg)
    [] t.c = "Sub" ->    \* renamings, slices and constant indices of a sum-product expression
         /\ t.arg.c = "Ten"        \* "... of the leaves": substitutions sit directly on a leaf
         /\ \A k \in 1..Len(t.subs) :
              /\ t.subs[k][2].c \in {"Var", "Slice", "Num"}
              /\ \E j \in 1..Len(t.arg.ins) : t.arg.ins[j][1] = t.subs[k][1]
    [] t.c = "Con" -> /\ t.red \in {APlus, "nullop"} /\ t.bin \in {ATimes, APlus}
                      /\ \A k \in 1..Len(t.terms) : SumProductShaped(t.terms[k])
    [] t.c = "Cat" -> \A k \in 1..Len(t.parts) : t.parts[k].c = "Ten"      \* a Cat of leaves
    [] OTHER -> FALSE

LeafNames(L) == {L.ins[k][1] : k \in 1..Len(L.ins)}

RECURSIVE FoldBin(_, _)
FoldBin(op, ts) == IF Len(ts) = 1 THEN ts[1] ELSE BinT(op, FoldBin(op, SubSeq(ts, 1, Len(ts) - 1)), ts[Len(ts)])

\* Differentiation is with respect to the leaf L AT FRESH INDEX NAMES n_p (one per input n of
\* L): an occurrence of L contributes the indicator [n = n_p for all n], everything else is
\* the ordinary product / sum / reduction rule, and reductions sum their variables as usual
\* (the primed names are never reduced).  So the same leaf may occur several times, under
\* different binders that re-use its index names.  At the end the primed names are renamed
\* back (DTerm), which for a name the root still has free is the diagonal - the convention
\* of the property ("the product of all other factors" at the same index).
Prime(n) == n \o "_p"
IndT(n, size) ==
  LET e == BinT("eq", [c |-> "Var", name |-> n, dom |-> BintD(size)],
                      [c |-> "Var", name |-> Prime(n), dom |-> BintD(size)])
  IN IF ATimes = "mul" THEN e ELSE [c |-> "Un", op |-> [n |-> "log", p |-> <<>>], arg |-> e]
LeafIndicator(L) ==
  IF L.ins = <<>> THEN UnitTerm(ATimes)
  ELSE FoldBin(ATimes, [k \in 1..Len(L.ins) |-> IndT(L.ins[k][1], L.ins[k][2])])

RECURSIVE DPrimed(_, _)
DPrimed(t, L) ==
  CASE t.c = "Ten" -> (IF t = L THEN LeafIndicator(L) ELSE UnitTerm(APlus))
    [] t.c = "Num" -> UnitTerm(APlus)
    [] t.c = "Bin" ->
         (IF t.op.n = ATimes
          THEN BinT(APlus, BinT(ATimes, DPrimed(t.l, L), t.r), BinT(ATimes, t.l, DPrimed(t.r, L)))
          ELSE BinT(APlus, DPrimed(t.l, L), DPrimed(t.r, L)))
    [] t.c = "Red" -> [c |-> "Red", op |-> t.op, arg |-> DPrimed(t.arg, L), vars |-> t.vars]
    \* chain rule through an index substitution: the primed names are not substituted, so the
    \* indicator [i = i_p] becomes [sigma(i) = i_p]; cells of L that sigma never reaches get
    \* the unit of plus (what Scatter fills in)
    [] t.c = "Sub" -> [c |-> "Sub", arg |-> DPrimed(t.arg, L), subs |-> t.subs]
    \* Cat is positionwise: the derivative of a Cat is the Cat of the derivatives of its parts.
    \* Each part keeps its inputs (zero (x) part = zero with the part's inputs), so the pieces
    \* still have the sizes they had.
    [] t.c = "Cat" ->
         [c |-> "Cat", name |-> t.name, pn |-> t.pn,
          parts |-> [k \in 1..Len(t.parts) |->
                       BinT(APlus, DPrimed(t.parts[k], L), BinT(ATimes, UnitTerm(APlus), t.parts[k]))]]
    [] t.c = "Con" ->
         (LET body == FoldBin(t.bin, t.terms) IN
          IF t.red = "nullop" \/ t.vars = <<>> THEN DPrimed(body, L)
          ELSE [c |-> "Red", op |-> t.red, arg |-> DPrimed(body, L), vars |-> t.vars])
    [] OTHER -> UnitTerm(APlus)

DTerm(t, L) ==
  IF L.ins = <<>> THEN DPrimed(t, L)
  ELSE [c |-> "Sub", arg |-> DPrimed(t, L),
        subs |-> [k \in 1..Len(L.ins) |->
                    <<Prime(L.ins[k][1]), [c |-> "Var", name |-> L.ins[k][1], dom |-> BintD(L.ins[k][2])]>>]]

Distinct(s) == \A i, j \in 1..Len(s) : i # j => s[i] # s[j]

\* the definitional form for flat expressions: Red(plus, V, product tree of leaves)
RECURSIVE IsProdTree(_)
IsProdTree(t) == t.c = "Ten" \/ (t.c = "Bin" /\ t.op.n = ATimes /\ IsProdTree(t.l) /\ IsProdTree(t.r))

Definitional(t, L) ==
  LET ls == LeafSeq(t.arg)
      others == SelectSeq(ls, LAMBDA x : x # L)
      body == IF others = <<>> THEN UnitTerm(ATimes) ELSE FoldBin(ATimes, others)
      vs == FilterPairs(t.vars, LeafNames(L))
  IN IF vs = <<>> THEN body ELSE [c |-> "Red", op |-> APlus, arg |-> body, vars |-> vs]

\* compare two annotated terms on the union of their inputs
SameDen(a, b) ==
  LET ins == Merge(a.ti, b.ti)
      es == EnvSeq(ins)
  IN \A k \in 1..Len(es) : Eval(a, es[k]) = Eval(b, es[k])

Inv_AdjDefinitional ==
  pool # <<>> =>
    LET t == Strip(Last) IN
    (t.c = "Red" /\ t.op = APlus /\ IsProdTree(t.arg) /\ Distinct(LeafSeq(t))) =>
       \A k \in 1..Len(LeafSeq(t)) :
          SameDen(Ann(DTerm(t, LeafSeq(t)[k])), Ann(Definitional(t, LeafSeq(t)[k])))

ProjectA(a) ==
  LET tb == Table(a) IN
  [ins |-> a.ti, out |-> a.to, pts |-> PtsOf(a.ti), tab |-> tb, core |-> FALSE,
   dep |-> DependsOnTab(a.ti, tb), defined |-> TabDefined(tb)]

\* the distinct leaves of a term, in order of first occurrence (a leaf used several times
\* gets ONE adjoint: the sum over its occurrences, which is what DTerm computes)
RECURSIVE Dedupe(_)
Dedupe(s) == IF s = <<>> THEN <<>>
             ELSE <<Head(s)>> \o Dedupe(SelectSeq(Tail(s), LAMBDA x : x # Head(s)))

RECURSIVE BoundNames(_)
BoundNames(t) ==
  CASE t.c = "Bin" -> BoundNames(t.l) \cup BoundNames(t.r)
    [] t.c = "Red" -> Names(t.vars) \cup BoundNames(t.arg)
    [] t.c = "Sub" -> BoundNames(t.arg)
    [] t.c = "Con" -> Names(t.vars) \cup UNION {BoundNames(t.terms[k]) : k \in 1..Len(t.terms)}
    [] t.c = "Cat" -> {t.pn} \cup UNION {BoundNames(t.parts[k]) : k \in 1..Len(t.parts)}
    [] OTHER -> {}

\* A name that is reduced somewhere must not also be a free input of the root: otherwise the
\* index of a leaf occurrence under the reduction and the root's own input share a name and
\* "the derivative with respect to the leaf" is not a function of named inputs any more.
NoShadow(t) == BoundNames(t) \cap Names(Last.ti) = {}

RECURSIVE HasSubNode(_)
HasSubNode(t) ==
  CASE t.c = "Sub" -> TRUE
    [] t.c = "Bin" -> HasSubNode(t.l) \/ HasSubNode(t.r)
    [] t.c = "Red" -> HasSubNode(t.arg)
    [] t.c = "Con" -> \E k \in 1..Len(t.terms) : HasSubNode(t.terms[k])
    [] t.c = "Cat" -> TRUE      \* a Cat re-indexes its parts: same convention as a substitution
    [] OTHER -> FALSE

\* Through an index substitution funsor scatters the adjoint back and sums over EVERY variable
\* the leaf does not mention, free inputs of the root included, whereas elsewhere the root's
\* own inputs are kept; both readings of "the derivative" coincide for closed roots, so
\* expressions with substitutions are emitted only when the root has no free input.
EmitAdj ==
  (pool # <<>> /\ nops > 0) =>
    LET t == Strip(Last)
        ls == Dedupe(LeafSeq(t))
    IN (SumProductShaped(t) /\ ls # <<>> /\ NoShadow(t) /\ (HasSubNode(t) => Last.ti = <<>>)) =>
       PrintT(ToJson([tag |-> Tag, plus |-> APlus, times |-> ATimes, t |-> t, exp |-> Project(Last),
                      adj |-> [k \in 1..Len(ls) |-> [leaf |-> ls[k], exp |-> ProjectA(Ann(DTerm(t, ls[k])))]]]))
=============================================================================
